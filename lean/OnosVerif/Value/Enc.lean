/-
Twin of the primitive encodings the value conversion code relies on:

* Go's fixed-width integer conversions (`int64(uint64)`, `int32(int)`, `uint8(uint64)`) as explicit
  wrapping functions over unbounded `Int`/`Nat`,
* `math/big`: `Int.Bytes` / `Int.SetBytes` (big-endian magnitude, no leading zero byte),
  `Int.Int64` / `Int.Uint64` (low 64 bits, sign applied afterwards),
* Go slice expressions and index expressions with their panics as values,
* `fmt` `%d`, `%0Nd`,
* float32 values as *bit patterns*: the `big.Float` gob form written by `NewTypedValueFloat`, the
  8-byte little-endian float64 form written by `NewLeafListFloatTv` (float32 -> float64 widening is
  exact and is computed on the bit fields; no rounding is modelled anywhere: a byte string that is
  not the image of a float32 is outside the twin, `none`),
* `encoding/base64` (StdEncoding) and the string escaping of `encoding/json` (with `utf8.DecodeRune`).

Byte strings (`[]byte`, and Go strings, which the value code only ever treats as bytes) are
`List UInt8`.  Core-only: this file is linked into the `oracle` driver.
-/
namespace OnosVerif.Value

abbrev Bytes := List UInt8

/-! ### failures: Go errors of the anchored functions and run-time panics, as values -/

inductive Fail
  /-- `not yet supported %v` (GnmiTypedValueToNativeType, default branch) -/
  | notSupported
  /-- `leaf list type Not yet supported %v` (handleLeafList, default branch) -/
  | llNotSupported
  /-- `empty leaf list given` -/
  | emptyLeafList
  /-- `Unsupported type %d` (NativeTypeToGnmiTypedValue, default branch) -/
  | unsupportedType
  /-- `decimal64 precision %d exceeds %d` -/
  | decimalPrecision
  /-- `float value NaN is not supported` -/
  | floatNaN
  /-- a run-time panic: nil dereference, index or slice out of range, integer divide by zero,
      `big.NewFloat(NaN)` -/
  | panic
  /-- the input is outside what the twin models (a FLOAT byte string that no float32 produces) -/
  | unmodelled
deriving DecidableEq, Repr

deriving instance DecidableEq for Except

/-! ### fixed-width integers -/

def two8 : Nat := 256
def two31 : Nat := 2147483648
def two32 : Nat := 4294967296
def two63 : Nat := 9223372036854775808
def two64 : Nat := 18446744073709551616

/-- the low 64 bits of `i` read as an `int64` (`int64(x)`, `int(x)` on a 64-bit platform, and the
    result of any wrapping int64 operation). -/
@[irreducible] def wrapI64 (i : Int) : Int :=
  if i % 18446744073709551616 < 9223372036854775808 then i % 18446744073709551616
  else i % 18446744073709551616 - 18446744073709551616

/-- the low 32 bits of `i` read as an `int32` (`int32(x)`). -/
@[irreducible] def wrapI32 (i : Int) : Int :=
  if i % 4294967296 < 2147483648 then i % 4294967296 else i % 4294967296 - 4294967296

def isInt64 (i : Int) : Bool := decide (-9223372036854775808 ≤ i ∧ i < 9223372036854775808)
def isUint64 (n : Nat) : Bool := decide (n < two64)
def isUint32 (n : Nat) : Bool := decide (n < two32)

/-! ### math/big integers (sign + magnitude) -/

/-- loop of `nat.bytes`: least significant byte first, prepended to `acc`. -/
def natToBEAux : Nat → Nat → Bytes → Bytes
  | 0, _, acc => acc
  | fuel + 1, n, acc =>
    if n = 0 then acc else natToBEAux fuel (n / 256) (UInt8.ofNat (n % 256) :: acc)

/-- `big.Int.Bytes()` of a magnitude: big-endian, no leading zero byte, empty for 0.
    (`n` steps of fuel are always enough: `natToBEAux_fuel`.) -/
def natToBE (n : Nat) : Bytes := natToBEAux n n []

/-- `big.Int.SetBytes`: the magnitude a big-endian byte string denotes. -/
def natOfBE (bs : Bytes) : Nat := bs.foldl (fun acc b => acc * 256 + b.toNat) 0

/-- `big.Int.Int64()` of a value given as sign and magnitude: the low 64 bits of the magnitude
    as an int64, negated (wrapping) for a negative value. -/
def bigInt64 (neg : Bool) (mag : Nat) : Int :=
  match neg with
  | true => wrapI64 (-wrapI64 ((mag % two64 : Nat) : Int))
  | false => wrapI64 ((mag % two64 : Nat) : Int)

/-- `big.Int.Uint64()` of a non-negative value. -/
def bigUint64 (mag : Nat) : Nat := mag % two64

/-- exactly `k` big-endian bytes of `n` (`binary.BigEndian.PutUint32/64`). -/
def beFixed : Nat → Nat → Bytes
  | 0, _ => []
  | k + 1, n => UInt8.ofNat (n / 256 ^ k % 256) :: beFixed k n

/-- exactly `k` little-endian bytes of `n` (`binary.LittleEndian.PutUint64`). -/
def leFixed : Nat → Nat → Bytes
  | 0, _ => []
  | k + 1, n => UInt8.ofNat (n % 256) :: leFixed k (n / 256)

/-- `binary.LittleEndian.Uint64` on a slice. -/
def natOfLE : Bytes → Nat
  | [] => 0
  | b :: bs => b.toNat + 256 * natOfLE bs

/-! ### slices and indices -/

/-- the slice expression `b[lo:hi]` on a slice whose capacity equals its length. -/
def slice (b : Bytes) (lo hi : Int) : Except Fail Bytes :=
  if lo < 0 ∨ hi < lo ∨ (b.length : Int) < hi then .error .panic
  else .ok ((b.drop lo.toNat).take (hi.toNat - lo.toNat))

/-! ### fmt -/

/-- `%d` of a non-negative integer. -/
def fmtNat (n : Nat) : List Char := Nat.toDigits 10 n

/-- `%d` of an integer. -/
def fmtInt (i : Int) : List Char :=
  if i < 0 then '-' :: fmtNat i.natAbs else fmtNat i.natAbs

/-- `%0Nd`: zero padding to width `w`; the sign counts towards the width and stays in front. -/
def fmtIntPad0 (w : Nat) (i : Int) : List Char :=
  let ds := fmtNat i.natAbs
  if i < 0 then '-' :: (List.replicate (w - 1 - ds.length) '0' ++ ds)
  else List.replicate (w - ds.length) '0' ++ ds

def asciiBytes (s : List Char) : Bytes := s.map fun c => UInt8.ofNat c.toNat

/-! ### float32 bit patterns -/

def two23 : Nat := 8388608

def f32Sign (b : Nat) : Nat := b / two31 % 2
def f32Exp (b : Nat) : Nat := b / two23 % 256
def f32Man (b : Nat) : Nat := b % two23

def isNaN32 (b : Nat) : Bool := f32Exp b == 255 && f32Man b != 0

/-- number of significant bits of `n` (`bits.Len`), by at most `fuel` halvings. -/
def bitLenAux : Nat → Nat → Nat
  | 0, _ => 0
  | fuel + 1, n => if n = 0 then 0 else 1 + bitLenAux fuel (n / 2)

/-- `bits.Len` for arguments below 2^64. -/
def bitLen (n : Nat) : Nat := bitLenAux 64 n

/-- `big.NewFloat(float64(f)).GobEncode()` for the float32 with bit pattern `bits` (not a NaN):
    version 1; flags byte = mode ToNearestEven, accuracy Exact, form (zero / finite / inf), sign;
    precision 53; for finite values the exponent (value = 0.1mmm… × 2^exp) as 4 big-endian bytes
    and the mantissa, normalised to have its top bit set, as one 64-bit big-endian word. -/
def gobFloat32 (bits : Nat) : Bytes :=
  let s := f32Sign bits
  let e := f32Exp bits
  let m := f32Man bits
  if e = 0 ∧ m = 0 then [1, UInt8.ofNat (8 + s), 0, 0, 0, 53]
  else if e = 255 then [1, UInt8.ofNat (12 + s), 0, 0, 0, 53]
  else if e = 0 then
    let k := bitLen m
    [1, UInt8.ofNat (10 + s), 0, 0, 0, 53]
      ++ beFixed 4 (((k : Int) - 149) % 4294967296).toNat ++ beFixed 8 (m * 2 ^ (64 - k))
  else
    [1, UInt8.ofNat (10 + s), 0, 0, 0, 53]
      ++ beFixed 4 (((e : Int) - 126) % 4294967296).toNat ++ beFixed 8 ((two23 + m) * 2 ^ 40)

/-- a finite `big.Float` of precision 53 given by sign bit value, exponent and 64-bit mantissa
    word, as float32 bits — when it is exactly a float32 (normal or subnormal). -/
def float32OfParts (s : Nat) (exp : Int) (mant : Nat) : Option Nat :=
  if mant < two63 then none
  else if -125 ≤ exp ∧ exp ≤ 128 then
    if mant % 2 ^ 40 = 0 then some (s + (exp + 126).toNat * two23 + (mant / 2 ^ 40 - two23)) else none
  else if -148 ≤ exp ∧ exp ≤ -126 then
    if mant % 2 ^ (64 - (exp + 149).toNat) = 0 then some (s + mant / 2 ^ (64 - (exp + 149).toNat)) else none
  else none

/-- the finite case of `float32OfGob`: flags byte, the 4 exponent bytes, the 8 mantissa bytes. -/
def float32OfFinite (fl : UInt8) (xs ms : Bytes) : Option Nat :=
  if fl = 10 ∨ fl = 11 then
    float32OfParts (if fl = 11 then two31 else 0) (wrapI32 (natOfBE xs : Nat)) (natOfBE ms)
  else none

/-- `TypedFloat.Float32()` restricted to byte strings that some non-NaN float32 produces through
    `gobFloat32` (decoding anything else needs rounding, which is not modelled: `none`).
    `len(Bytes) == 0` gives 0.0 as in the code. -/
def float32OfGob (bs : Bytes) : Option Nat :=
  match bs with
  | [] => some 0
  | [v, fl, p0, p1, p2, p3] =>
    if v = 1 ∧ p0 = 0 ∧ p1 = 0 ∧ p2 = 0 ∧ p3 = 53 then
      if fl = 8 then some 0 else if fl = 9 then some two31
      else if fl = 12 then some (255 * two23) else if fl = 13 then some (two31 + 255 * two23)
      else none
    else none
  | [v, fl, p0, p1, p2, p3, x0, x1, x2, x3, m0, m1, m2, m3, m4, m5, m6, m7] =>
    if v = 1 ∧ p0 = 0 ∧ p1 = 0 ∧ p2 = 0 ∧ p3 = 53 then
      float32OfFinite fl [x0, x1, x2, x3] [m0, m1, m2, m3, m4, m5, m6, m7]
    else none
  | _ => none

/-- `math.Float64bits(float64(f))` for the float32 with bit pattern `bits`: exact widening.
    (A NaN keeps its payload and gets the quiet bit, as the amd64 conversion instruction does.) -/
def widen32 (bits : Nat) : Nat :=
  let s := f32Sign bits
  let e := f32Exp bits
  let m := f32Man bits
  two63 * s +
    (if e = 0 ∧ m = 0 then 0
     else if e = 255 then 2 ^ 52 * 2047 + (if m = 0 then 0 else 2 ^ 29 * m % 2 ^ 51 + 2 ^ 51)
     else if e = 0 then 2 ^ 52 * (bitLen m + 873) + 2 ^ (53 - bitLen m) * m % 2 ^ 52
     else 2 ^ 52 * (e + 896) + 2 ^ 29 * m)

/-- a float64 given by sign, biased exponent and mantissa field, as float32 bits — when it is
    exactly a float32 (anything else needs rounding: `none`). -/
def narrowParts (s e m : Nat) : Option Nat :=
  if e = 0 ∧ m = 0 then some (two31 * s)
  else if e = 2047 then
    if m = 0 then some (two31 * s + two23 * 255)
    else if m % 2 ^ 29 = 0 then some (two31 * s + two23 * 255 + (m / 2 ^ 29) % 2 ^ 22 + 2 ^ 22) else none
  else if 897 ≤ e ∧ e ≤ 1150 then
    if m % 2 ^ 29 = 0 then some (two31 * s + two23 * (e - 896) + m / 2 ^ 29) else none
  else if 874 ≤ e ∧ e ≤ 896 then
    if (2 ^ 52 + m) % 2 ^ (53 - (e - 873)) = 0 then some (two31 * s + (2 ^ 52 + m) / 2 ^ (53 - (e - 873))) else none
  else none

/-- `math.Float32bits(float32(math.Float64frombits(b)))` restricted to float64 values that are
    exactly a float32. -/
def narrow64 (b : Nat) : Option Nat := narrowParts (b / two63 % 2) (b / 2 ^ 52 % 2048) (b % 2 ^ 52)

/-! ### encoding/base64, StdEncoding with padding -/

def b64Char (n : Nat) : UInt8 :=
  if n < 26 then UInt8.ofNat (65 + n)
  else if n < 52 then UInt8.ofNat (97 + (n - 26))
  else if n < 62 then UInt8.ofNat (48 + (n - 52))
  else if n = 62 then 43 else 47

def base64 : Bytes → Bytes
  | [] => []
  | [a] => [b64Char (a.toNat / 4), b64Char (a.toNat % 4 * 16), 61, 61]
  | [a, b] => [b64Char (a.toNat / 4), b64Char (a.toNat % 4 * 16 + b.toNat / 16), b64Char (b.toNat % 16 * 4), 61]
  | a :: b :: c :: rest =>
    b64Char (a.toNat / 4) :: b64Char (a.toNat % 4 * 16 + b.toNat / 16)
      :: b64Char (b.toNat % 16 * 4 + c.toNat / 64) :: b64Char (c.toNat % 64) :: base64 rest

/-! ### encoding/json string escaping (escapeHTML on) -/

def hexLower (n : Nat) : UInt8 := if n < 10 then UInt8.ofNat (48 + n) else UInt8.ofNat (87 + n)

/-- `\u00XX` -/
def jsonU00 (b : UInt8) : Bytes := [92, 117, 48, 48, hexLower (b.toNat / 16), hexLower (b.toNat % 16)]

def isCont (b : UInt8) : Bool := 0x80 ≤ b && b ≤ 0xBF

/-- `utf8.DecodeRune`: the length (2..4) of the well-formed multi-byte sequence at the head of
    the input, 0 when the head is not one (`RuneError`, width 1).  The head byte is ≥ 0x80. -/
def utf8Len : Bytes → Nat
  | b0 :: b1 :: rest =>
    if 0xC2 ≤ b0 ∧ b0 ≤ 0xDF then (if isCont b1 then 2 else 0)
    else if 0xE0 ≤ b0 ∧ b0 ≤ 0xEF then
      let lo : UInt8 := if b0 = 0xE0 then 0xA0 else 0x80
      let hi : UInt8 := if b0 = 0xED then 0x9F else 0xBF
      match rest with
      | b2 :: _ => if lo ≤ b1 ∧ b1 ≤ hi ∧ isCont b2 then 3 else 0
      | _ => 0
    else if 0xF0 ≤ b0 ∧ b0 ≤ 0xF4 then
      let lo : UInt8 := if b0 = 0xF0 then 0x90 else 0x80
      let hi : UInt8 := if b0 = 0xF4 then 0x8F else 0xBF
      match rest with
      | b2 :: b3 :: _ => if lo ≤ b1 ∧ b1 ≤ hi ∧ isCont b2 ∧ isCont b3 then 4 else 0
      | _ => 0
    else 0
  | _ => 0

/-- escape of one byte below 0x80 -/
def jsonEscAscii (b : UInt8) : Bytes :=
  if b = 34 then [92, 34]
  else if b = 92 then [92, 92]
  else if b = 8 then [92, 98]
  else if b = 12 then [92, 102]
  else if b = 10 then [92, 110]
  else if b = 13 then [92, 114]
  else if b = 9 then [92, 116]
  else if b < 32 ∨ b = 60 ∨ b = 62 ∨ b = 38 then jsonU00 b
  else [b]

/-- the body of `appendString`: `"` and `\` are backslash-escaped, `\b \f \n \r \t` get their
    short forms, other control characters and `< > &` become `\u00XX`, a byte that does not start
    a well-formed UTF-8 sequence becomes `\ufffd`, U+2028 / U+2029 become `\u2028` / `\u2029`,
    everything else is copied.  `k` is the number of bytes of the current multi-byte sequence
    still to pass over (`copy`: they are copied; otherwise they were replaced by an escape). -/
def jsonEscapeAux : Nat → Bool → Bytes → Bytes
  | _, _, [] => []
  | k + 1, copy, b :: rest => if copy then b :: jsonEscapeAux k copy rest else jsonEscapeAux k copy rest
  | 0, _, b :: rest =>
    if b < 0x80 then jsonEscAscii b ++ jsonEscapeAux 0 true rest
    else
      let n := utf8Len (b :: rest)
      if n = 0 then [92, 117, 102, 102, 102, 100] ++ jsonEscapeAux 0 true rest
      else if b = 0xE2 ∧ rest.take 2 = [0x80, 0xA8] then [92, 117, 50, 48, 50, 56] ++ jsonEscapeAux 2 false rest
      else if b = 0xE2 ∧ rest.take 2 = [0x80, 0xA9] then [92, 117, 50, 48, 50, 57] ++ jsonEscapeAux 2 false rest
      else b :: jsonEscapeAux (n - 1) true rest

def jsonEscape (s : Bytes) : Bytes := jsonEscapeAux 0 true s

def jsonQuote (s : Bytes) : Bytes := 34 :: (jsonEscape s ++ [34])

end OnosVerif.Value
