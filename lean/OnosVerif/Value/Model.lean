/-
Twin of the value path of onos-config:

* `GnmiTypedValueToNativeType`, `handleLeafList`, `NativeTypeToGnmiTypedValue`
  (pkg/utils/v2/values/gnmi_value.go; the v3 file is the same text over the v3 API package),
* the onos-api typed-value constructors and accessors they call
  (onos/config/v2/typedvalue.go: `NewTypedValue*`, `NewLeafList*Tv`, `Int()`, `Uint()`, `Bool()`,
  `Decimal64()`, `Float32()`, `ByteArray()`, the `List()` methods, `strDecimal64`),
* the JSON leaf rendering of `handleLeafValue` (pkg/utils/v2/tree/tree.go) followed by
  `encoding/json` on the Go value it stores in the tree,
* the value part of `PathValuesToGnmiChange` and of `createUpdate` (PROTO encoding).

The code is mirrored as it is: the same branch order, the same truncations (`uint8(typeOpt0)`,
`int32(width)`, `uint8(precision)`), the same decoding loops — including the length-prefixed byte
list decoder that checks for a member boundary once per *byte*, the 0x1D-separated string list,
and `strDecimal64`, which prints the integer part of a negative fraction as `0`.

Core-only: this file is linked into the `oracle` driver.
-/
import OnosVerif.Value.Enc
import OnosVerif.Generated.Facts

namespace OnosVerif.Value

/-! ### facts regenerated from the Go sources (OnosVerif/Generated/Facts.lean)

The translator emits the decision structure of the v2 and v3 files as strings; they are parsed
here into small enums, and the twin below is driven by the parsed v2 facts (`C17_fact_*` in
Props/C17.lean state that the v3 facts are the same and what they currently are). -/

/-- the accumulator lists of `handleLeafList`, and the leaf-list constructors. -/
inductive LLKind
  | strs | ints | uints | bools | bytess | digits | floats
deriving DecidableEq, Repr

def llKindOfList : String → Option LLKind
  | "stringList" => some .strs | "intList" => some .ints | "uintList" => some .uints
  | "boolList" => some .bools | "bytesList" => some .bytess | "digitsList" => some .digits
  | "floatList" => some .floats | _ => none

def llKindOfCtor : String → Option LLKind
  | "NewLeafListStringTv" => some .strs | "NewLeafListIntTv" => some .ints | "NewLeafListUintTv" => some .uints
  | "NewLeafListBoolTv" => some .bools | "NewLeafListBytesTv" => some .bytess
  | "NewLeafListDecimalTv" => some .digits | "NewLeafListFloatTv" => some .floats | _ => none

def parseChain (c : List (String × String × String)) : Option (List (LLKind × LLKind)) :=
  c.mapM fun b =>
    match llKindOfList b.1, llKindOfCtor b.2.1 with
    | some t, some k => some (t, k)
    | _, _ => none

/-- the if-chain at the end of `handleLeafList`: (list tested for `len > 0`, list constructed). -/
def leafListChain : Option (List (LLKind × LLKind)) := parseChain Generated.leafListChainV2

/-- `v.DecimalVal.Precision > maxDecimal64Precision`: the precision is refused (no bound in a
    source without the constant). -/
def precisionRefused (p : Nat) : Bool :=
  match Generated.maxDecimalPrecisionV2 with
  | some m => decide (p > m)
  | none => false

/-- what the FloatVal case does with a NaN: an error when the source tests `math.IsNaN`, else
    the panic of `big.NewFloat(NaN)`. -/
def nanFailure : Fail := if Generated.floatNaNRefusedV2 then .floatNaN else .panic

/-- `var intWidth / uintWidth / width = configapi.WidthNN`. -/
def defaultWidth (name : String) : Int := ((Generated.defaultWidthsV2.lookup name).getD 0 : Nat)

inductive CmpOp
  | gt | ge | lt | le | eq | ne | always
deriving DecidableEq, Repr

def cmpOpOf : String → Option CmpOp
  | ">" => some .gt | ">=" => some .ge | "<" => some .lt | "<=" => some .le | "==" => some .eq
  | "!=" => some .ne | "" => some .always | _ => none

def CmpOp.eval : CmpOp → Int → Int → Bool
  | .gt, a, b => decide (a > b) | .ge, a, b => decide (a ≥ b) | .lt, a, b => decide (a < b)
  | .le, a, b => decide (a ≤ b) | .eq, a, b => decide (a = b) | .ne, a, b => decide (a ≠ b)
  | .always, _, _ => true

/-- the width comparison of a `handleLeafValue` case (`width > WidthThirtyTwo`): operator and constant. -/
def wideCfg (label : String) : Option (CmpOp × Nat) :=
  match Generated.leafValueTableV2.lookup label with
  | some (op, c, _, _) => (cmpOpOf op).map fun o => (o, c)
  | none => none

/-- is a value of this width written as a JSON string under RFC 7951? -/
def isWide (label : String) (w : Int) : Bool :=
  match wideCfg label with
  | some (o, c) => o.eval w c
  | none => false

/-! ### gNMI side -/

/-- a scalar `gnmi.TypedValue` (the `Value` oneof). -/
inductive Scalar
  | str (s : Bytes)
  | ascii (s : Bytes)
  | int (i : Int)
  | uint (n : Nat)
  | bool (b : Bool)
  | bytes (b : Bytes)
  /-- `DecimalVal{Digits, Precision}` -/
  | dec (digits : Int) (precision : Nat)
  /-- `TypedValue_DecimalVal{DecimalVal: nil}` -/
  | decNil
  /-- `FloatVal`, as the float32 bit pattern -/
  | float (bits : Nat)
  /-- `AnyVal{nil}`: what an EMPTY native value converts to -/
  | anyNil
  /-- every other member of the oneof (JsonVal, DoubleVal, ProtoBytes, …), a nil `Value`, a nil
      `*TypedValue`, and a leaf-list nested in a leaf-list -/
  | other
deriving DecidableEq, Repr, Inhabited

/-- a `gnmi.TypedValue`: a scalar or `LeaflistVal` (a nil `ScalarArray` has no elements). -/
inductive GVal
  | scalar (s : Scalar)
  | leaflist (es : List Scalar)
deriving DecidableEq, Repr, Inhabited

/-! ### native side (onos-api `TypedValue`) -/

inductive VType
  | empty | string | int | uint | bool | decimal | float | bytes
  | llString | llInt | llUint | llBool | llDecimal | llFloat | llBytes
  | double | llDouble
  | other (n : Nat)
deriving DecidableEq, Repr, Inhabited

/-- the protobuf enum number (value.proto). -/
def VType.toNat : VType → Nat
  | .empty => 0 | .string => 1 | .int => 2 | .uint => 3 | .bool => 4 | .decimal => 5 | .float => 6
  | .bytes => 7 | .llString => 8 | .llInt => 9 | .llUint => 10 | .llBool => 11 | .llDecimal => 12
  | .llFloat => 13 | .llBytes => 14 | .double => 15 | .llDouble => 16 | .other n => n

def VType.ofNat : Nat → VType
  | 0 => .empty | 1 => .string | 2 => .int | 3 => .uint | 4 => .bool | 5 => .decimal | 6 => .float
  | 7 => .bytes | 8 => .llString | 9 => .llInt | 10 => .llUint | 11 => .llBool | 12 => .llDecimal
  | 13 => .llFloat | 14 => .llBytes | 15 => .double | 16 => .llDouble | n => .other n

/-- `configapi.TypedValue{Bytes, Type, TypeOpts}`; `TypeOpts` is `[]int32`. -/
structure TV where
  bytes : Bytes
  type : VType
  opts : List Int
deriving DecidableEq, Repr, Inhabited

/-! ### constructors (`NewTypedValue*`, `NewLeafList*Tv`) -/

def negFlag (v : Int) : Int := if v < 0 then 1 else 0

def newString (s : Bytes) : TV := { bytes := s, type := .string, opts := [] }

/-- `NewTypedValueInt(value, width)`: magnitude bytes, `TypeOpts = [int32(width), isNegative]`. -/
def newInt (v : Int) (width : Int) : TV :=
  { bytes := natToBE v.natAbs, type := .int, opts := [wrapI32 width, negFlag v] }

def newUint (v : Nat) (width : Int) : TV :=
  { bytes := natToBE v, type := .uint, opts := [wrapI32 width] }

def newBool (b : Bool) : TV := { bytes := [if b then 1 else 0], type := .bool, opts := [] }

/-- `NewTypedValueDecimal(digits, precision)` with `precision : uint8`. -/
def newDecimal (digits : Int) (precision : Nat) : TV :=
  { bytes := natToBE digits.natAbs, type := .decimal, opts := [(precision : Int), negFlag digits] }

def newFloat (bits : Nat) : TV := { bytes := gobFloat32 bits, type := .float, opts := [] }

def newBytes (b : Bytes) : TV := { bytes := b, type := .bytes, opts := [wrapI32 (b.length : Int)] }

/-- the byte string of `newLeafListString`: members separated by 0x1D. -/
def joinGS : List Bytes → Bytes
  | [] => []
  | [s] => s
  | s :: rest => s ++ 0x1D :: joinGS rest

def newLLString (vs : List Bytes) : TV := { bytes := joinGS vs, type := .llString, opts := [] }

def newLLInt (vs : List Int) (width : Int) : TV :=
  { bytes := vs.flatMap fun v => natToBE v.natAbs,
    type := .llInt,
    opts := wrapI32 width :: vs.flatMap fun v => [((natToBE v.natAbs).length : Int), negFlag v] }

def newLLUint (vs : List Nat) (width : Int) : TV :=
  { bytes := vs.flatMap natToBE,
    type := .llUint,
    opts := wrapI32 width :: vs.map fun v => ((natToBE v).length : Int) }

def newLLBool (vs : List Bool) : TV :=
  { bytes := vs.map fun b => if b then 1 else 0, type := .llBool, opts := [] }

def newLLDecimal (ds : List Int) (precision : Nat) : TV :=
  { bytes := ds.flatMap fun v => natToBE v.natAbs,
    type := .llDecimal,
    opts := (precision : Int) :: ds.flatMap fun v => [((natToBE v.natAbs).length : Int), negFlag v] }

def newLLFloat (fs : List Nat) : TV :=
  { bytes := fs.flatMap fun f => leFixed 8 (widen32 f), type := .llFloat, opts := [] }

def newLLBytes (vs : List Bytes) : TV :=
  { bytes := vs.flatten, type := .llBytes, opts := vs.map fun v => wrapI32 (v.length : Int) }

/-! ### GnmiTypedValueToNativeType -/

/-- the lists `handleLeafList` fills while it walks the elements. -/
structure LLAcc where
  strs : List Bytes := []
  ints : List Int := []
  uints : List Nat := []
  bools : List Bool := []
  bytess : List Bytes := []
  digits : List Int := []
  precision : Nat
  floats : List Nat := []
deriving Repr

/-- the `for _, leaf := range …` loop of `handleLeafList`. -/
def llCollect : LLAcc → List Scalar → Except Fail LLAcc
  | acc, [] => .ok acc
  | acc, e :: es =>
    match e with
    | .str s => llCollect { acc with strs := acc.strs ++ [s] } es
    | .ascii s => llCollect { acc with strs := acc.strs ++ [s] } es
    | .int i => llCollect { acc with ints := acc.ints ++ [i] } es
    | .uint n => llCollect { acc with uints := acc.uints ++ [n] } es
    | .bool b => llCollect { acc with bools := acc.bools ++ [b] } es
    | .bytes b => llCollect { acc with bytess := acc.bytess ++ [b] } es
    | .dec d p =>
      if precisionRefused p then .error .decimalPrecision
      else llCollect { acc with digits := acc.digits ++ [d], precision := p % 256 } es
    | .decNil => .error .panic
    | .float f => llCollect { acc with floats := acc.floats ++ [f] } es
    | .anyNil => .error .llNotSupported
    | .other => .error .llNotSupported

def llNonEmpty (acc : LLAcc) : LLKind → Bool
  | .strs => acc.strs.length > 0 | .ints => acc.ints.length > 0 | .uints => acc.uints.length > 0
  | .bools => acc.bools.length > 0 | .bytess => acc.bytess.length > 0 | .digits => acc.digits.length > 0
  | .floats => acc.floats.length > 0

def llBuild (acc : LLAcc) (width : Int) : LLKind → TV
  | .strs => newLLString acc.strs | .ints => newLLInt acc.ints width | .uints => newLLUint acc.uints width
  | .bools => newLLBool acc.bools | .bytess => newLLBytes acc.bytess
  | .digits => newLLDecimal acc.digits acc.precision | .floats => newLLFloat acc.floats

/-- `if len(a) > 0 { return NewA(…) } else if len(b) > 0 { … } … return error`. -/
def llChain (acc : LLAcc) (width : Int) : List (LLKind × LLKind) → Except Fail TV
  | [] => .error .emptyLeafList
  | (t, k) :: rest => if llNonEmpty acc t then .ok (llBuild acc width k) else llChain acc width rest

/-- `handleLeafList(gnmiLl, typeOpt0)` with `typeOpt0 : uint8`. -/
def handleLeafList (es : List Scalar) (typeOpt0 : Nat) : Except Fail TV :=
  match llCollect { precision := typeOpt0 } es with
  | .error e => .error e
  | .ok acc =>
    let width : Int := if typeOpt0 > 0 then (typeOpt0 : Int) else defaultWidth "width"
    match leafListChain with
    | some chain => llChain acc width chain
    | none => .error .unmodelled

/-- `configapi.Width(modelPath.TypeOpts[0])` when there is a model path with type options,
    `WidthThirtyTwo` otherwise.  `opts` is `modelPath.TypeOpts` (`[]uint64`; a nil model path
    behaves as one without options). -/
def widthOf (dflt : String) (opts : List Nat) : Int :=
  match opts with
  | [] => defaultWidth dflt
  | w :: _ => wrapI64 (w : Int)

/-- `GnmiTypedValueToNativeType(gnmiTv, modelPath)`. -/
def toNative (g : GVal) (opts : List Nat) : Except Fail TV :=
  match g with
  | .scalar (.str s) => .ok (newString s)
  | .scalar (.ascii s) => .ok (newString s)
  | .scalar (.int i) => .ok (newInt (wrapI64 i) (widthOf "intWidth" opts))
  | .scalar (.uint n) => .ok (newUint (n % two64) (widthOf "uintWidth" opts))
  | .scalar (.bool b) => .ok (newBool b)
  | .scalar (.bytes b) => .ok (newBytes b)
  | .scalar (.dec d p) => if precisionRefused p then .error .decimalPrecision else .ok (newDecimal d (p % 256))
  | .scalar .decNil => .error .panic
  | .scalar (.float f) => if isNaN32 f then .error nanFailure else .ok (newFloat f)
  | .scalar .anyNil => .error .notSupported
  | .scalar .other => .error .notSupported
  | .leaflist es => handleLeafList es (opts.headD 0 % 256)

/-! ### accessors -/

def optAt (opts : List Int) (i : Nat) : Except Fail Int :=
  match opts[i]? with
  | some v => .ok v
  | none => .error .panic

/-- `TypedInt.Int()`. -/
def tvInt (tv : TV) : Int :=
  bigInt64 (decide (tv.opts.length > 1) && tv.opts[1]? == some 1) (natOfBE tv.bytes)

/-- `TypedUint.Uint()`. -/
def tvUint (tv : TV) : Nat := bigUint64 (natOfBE tv.bytes)

/-- `TypedBool.Bool()`: `tv.Bytes[0] == 1`. -/
def tvBool (tv : TV) : Except Fail Bool :=
  match tv.bytes with
  | [] => .error .panic
  | b :: _ => .ok (b == 1)

/-- `TypedDecimal.Decimal64()`. -/
def tvDecimal (tv : TV) : Int × Nat :=
  match tv.opts with
  | [] => (0, 0)
  | p :: rest =>
    let mult : Int := if rest.head? == some 1 then -1 else 1
    (wrapI64 (bigInt64 false (natOfBE tv.bytes) * mult), (p % 256).toNat)

/-- `TypedLeafListString.List()`: split at every 0x1D; always at least one member. -/
def splitGS : Bytes → Bytes → List Bytes
  | [], buf => [buf]
  | b :: bs, buf => if b ≠ 0x1D then splitGS bs (buf ++ [b]) else buf :: splitGS bs []

def tvLLString (tv : TV) : List Bytes := splitGS tv.bytes []

/-- the loop of `TypedLeafListInt.List()` / `TypedLeafListDecimal.List()` over the
    `[len, negative]` pairs that follow the first type option; `bc` is `byteCounter`. -/
def llSignedLoop (bytes : Bytes) : Int → List Int → Except Fail (List Int)
  | bc, len :: neg :: rest =>
    match slice bytes bc (bc + len) with
    | .error e => .error e
    | .ok v =>
      match llSignedLoop bytes (bc + len) rest with
      | .error e => .error e
      | .ok xs => .ok (bigInt64 (neg != 0) (natOfBE v) :: xs)
  | _, _ => .ok []

/-- `TypedLeafListInt.List()`: values and `Width(TypeOpts[0])`. -/
def tvLLInt (tv : TV) : Except Fail (List Int × Int) :=
  match tv.opts with
  | [] => .error .panic
  | w :: rest =>
    match llSignedLoop tv.bytes 0 rest with
    | .error e => .error e
    | .ok xs => .ok (xs, w)

def llUnsignedLoop (bytes : Bytes) : Int → List Int → Except Fail (List Nat)
  | _, [] => .ok []
  | bc, len :: rest =>
    match slice bytes bc (bc + len) with
    | .error e => .error e
    | .ok v =>
      match llUnsignedLoop bytes (bc + len) rest with
      | .error e => .error e
      | .ok xs => .ok (bigUint64 (natOfBE v) :: xs)

/-- `TypedLeafListUint.List()`. -/
def tvLLUint (tv : TV) : Except Fail (List Nat × Int) :=
  match tv.opts with
  | [] => .error .panic
  | w :: rest =>
    match llUnsignedLoop tv.bytes 0 rest with
    | .error e => .error e
    | .ok xs => .ok (xs, w)

/-- `TypedLeafListBool.List()`. -/
def tvLLBool (tv : TV) : List Bool := tv.bytes.map fun b => b == 1

/-- `TypedLeafListDecimal.List()`: digits and `uint8(TypeOpts[0])`. -/
def tvLLDecimal (tv : TV) : Except Fail (List Int × Nat) :=
  match tv.opts with
  | [] => .error .panic
  | p :: rest =>
    match llSignedLoop tv.bytes 0 rest with
    | .error e => .error e
    | .ok xs => .ok (xs, (p % 256).toNat)

/-- `TypedLeafListFloat.List()`: `len(Bytes)/8` groups of 8 bytes (a shorter tail is ignored). -/
def llFloatLoop : Bytes → Option (List Nat)
  | b0 :: b1 :: b2 :: b3 :: b4 :: b5 :: b6 :: b7 :: rest =>
    match narrow64 (natOfLE [b0, b1, b2, b3, b4, b5, b6, b7]), llFloatLoop rest with
    | some f, some fs => some (f :: fs)
    | _, _ => none
  | _ => some []

def tvLLFloat (tv : TV) : Except Fail (List Nat) :=
  match llFloatLoop tv.bytes with
  | some fs => .ok fs
  | none => .error .unmodelled

/-- the `for i, b := range tv.Bytes` loop of `TypedLeafListBytes.List()`: one boundary test per
    byte (`i - startAt == TypeOpts[idx]`), so a member of length 0 that is not the first one is
    never closed, and the lengths that follow it are applied to the wrong members. -/
def llBytesLoop (opts : List Int) : Nat → Nat → Int → Bytes → List Bytes → Bytes → Except Fail (List Bytes)
  | _, _, _, buf, acc, [] => .ok (acc ++ [buf])
  | i, idx, startAt, buf, acc, b :: bs =>
    match opts[idx]? with
    | none => .error .panic
    | some valueLen =>
      if (i : Int) - startAt = valueLen then
        llBytesLoop opts (i + 1) (idx + 1) (startAt + valueLen) [b] (acc ++ [buf]) bs
      else
        llBytesLoop opts (i + 1) idx startAt (buf ++ [b]) acc bs

/-- `TypedLeafListBytes.List()`. -/
def tvLLBytes (tv : TV) : Except Fail (List Bytes) := llBytesLoop tv.opts 0 0 0 [] [] tv.bytes

/-! ### NativeTypeToGnmiTypedValue -/

def mapOk {α β : Type} (f : α → β) : Except Fail α → Except Fail β
  | .ok a => .ok (f a)
  | .error e => .error e

/-- `NativeTypeToGnmiTypedValue(typedValue)`. -/
def toGnmi (tv : TV) : Except Fail GVal :=
  match tv.type with
  | .empty => .ok (.scalar .anyNil)
  | .string => .ok (.scalar (.str tv.bytes))
  | .int => .ok (.scalar (.int (tvInt tv)))
  | .uint => .ok (.scalar (.uint (tvUint tv)))
  | .bool => mapOk (fun b => .scalar (.bool b)) (tvBool tv)
  | .decimal => .ok (.scalar (.dec (tvDecimal tv).1 (tvDecimal tv).2))
  | .float =>
    match float32OfGob tv.bytes with
    | some f => .ok (.scalar (.float f))
    | none => .error .unmodelled
  | .bytes => .ok (.scalar (.bytes tv.bytes))
  | .llString => .ok (.leaflist ((tvLLString tv).map .str))
  | .llInt => mapOk (fun r => .leaflist (r.1.map .int)) (tvLLInt tv)
  | .llUint => mapOk (fun r => .leaflist (r.1.map .uint)) (tvLLUint tv)
  | .llBool => .ok (.leaflist ((tvLLBool tv).map .bool))
  | .llDecimal => mapOk (fun r => .leaflist (r.1.map fun d => .dec d r.2)) (tvLLDecimal tv)
  | .llFloat => mapOk (fun fs => .leaflist (fs.map .float)) (tvLLFloat tv)
  | .llBytes => mapOk (fun bs => .leaflist (bs.map .bytes)) (tvLLBytes tv)
  | .double => .error .unsupportedType
  | .llDouble => .error .unsupportedType
  | .other _ => .error .unsupportedType

/-- the pure round trip: what a client reads back (PROTO) for what it set. -/
def roundTrip (g : GVal) (opts : List Nat) : Except Fail GVal :=
  match toNative g opts with
  | .ok tv => toGnmi tv
  | .error e => .error e

/-- the value `PathValuesToGnmiChange` puts into the southbound `SetRequest` for a stored
    path value that is not a delete (`NativeTypeToGnmiTypedValue(&pathValue.Value)`). -/
def sentToDevice (tv : TV) : Except Fail GVal := toGnmi tv

/-- the value `createUpdate` returns for a stored path value under `Encoding_PROTO`. -/
def readProto (tv : TV) : Except Fail GVal := toGnmi tv

/-! ### strDecimal64 -/

/-- the `div` loop of `strDecimal64`: `10` multiplied `precision-1` times by 10 in int64. -/
def pow10Wrap : Nat → Int
  | 0 => 10
  | k + 1 => wrapI64 (pow10Wrap k * 10)

/-- `strDecimal64(digits, precision)`: `%d` of the quotient, `.`, the absolute remainder padded
    to `precision` digits.  The quotient of a fraction between -1 and 0 is 0: its sign is lost. -/
def strDecimal64 (digits : Int) (precision : Nat) : Except Fail (List Char) :=
  if precision = 0 then .ok (fmtInt digits)
  else
    let div := pow10Wrap (precision - 1)
    if div = 0 then .error .panic
    else
      let i := wrapI64 (Int.tdiv digits div)
      let frac := Int.tmod digits div
      let frac := if frac < 0 then wrapI64 (-frac) else frac
      .ok (fmtInt i ++ '.' :: fmtIntPad0 precision frac)

/-! ### JSON leaf rendering: handleLeafValue + encoding/json -/

/-- what `handleLeafValue` stores for a leaf, by the JSON it marshals to. -/
inductive JScalar
  | str (s : Bytes)
  | num (i : Int)
  | bool (b : Bool)
  | null
deriving DecidableEq, Repr

inductive JTok
  | scalar (s : JScalar)
  | arr (es : List JScalar)
  /-- a Go float32/float64 (or a `%f` string): its text is not modelled -/
  | floatText
deriving DecidableEq, Repr

def jsonScalarText : JScalar → Bytes
  | .str s => jsonQuote s
  | .num i => asciiBytes (fmtInt i)
  | .bool true => asciiBytes "true".toList
  | .bool false => asciiBytes "false".toList
  | .null => asciiBytes "null".toList

def commaJoin : List Bytes → Bytes
  | [] => []
  | [s] => s
  | s :: rest => s ++ 44 :: commaJoin rest

/-- the compact JSON text of a leaf token. -/
def jsonText : JTok → Option Bytes
  | .scalar s => some (jsonScalarText s)
  | .arr es => some (91 :: (commaJoin (es.map jsonScalarText) ++ [93]))
  | .floatText => none

/-- `handleLeafValue(nodemap, value, pathelems, jsonRFC7951)`: the token stored under the leaf
    name, `none` when nothing is stored (EMPTY).  `nilBytes` says that `value.Bytes` is a nil
    slice (what protobuf unmarshalling leaves for an empty `bytes` field): `encoding/json` writes
    a nil `[]byte` as `null`. -/
def jsonLeaf (rfc : Bool) (nilBytes : Bool) (tv : TV) : Except Fail (Option JTok) :=
  match tv.type with
  | .empty => .ok none
  | .string => .ok (some (.scalar (.str tv.bytes)))
  | .int =>
    if rfc && decide (tv.opts.length > 0) && isWide "INT" (tv.opts.headD 0) then
      .ok (some (.scalar (.str (asciiBytes (fmtInt (tvInt tv))))))
    else .ok (some (.scalar (.num (tvInt tv))))
  | .uint =>
    if rfc && decide (tv.opts.length > 0) && isWide "UINT" (tv.opts.headD 0) then
      .ok (some (.scalar (.str (asciiBytes (fmtNat (tvUint tv))))))
    else .ok (some (.scalar (.num (tvUint tv))))
  | .decimal =>
    if rfc then
      match strDecimal64 (tvDecimal tv).1 (tvDecimal tv).2 with
      | .ok s => .ok (some (.scalar (.str (asciiBytes s))))
      | .error e => .error e
    else
      match strDecimal64 (tvDecimal tv).1 (tvDecimal tv).2 with
      | .ok _ => .ok (some .floatText)
      | .error e => .error e
  | .float => .ok (some .floatText)
  | .bool => mapOk (fun b => some (.scalar (.bool b))) (tvBool tv)
  | .bytes =>
    if nilBytes && tv.bytes.isEmpty then .ok (some (.scalar .null))
    else .ok (some (.scalar (.str (base64 tv.bytes))))
  | .llString => .ok (some (.arr ((tvLLString tv).map .str)))
  | .llInt =>
    match tvLLInt tv with
    | .error e => .error e
    | .ok (xs, w) =>
      if rfc && isWide "LEAFLIST_INT" w then .ok (some (.arr (xs.map fun x => .str (asciiBytes (fmtInt x)))))
      else .ok (some (.arr (xs.map .num)))
  | .llUint =>
    match tvLLUint tv with
    | .error e => .error e
    | .ok (xs, w) =>
      if rfc && isWide "LEAFLIST_UINT" w then .ok (some (.arr (xs.map fun x => .str (asciiBytes (fmtNat x)))))
      else .ok (some (.arr (xs.map fun x => .num (x : Nat))))
  | .llBool => .ok (some (.arr ((tvLLBool tv).map .bool)))
  | .llDecimal => mapOk (fun _ => some .floatText) (tvLLDecimal tv)
  | .llFloat => mapOk (fun _ => some .floatText) (tvLLFloat tv)
  | .llBytes => mapOk (fun bs => some (.arr (bs.map fun b => .str (base64 b)))) (tvLLBytes tv)
  | .double => .ok (some (.scalar (.str (asciiBytes ("unexpected 15".toList)))))
  | .llDouble => .ok (some (.scalar (.str (asciiBytes ("unexpected 16".toList)))))
  | .other n => .ok (some (.scalar (.str (asciiBytes ("unexpected ".toList ++ fmtNat n)))))

/-- `json.MarshalIndent` fails (`UnsupportedValueError`) on the tree `BuildTree` made: a float
    leaf-list (`[]float32`) with an infinite or NaN member.  (A scalar float is a `%f` string
    under RFC 7951 and never fails.)  When this happens inside the proposal controller's
    validation the error is returned to the controller framework, the reconcile is retried for
    ever and the Set is never answered. -/
def docBuildFails (tv : TV) : Bool :=
  match tv.type with
  | .llFloat =>
    match tvLLFloat tv with
    | .ok fs => fs.any fun f => f32Exp f == 255
    | .error _ => false
  | _ => false

/-- the JSON token of a value a client set, in the document built with `jsonRFC7951 = true`
    (the only mode the code uses): the one the model plugin validates and the one Get returns in
    JSON encoding.  `stored`: the native value went through a store (protobuf), which leaves an
    empty `Bytes` field nil. -/
def jsonOf (g : GVal) (opts : List Nat) (stored : Bool) : Except Fail (Option JTok) :=
  match toNative g opts with
  | .ok tv => jsonLeaf true (stored && tv.bytes.isEmpty) tv
  | .error e => .error e

end OnosVerif.Value
