/- Line-protocol handlers for the value twin (I/O glue, not part of the model).

Tokens (no spaces, no commas inside a scalar):
  scalar  S:<hex> A:<hex> I:<int> U:<nat> B:0|1 Y:<hex> D:<digits>:<precision> DN F:<float32 bits> N X
  gval    <scalar> | L:<scalar>,<scalar>,…            (`L:` = no elements)
  opts    o:nil | o:- | o:<nat>,<nat>,…               (modelPath.TypeOpts; nil model path)
  tv      T:<type number>:<hex bytes>:<int>,<int>,…   (`-` = empty)
Answers: `ok …`, `none`, `float`, `err <class>`, `panic`, `unmodelled`.
-/
import OnosVerif.Base.Wire
import OnosVerif.Value.Model

namespace OnosVerif.Value
open OnosVerif.Wire

def encScalar : Scalar → String
  | .str s => "S:" ++ encBytes s
  | .ascii s => "A:" ++ encBytes s
  | .int i => "I:" ++ toString i
  | .uint n => "U:" ++ toString n
  | .bool b => if b then "B:1" else "B:0"
  | .bytes b => "Y:" ++ encBytes b
  | .dec d p => "D:" ++ toString d ++ ":" ++ toString p
  | .decNil => "DN"
  | .float f => "F:" ++ toString f
  | .anyNil => "N"
  | .other => "X"

def decScalar (tok : String) : Option Scalar :=
  match tok.splitOn ":" with
  | ["S", h] => (decBytes h).map .str
  | ["A", h] => (decBytes h).map .ascii
  | ["I", i] => (decInt i).map .int
  | ["U", n] => (decNat n).map .uint
  | ["B", "0"] => some (.bool false)
  | ["B", "1"] => some (.bool true)
  | ["Y", h] => (decBytes h).map .bytes
  | ["D", d, p] => do pure (.dec (← decInt d) (← decNat p))
  | ["DN"] => some .decNil
  | ["F", f] => (decNat f).map .float
  | ["N"] => some .anyNil
  | ["X"] => some .other
  | _ => none

def encGVal : GVal → String
  | .scalar s => encScalar s
  | .leaflist es => "L:" ++ ",".intercalate (es.map encScalar)

def decGVal (tok : String) : Option GVal :=
  if tok.startsWith "L:" then
    let body := (tok.drop 2).toString
    if body.isEmpty then some (.leaflist [])
    else (body.splitOn ",").mapM decScalar |>.map .leaflist
  else (decScalar tok).map .scalar

def decOpts (tok : String) : Option (List Nat) :=
  if tok == "o:nil" || tok == "o:-" then some []
  else if tok.startsWith "o:" then ((tok.drop 2).toString.splitOn ",").mapM decNat
  else none

def encInts (l : List Int) : String :=
  if l.isEmpty then "-" else ",".intercalate (l.map toString)

def decInts (s : String) : Option (List Int) :=
  if s == "-" then some [] else (s.splitOn ",").mapM decInt

def encTV (tv : TV) : String :=
  "T:" ++ toString tv.type.toNat ++ ":" ++ encBytes tv.bytes ++ ":" ++ encInts tv.opts

def decTV (tok : String) : Option TV :=
  match tok.splitOn ":" with
  | ["T", t, b, o] => do
    pure { type := VType.ofNat (← decNat t), bytes := (← decBytes b), opts := (← decInts o) }
  | _ => none

def encFail : Fail → String
  | .notSupported => "err notSupported"
  | .llNotSupported => "err llNotSupported"
  | .emptyLeafList => "err emptyLeafList"
  | .unsupportedType => "err unsupportedType"
  | .decimalPrecision => "err decimalPrecision"
  | .floatNaN => "err floatNaN"
  | .panic => "panic"
  | .unmodelled => "unmodelled"

def ans {α : Type} (enc : α → String) : Except Fail α → String
  | .ok a => "ok " ++ enc a
  | .error e => encFail e

def encJson : Option JTok → String
  | none => "none"
  | some t =>
    match jsonText t with
    | none => "float"
    | some bs => "ok " ++ encBytes bs

def ansJson : Except Fail (Option JTok) → String
  | .ok t => encJson t
  | .error e => encFail e

def decFlag (s : String) : Option Bool :=
  if s == "1" then some true else if s == "0" then some false else none

def pairUp : List String → Option (List (String × String))
  | [] => some []
  | a :: b :: r => (pairUp r).map fun l => (a, b) :: l
  | _ => none

def jsTxt (tv : TV) : String :=
  match jsonLeaf true tv.bytes.isEmpty tv with
  | .ok none => "none"
  | .ok (some t) => (match jsonText t with | some bs => encBytes bs | none => "float")
  | .error e => encFail e

/-- `value.e2em`: one Set of several leaves (refused as a whole at the first value the
    conversion refuses, in request order), then what is stored, what the plugin validated, and
    what one Get returns for all of them (PROTO, JSON, JSON_IETF leaf by leaf). -/
def e2em (items : List (GVal × List Nat)) : String :=
  let rec conv : List (GVal × List Nat) → Except Fail (List TV)
    | [] => .ok []
    | (g, o) :: r =>
      match toNative g o with
      | .error e => .error e
      | .ok tv => match conv r with
        | .error e => .error e
        | .ok tvs => .ok (tv :: tvs)
  match conv items with
  | .error .panic => "panic"
  | .error e => "refused " ++ ((encFail e).drop 4).toString
  | .ok tvs =>
    if tvs.any docBuildFails then "wedged" else
    let join (f : TV → String) := ";".intercalate (tvs.map f)
    let proto := join fun tv => match toGnmi tv with
      | .ok v => encGVal v
      | .error e => encFail e
    let js := join jsTxt
    "ok stored=" ++ join encTV ++ " proto=" ++ proto ++ " json=" ++ js ++ " jsonm=" ++ js ++ " plugin=" ++ js

/-- handlers for `value.*` operations; the first argument of every operation is the API
    version (`v2` / `v3`): the two Go packages are the same text, the twin is one. -/
def handle (op : String) (args : List String) : Option String :=
  match op, args with
  | "tonative", [_, g, o] => do
    pure (ans encTV (toNative (← decGVal g) (← decOpts o)))
  | "tognmi", [_, t] => do
    pure (ans encGVal (toGnmi (← decTV t)))
  | "sent", [_, t] => do
    pure (ans encGVal (sentToDevice (← decTV t)))
  | "sentof", [_, g, o] => do
    match toNative (← decGVal g) (← decOpts o) with
    | .error e => pure (encFail e)
    | .ok tv => pure (ans encGVal (sentToDevice tv))
  | "rt", [_, g, o] => do
    pure (ans encGVal (roundTrip (← decGVal g) (← decOpts o)))
  | "json", [_, rfc, nl, t] => do
    pure (ansJson (jsonLeaf (← decFlag rfc) (← decFlag nl) (← decTV t)))
  | "jsonof", [_, rfc, stored, g, o] => do
    match toNative (← decGVal g) (← decOpts o) with
    | .error e => pure (encFail e)
    | .ok tv => pure (ansJson (jsonLeaf (← decFlag rfc) ((← decFlag stored) && tv.bytes.isEmpty) tv))
  | "e2e", [g, o] => do
    -- Set through the northbound server, validation by the plugin, commit, Get (PROTO and JSON)
    match toNative (← decGVal g) (← decOpts o) with
    | .error .panic => pure "panic"
    | .error e => pure ("refused " ++ ((encFail e).drop 4).toString)
    | .ok tv =>
      if docBuildFails tv then pure "wedged" else
      let proto := match toGnmi tv with
        | .ok v => encGVal v
        | .error e => encFail e
      let js := match jsonLeaf true tv.bytes.isEmpty tv with
        | .ok none => "none"
        | .ok (some t) => (match jsonText t with | some bs => encBytes bs | none => "float")
        | .error e => encFail e
      pure ("ok stored=" ++ encTV tv ++ " proto=" ++ proto ++ " json=" ++ js ++ " plugin=" ++ js)
  | "e2em", args => do
    let ps ← pairUp args
    if ps.isEmpty then none
    let items ← ps.mapM fun (g, o) => do pure ((← decGVal g), (← decOpts o))
    pure (e2em items)
  | "strdec", [d, p] => do
    pure (ans (fun s => encBytes (asciiBytes s)) (strDecimal64 (← decInt d) (← decNat p)))
  | _, _ => none

def handleIO (op : String) (args : List String) : IO (Option String) := pure (handle op args)

end OnosVerif.Value
