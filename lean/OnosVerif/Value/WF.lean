/-
Decidable predicates for the C17 theorems: the property's quantifier ("all string / int / uint
(8..64 bit, extremes) / bool / bytes / decimal64 / float values and homogeneous leaf-lists of
them") and the extra conditions under which the code really preserves a value, plus the
independent readers (decimal digits, decimal64 lexical form, base64) the JSON theorems are
stated with.
-/
import OnosVerif.Value.Model

namespace OnosVerif.Value

/-- a supported scalar within its wire type: `IntVal` is an int64, `UintVal` a uint64,
    a decimal has int64 digits and a precision of at most 18 (YANG decimal64; a larger one is refused), a float is a
    32-bit pattern that is not a NaN. -/
def scalarOK : Scalar → Bool
  | .str _ => true
  | .ascii _ => true
  | .int i => isInt64 i
  | .uint n => isUint64 n
  | .bool _ => true
  | .bytes _ => true
  | .dec d p => isInt64 d && decide (p ≤ 18)
  | .float f => decide (f < two32) && !isNaN32 f
  | .decNil => false
  | .anyNil => false
  | .other => false

/-- what a client reads back for what it set: an `AsciiVal` comes back as the `StringVal` with
    the same text (the code has one string type). -/
def norm : Scalar → Scalar
  | .ascii s => .str s
  | s => s

def GVal.norm : GVal → GVal
  | .scalar s => .scalar (Value.norm s)
  | .leaflist es => .leaflist (es.map Value.norm)

/-- the widths the YANG integer types have. -/
def widthOK (opts : List Nat) : Bool :=
  match opts with
  | [] => true
  | w :: _ => w = 8 || w = 16 || w = 32 || w = 64

/-- the width the model gives (32 when it gives none). -/
def modelWidth (opts : List Nat) : Nat := opts.headD 32

/-! ### leaf-list preconditions -/

/-- no member of a bytes leaf-list is empty. -/
def noEmptyMember (vs : List Bytes) : Bool := vs.all fun v => !v.isEmpty

/-- no member of a string leaf-list contains the separator byte 0x1D. -/
def no1D (vs : List Bytes) : Bool := vs.all fun v => v.all fun b => b ≠ 0x1D

/-! ### homogeneous leaf-lists -/

def collectStrs : List Scalar → Option (List (Bool × Bytes))
  | [] => some []
  | .str s :: r => match collectStrs r with | some xs => some ((false, s) :: xs) | none => none
  | .ascii s :: r => match collectStrs r with | some xs => some ((true, s) :: xs) | none => none
  | _ :: _ => none

def collectInts : List Scalar → Option (List Int)
  | [] => some []
  | .int i :: r => match collectInts r with | some xs => some (i :: xs) | none => none
  | _ :: _ => none

def collectUints : List Scalar → Option (List Nat)
  | [] => some []
  | .uint i :: r => match collectUints r with | some xs => some (i :: xs) | none => none
  | _ :: _ => none

def collectBools : List Scalar → Option (List Bool)
  | [] => some []
  | .bool i :: r => match collectBools r with | some xs => some (i :: xs) | none => none
  | _ :: _ => none

def collectBytess : List Scalar → Option (List Bytes)
  | [] => some []
  | .bytes i :: r => match collectBytess r with | some xs => some (i :: xs) | none => none
  | _ :: _ => none

def collectFloats : List Scalar → Option (List Nat)
  | [] => some []
  | .float i :: r => match collectFloats r with | some xs => some (i :: xs) | none => none
  | _ :: _ => none

/-- the digits of a list of decimals that all have precision `p`. -/
def collectDecs (p : Nat) : List Scalar → Option (List Int)
  | [] => some []
  | .dec d q :: r => if q = p then (match collectDecs p r with | some xs => some (d :: xs) | none => none) else none
  | _ :: _ => none

/-- The property's domain for leaf-lists, with the two conditions the code needs: a non-empty
    list whose members are all of one type (strings may mix `StringVal` and `AsciiVal`), every
    member a supported value (`scalarOK`), decimals of one precision — and, where the encoding is
    lossy, no string member containing 0x1D and no empty bytes member. -/
def leafListOK (es : List Scalar) : Bool :=
  match es with
  | [] => false
  | .str _ :: _ | .ascii _ :: _ =>
    match collectStrs es with
    | some xs => no1D (xs.map (·.2))
    | none => false
  | .int _ :: _ =>
    match collectInts es with
    | some xs => xs.all isInt64
    | none => false
  | .uint _ :: _ =>
    match collectUints es with
    | some xs => xs.all isUint64
    | none => false
  | .bool _ :: _ => (collectBools es).isSome
  | .bytes _ :: _ =>
    match collectBytess es with
    | some xs => noEmptyMember xs && xs.all fun v => decide (v.length < 2147483648)
    | none => false
  | .dec _ p :: _ =>
    match collectDecs p es with
    | some ds => ds.all isInt64 && decide (p ≤ 18)
    | none => false
  | .float _ :: _ =>
    match collectFloats es with
    | some fs => fs.all fun f => decide (f < 4294967296) && !isNaN32 f
    | none => false
  | _ :: _ => false

/-! ### independent readers for the JSON theorems -/

/-- the natural number a string of decimal digits denotes (`none` unless every character is a
    digit and there is at least one). -/
def readNat (s : List Char) : Option Nat :=
  if s.isEmpty || !s.all Char.isDigit then none else some (Nat.ofDigitChars 10 s 0)

/-- optional `-`, then digits. -/
def readInt (s : List Char) : Option Int :=
  match s with
  | '-' :: r =>
    match readNat r with
    | some n => some (-(n : Int))
    | none => none
  | _ =>
    match readNat s with
    | some n => some (n : Int)
    | none => none

/-- the decimal64 lexical form of `digits / 10^p` (RFC 7950 §9.3.1 / RFC 7951 §6.1): optional
    sign, integer part, and for `p > 0` a dot and exactly `p` fraction digits. -/
def decimalText (digits : Int) (p : Nat) : List Char :=
  let m := digits.natAbs
  let sign : List Char := if digits < 0 then ['-'] else []
  if p = 0 then sign ++ Nat.toDigits 10 m
  else
    let f := Nat.toDigits 10 (m % 10 ^ p)
    sign ++ Nat.toDigits 10 (m / 10 ^ p) ++ '.' :: (List.replicate (p - f.length) '0' ++ f)

def b64Val (c : UInt8) : Option Nat :=
  if 65 ≤ c ∧ c ≤ 90 then some (c.toNat - 65)
  else if 97 ≤ c ∧ c ≤ 122 then some (c.toNat - 97 + 26)
  else if 48 ≤ c ∧ c ≤ 57 then some (c.toNat - 48 + 52)
  else if c = 43 then some 62
  else if c = 47 then some 63
  else none

/-- reader of padded standard base64 (RFC 4648 §4). -/
def unbase64 : Bytes → Option Bytes
  | [] => some []
  | [c0, c1, 61, 61] => do
    let s0 ← b64Val c0
    let s1 ← b64Val c1
    pure [UInt8.ofNat (s0 * 4 + s1 / 16)]
  | [c0, c1, c2, 61] => do
    let s0 ← b64Val c0
    let s1 ← b64Val c1
    let s2 ← b64Val c2
    pure [UInt8.ofNat (s0 * 4 + s1 / 16), UInt8.ofNat (s1 % 16 * 16 + s2 / 4)]
  | c0 :: c1 :: c2 :: c3 :: rest => do
    let s0 ← b64Val c0
    let s1 ← b64Val c1
    let s2 ← b64Val c2
    let s3 ← b64Val c3
    let r ← unbase64 rest
    pure (UInt8.ofNat (s0 * 4 + s1 / 16) :: UInt8.ofNat (s1 % 16 * 16 + s2 / 4) :: UInt8.ofNat (s2 % 4 * 64 + s3) :: r)
  | _ => none

end OnosVerif.Value
