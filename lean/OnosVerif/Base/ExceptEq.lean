/- Decidable equality on `Except` (panics-as-values results are compared by `decide` in the
   non-vacuity examples and negation witnesses).  Core-only. -/
namespace OnosVerif

instance instDecidableEqExcept {ε α : Type} [DecidableEq ε] [DecidableEq α] : DecidableEq (Except ε α) := fun a b =>
  match a, b with
  | .ok x, .ok y => if h : x = y then isTrue (h ▸ rfl) else isFalse (fun h' => h (Except.ok.inj h'))
  | .error x, .error y => if h : x = y then isTrue (h ▸ rfl) else isFalse (fun h' => h (Except.error.inj h'))
  | .ok _, .error _ => isFalse (fun h => by cases h)
  | .error _, .ok _ => isFalse (fun h => by cases h)

end OnosVerif
