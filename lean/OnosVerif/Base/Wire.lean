/-
Line-protocol helpers shared by every driver handler (DESIGN.md appendix B).
Strings cross the boundary hex-encoded (UTF-8 bytes); inside the model a Go string is a `List Char`.
Nothing here is part of a model: it is I/O glue for the correspondence check.
-/
namespace OnosVerif.Wire

abbrev Str := List Char

def hexDigit (n : Nat) : Char :=
  if n < 10 then Char.ofNat (48 + n) else Char.ofNat (87 + n)

def hexVal (c : Char) : Option Nat :=
  if '0' ≤ c ∧ c ≤ '9' then some (c.toNat - 48)
  else if 'a' ≤ c ∧ c ≤ 'f' then some (c.toNat - 87)
  else if 'A' ≤ c ∧ c ≤ 'F' then some (c.toNat - 55)
  else none

def bytesToHex (bs : List UInt8) : String :=
  String.ofList (bs.flatMap fun b => [hexDigit (b.toNat / 16), hexDigit (b.toNat % 16)])

def hexToBytes : List Char → Option (List UInt8)
  | [] => some []
  | [_] => none
  | a :: b :: rest => do
    let x ← hexVal a
    let y ← hexVal b
    let r ← hexToBytes rest
    pure (UInt8.ofNat (x * 16 + y) :: r)

/-- hex of the UTF-8 bytes of a model string; the empty string is written `-`. -/
def encStr (s : Str) : String :=
  if s.isEmpty then "-" else bytesToHex (String.ofList s).toUTF8.toList

def decStr (h : String) : Option Str :=
  if h == "-" then some [] else do
    let bs ← hexToBytes h.toList
    let s ← String.fromUTF8? (ByteArray.mk bs.toArray)
    pure s.toList

def encBytes (bs : List UInt8) : String :=
  if bs.isEmpty then "-" else bytesToHex bs

def decBytes (h : String) : Option (List UInt8) :=
  if h == "-" then some [] else hexToBytes h.toList

def splitOnChar (c : Char) (s : String) : List String :=
  s.splitOn (String.singleton c)

def decNat (s : String) : Option Nat := s.toNat?

def decInt (s : String) : Option Int := s.toInt?

end OnosVerif.Wire
