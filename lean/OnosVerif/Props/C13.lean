/-
C13 — a refused Set changes nothing; targets and paths resolve as documented.

Property theorems only (helper lemmas: OnosVerif/Proofs/NB.lean; twin: OnosVerif/NB/Model.lean;
specification-side definitions: OnosVerif/NB/Spec.lean).  The twin mirrors `Set` of
pkg/northbound/gnmi/v2/set.go up to `transactions.Create` and is tied to the real handler by
`harness/props/c13`; the constants, guards, loop order and call order it uses are regenerated
from the Go sources on every run (OnosVerif/Generated/Facts.lean).

Quantifier: all Set requests (any mix of valid and invalid operations, with or without prefix
target / prefix elements, any extensions), any environment (topology, registered plugins with any
read-write table), any GNMI_SET_SIZE_LIMIT, and — where they enter — any value conversion and any
plugin `GetPathValues` (`abs : Abs`).
-/
import OnosVerif.Proofs.NB
import OnosVerif.Proofs.Path

namespace OnosVerif.Props.C13
open OnosVerif OnosVerif.Path OnosVerif.NB

/-! ## a refused Set changes nothing -/

/-- A Set that is refused (or crashes) before the transaction is created leaves the server state
    as it was: the transaction log and the set of configurations are unchanged. -/
theorem C13_refused_no_effect (abs : Abs) (st : NBState) (req : SetReq) (f : Fail)
    (h : (handleSet abs st req).1 = .failed f) : (handleSet abs st req).2 = st := by
  unfold handleSet at h ⊢
  split
  · rfl
  · rename_i tx hs
    rw [hs] at h
    cases h

/-- The log grows by exactly the transaction `setPre` produced, and only when it produced one. -/
theorem C13_log_grows_iff_accepted (abs : Abs) (st : NBState) (req : SetReq) :
    (∃ tx, setPre abs st.env req = .ok tx ∧ (handleSet abs st req).2.log.length = st.log.length + 1) ∨
    (∃ f, setPre abs st.env req = .error f ∧ (handleSet abs st req).2.log = st.log) := by
  unfold handleSet
  cases h : setPre abs st.env req with
  | ok tx => exact Or.inl ⟨tx, rfl, by simp⟩
  | error f => exact Or.inr ⟨f, rfl, rfl⟩

/-- Translator fact (the tie of `C13_refused_no_effect` to the code): in `Set`, the first call that
    writes to a store is `s.transactions.Create`, and every occurrence of every validating call
    (extension parsing, getTargetInfo, doDelete, doUpdateOrReplace, newTransaction) precedes it. -/
theorem C13_validation_precedes_create :
    validationBefore "s.transactions.Create" Generated.setCalls = true := by
  set_option maxRecDepth 1000000 in decide

/-- Translator fact: the two checks `Set` does inline — no operations, and the whole
    GNMI_SET_SIZE_LIMIT block — also end before `transactions.Create` is called. -/
theorem C13_inline_guards_precede_create : Generated.setInlineGuardsBeforeCreate = true := by decide

/-- Translator fact (the tie of `C13_refuses_unknown_target` to the code): `getTargetInfo` looks the
    target up in the topology as a statement of its own body, before it consults the overrides
    extension — no override can stand in for a target the topology does not know. -/
theorem C13_topo_lookup_dominates_overrides : Generated.setTopoLookupDominatesOverrides = true := by decide

/-- Translator fact: none of the helpers `Set` runs before the transaction exists calls a store at all. -/
theorem C13_helpers_do_not_touch_stores :
    (Generated.setHelperCalls.all fun h => h.2.all fun c => !isStoreCall c) = true := by
  set_option maxRecDepth 1000000 in decide

/-- Translator fact: the regular expressions of path.go are the ones the twin's hand-written
    matchers implement (`MatchOnIndex` literally; the two character classes are parsed from the source). -/
theorem C13_regexes_supported :
    Generated.matchOnIndex = supportedMatchOnIndex ∧ indexAllowedClass.isSome = true ∧ validPathClass.isSome = true := by
  decide

/-! ## each listed cause is refused -/

/-- No operations: refused with InvalidArgument, whatever else the request holds. -/
theorem C13_refuses_no_ops (abs : Abs) (env : Env) (req : SetReq)
    (hd : req.delete = []) (hr : req.replace = []) (hu : req.update = []) :
    ∃ c, setPre abs env req = .error (.refused .invalidArgument c) := by
  unfold setPre
  cases findOverrides req.exts with
  | none => exact ⟨_, rfl⟩
  | some ov =>
    cases findStrategy req.exts with
    | none => exact ⟨_, rfl⟩
    | some s =>
      refine ⟨.noOps, ?_⟩
      simp [hd, hr, hu, Generated.setEmptyGuard]

/-- A malformed extension (the first registered extension with id 112 or 111 does not decode):
    refused with InvalidArgument. -/
theorem C13_refuses_malformed_extension (abs : Abs) (env : Env) (req : SetReq)
    (h : findOverrides req.exts = none ∨ findStrategy req.exts = none) :
    ∃ c, setPre abs env req = .error (.refused .invalidArgument c) := by
  unfold setPre
  cases ho : findOverrides req.exts with
  | none => exact ⟨_, rfl⟩
  | some ov =>
    cases hs : findStrategy req.exts with
    | none => exact ⟨_, rfl⟩
    | some s => rcases h with h | h <;> simp_all

/-- Unknown target: if any operation's effective target is not a topology entity carrying the
    Configurable aspect, the request is not accepted (in any position, among any other operations). -/
theorem C13_refuses_unknown_target (abs : Abs) (env : Env) (req : SetReq) (op : Op) (hop : op ∈ opsOf req)
    (h : ∀ cfg, mapGet (effTarget req.pfx (opTarget op)) env.topo ≠ some (some cfg)) :
    ∀ tx, setPre abs env req ≠ .ok tx := by
  intro tx hok
  obtain ⟨ov0, acc⟩ := setPre_accepted abs env req tx hok
  obtain ⟨pl, hpl, _⟩ := acc.ops op hop
  obtain ⟨cfg, hc, _⟩ := pluginFor_some env ov0 _ pl hpl
  exact h cfg hc

/-- Unknown model: if for some operation's target no plugin is registered under the model the
    target resolves to (the request's override for it, else its aspect), the request is not accepted. -/
theorem C13_refuses_unknown_model (abs : Abs) (env : Env) (req : SetReq) (ov0 : OvMap) (op : Op)
    (hov : findOverrides req.exts = some ov0) (hop : op ∈ opsOf req)
    (h : pluginFor env ov0 (effTarget req.pfx (opTarget op)) = none) :
    ∀ tx, setPre abs env req ≠ .ok tx := by
  intro tx hok
  obtain ⟨ov1, acc⟩ := setPre_accepted abs env req tx hok
  have : ov1 = ov0 := by
    have := acc.hov
    rw [hov] at this
    exact (Option.some.inj this).symm
  subst this
  obtain ⟨pl, hpl, _⟩ := acc.ops op hop
  rw [h] at hpl
  cases hpl

/-- Not a writable model path: a (non-JSON) update or replace whose effective path, index values
    wildcarded, is not a key of the read-write table of its target's plugin makes the request
    unacceptable. -/
theorem C13_refuses_non_writable_update (abs : Abs) (env : Env) (req : SetReq) (ov0 : OvMap) (u : Update) (pl : Plugin)
    (hov : findOverrides req.exts = some ov0) (hop : Op.upd u ∈ opsOf req) (hj : u.isJson = false)
    (hpl : pluginFor env ov0 (effTarget req.pfx (opTarget (.upd u))) = some pl)
    (h : mapGet (anonymizePathIndices (effPath req.pfx u.path)) pl.rw = none) :
    ∀ tx, setPre abs env req ≠ .ok tx := by
  intro tx hok
  obtain ⟨ov1, acc⟩ := setPre_accepted abs env req tx hok
  have : ov1 = ov0 := by
    have := acc.hov
    rw [hov] at this
    exact (Option.some.inj this).symm
  subst this
  obtain ⟨pl', hpl', hpass⟩ := acc.ops _ hop
  rw [hpl] at hpl'
  cases hpl'
  simp only [opPasses] at hpass
  split at hpass
  · rename_i es he
    obtain ⟨rw, _, hg, _⟩ := updEntries_nonjson abs pl req.pfx u es hj he
    rw [h] at hg
    cases hg
  · simp at hpass

/-- A delete is accepted only through `FindPathFromModel(path, …, exact=false)`: its effective path
    is a model path (indices wildcarded), or — the non-exact lookup — the index-stripped text of some
    model path has the delete's search text as a textual prefix.  (That this second branch admits
    paths that name no node of the model is `C13_delete_lookup_textual`.) -/
theorem C13_delete_needs_lookup (abs : Abs) (env : Env) (req : SetReq) (tx : TxRecord) (p : PathMsg)
    (hok : setPre abs env req = .ok tx) (hop : Op.del p ∈ opsOf req) :
    ∃ ov0 pl, pluginFor env ov0 (effTarget req.pfx p.target) = some pl ∧
      ((∃ e, mapGet (anonymizePathIndices (effPath req.pfx (some p))) pl.rw = some e) ∨
       (∃ search kv, searchText (effPath req.pfx (some p)) = .ok search ∧ kv ∈ pl.rw ∧
          hasPrefix (removePathIndices kv.1) search = true)) := by
  obtain ⟨ov0, acc⟩ := setPre_accepted abs env req tx hok
  obtain ⟨pl, hpl, hpass⟩ := acc.ops _ hop
  refine ⟨ov0, pl, hpl, ?_⟩
  simp only [opPasses] at hpass
  split at hpass
  · rename_i x hd
    obtain ⟨b, e, hf, _⟩ := delPath_ok pl req.pfx p x hd
    rcases findNonExact_ok _ _ _ _ hf with ⟨_, h1⟩ | ⟨_, _, search, kv, h1, h2, h3⟩
    · exact Or.inl ⟨e, h1⟩
    · exact Or.inr ⟨search, kv, h1, h2, h3⟩
  · simp at hpass

/-- Key/value contradiction: an accepted update of a key leaf carries the value of the key of its
    own list entry — the *last* index of its path named like the leaf (no later index has that
    name; an enclosing list's same-named key does not count) — or the path has no index at all. -/
theorem C13_refuses_key_contradiction (abs : Abs) (env : Env) (req : SetReq) (tx : TxRecord) (u : Update)
    (hok : setPre abs env req = .ok tx) (hop : Op.upd u ∈ opsOf req) (hj : u.isJson = false) :
    ∃ ov0 pl rw tv, pluginFor env ov0 (effTarget req.pfx (opTarget (.upd u))) = some pl ∧
      mapGet (anonymizePathIndices (effPath req.pfx u.path)) pl.rw = some rw ∧ abs.conv u.val rw = .ok tv ∧
      (rw.isAKey = true → ∃ ns vs, extractIndexNames (effPath req.pfx u.path) = .ok (ns, vs) ∧
        (ns = [] ∨ ∃ k : Nat, ns[k]? = some rw.attrName ∧ vs[k]? = some tv.repr ∧
          ∀ j : Nat, ns[j]? = some rw.attrName → j ≤ k)) := by
  obtain ⟨ov0, acc⟩ := setPre_accepted abs env req tx hok
  obtain ⟨pl, hpl, hpass⟩ := acc.ops _ hop
  simp only [opPasses] at hpass
  split at hpass
  · rename_i es he
    obtain ⟨rw, tv, hg, hc, hck, _⟩ := updEntries_nonjson abs pl req.pfx u es hj he
    refine ⟨ov0, pl, rw, tv, hpl, hg, hc, fun hk => ?_⟩
    obtain ⟨ns, vs, hx, h1 | ⟨k, hown, hv⟩⟩ := checkKeyValue_ok _ rw tv.repr hk hck
    · exact ⟨ns, vs, hx, Or.inl h1⟩
    · refine ⟨ns, vs, hx, Or.inr ⟨k, ?_, hv, ?_⟩⟩
      · rcases ownIdx_spec rw.attrName ns 0 none k hown with h2 | ⟨k', hk', hc'⟩
        · cases h2
        · have : k' = k := by omega
          subst this; exact hc'
      · intro j hj'
        have := ownIdx_last rw.attrName ns 0 none k hown j hj'
        omega
  · simp at hpass

/-- Size limit, for any limit value: under a positive limit an accepted request changes exactly
    one target, has at most `limit` operations, and its stored change has at most `limit` entries. -/
theorem C13_limit_bounds_transaction (abs : Abs) (env : Env) (req : SetReq) (tx : TxRecord)
    (hok : setPre abs env req = .ok tx) (hl : env.limit > 0) :
    tx.changes.length = 1 ∧ (req.nOps : Int) ≤ env.limit ∧ ∀ tc ∈ tx.changes, (tc.2.length : Int) ≤ env.limit := by
  obtain ⟨_, acc⟩ := setPre_accepted abs env req tx hok
  exact acc.limit hl

/-- Size limit: a request with more operations than a positive limit is refused, whatever the
    operations are (repeated paths included). -/
theorem C13_refuses_over_limit (abs : Abs) (env : Env) (req : SetReq)
    (hl : env.limit > 0) (hn : (req.nOps : Int) > env.limit) : ∀ tx, setPre abs env req ≠ .ok tx := by
  intro tx hok
  obtain ⟨_, acc⟩ := setPre_accepted abs env req tx hok
  have := (acc.limit hl).2.1
  omega

/-- Size limit: a request naming two different effective targets is refused under any positive limit. -/
theorem C13_refuses_two_targets_under_limit (abs : Abs) (env : Env) (req : SetReq) (o1 o2 : Op)
    (h1 : o1 ∈ opsOf req) (h2 : o2 ∈ opsOf req)
    (hne : effTarget req.pfx (opTarget o1) ≠ effTarget req.pfx (opTarget o2)) (hl : env.limit > 0) :
    ∀ tx, setPre abs env req ≠ .ok tx := by
  intro tx hok
  obtain ⟨_, acc⟩ := setPre_accepted abs env req tx hok
  obtain ⟨hlen, _⟩ := acc.limit hl
  have m1 := (acc.targets _).mpr ⟨o1, h1, rfl⟩
  have m2 := (acc.targets _).mpr ⟨o2, h2, rfl⟩
  have hk : (keys tx.changes).length = 1 := by simp [keys, hlen]
  match hkk : keys tx.changes, hk with
  | [a], _ =>
    rw [hkk] at m1 m2
    simp only [List.mem_singleton] at m1 m2
    exact hne (m1.trans m2.symm)

/-! ## targets and paths of accepted requests -/

/-- The prefix target wins: if the prefix names a target, every change of the transaction is for
    that target, whatever targets the operations' own paths name.  (Depends on the translator fact
    `setPrefixTargetWins`, read from `getTargetInfo`.) -/
theorem C13_prefix_target_wins (abs : Abs) (env : Env) (req : SetReq) (tx : TxRecord)
    (hok : setPre abs env req = .ok tx) (hp : prefixTarget req.pfx ≠ []) :
    ∀ tc ∈ tx.changes, tc.1 = prefixTarget req.pfx := by
  obtain ⟨_, acc⟩ := setPre_accepted abs env req tx hok
  rintro ⟨t, ch⟩ hm
  have : t ∈ keys tx.changes := List.mem_map.mpr ⟨(t, ch), hm, rfl⟩
  obtain ⟨op, _, ht⟩ := (acc.targets t).mp this
  rw [ht]
  unfold effTarget
  have hw : Generated.setPrefixTargetWins = true := by decide
  have hlen : (prefixTarget req.pfx).length > 0 := by
    cases hpt : prefixTarget req.pfx with
    | nil => exact absurd hpt hp
    | cons _ _ => simp
  simp [hw, hlen]

/-- Without a prefix target every operation is applied to the target of its own path. -/
theorem C13_path_target_without_prefix (pfx : Option PathMsg) (t : Str) (hp : prefixTarget pfx = []) :
    effTarget pfx t = t := by
  unfold effTarget
  simp [hp]

/-- The changed targets are exactly the effective targets of the operations. -/
theorem C13_targets_exactly (abs : Abs) (env : Env) (req : SetReq) (tx : TxRecord)
    (hok : setPre abs env req = .ok tx) (t : Str) :
    t ∈ keys tx.changes ↔ ∃ op ∈ opsOf req, t = effTarget req.pfx (opTarget op) := by
  obtain ⟨_, acc⟩ := setPre_accepted abs env req tx hok
  exact acc.targets t

/-- Effective path: prefix followed by path; a prefix that prints as `/` (absent, or without
    elements) contributes nothing. -/
theorem C13_effective_path_def (pfx p : Option PathMsg) :
    (strPathMsg pfx = ['/'] → effPath pfx p = strPathMsg p) ∧
    (strPathMsg pfx ≠ ['/'] → effPath pfx p = strPathMsg pfx ++ strPathMsg p) := by
  unfold effPath
  constructor <;> intro h <;> simp [h]

/-- …and on structured paths the text of prefix-then-path is the text of the concatenated
    element lists (so `prefix /a/b` + `path c` and `prefix /a` + `path b/c` are the same place),
    provided the prefix's first element has a name (a lone unnamed element prints as `/` and is dropped). -/
theorem C13_effective_path_structured (t1 t2 : Str) (a : Elem) (r1 e2 : GPath) (ha : a.name ≠ []) (h2 : e2 ≠ []) :
    effPath (some ⟨t1, a :: r1, []⟩) (some ⟨t2, e2, []⟩) = strPathElem (a :: r1 ++ e2) := by
  have s1 : strPathMsg (some ⟨t1, a :: r1, []⟩) = strPathElem (a :: r1) := by simp [strPathMsg]
  have s2 : strPathMsg (some ⟨t2, e2, []⟩) = strPathElem e2 := by
    cases e2 with
    | nil => exact absurd rfl h2
    | cons _ _ => simp [strPathMsg]
  have hne : strPathElem (a :: r1) ≠ ['/'] := by
    simp only [strPathElem, List.flatMap_cons, strElem, List.cons_append]
    intro hc
    have hnil := (List.cons.inj hc).2
    have hn : writeSafe '/' a.name = [] := by
      have := List.append_eq_nil_iff.mp hnil
      exact (List.append_eq_nil_iff.mp this.1).1
    exact writeSafe_length_pos '/' a.name ha hn
  unfold effPath
  rw [s1, s2]
  simp only [hne, if_false]
  simp [strPathElem, List.flatMap_append]

/-- Lands exactly: the (target, path) pairs of the stored change are exactly the paths of the
    request's operations, each on the effective target of its operation and computed against the
    plugin that target resolves to — nothing else is written, nothing is left out. -/
theorem C13_lands_exactly (abs : Abs) (env : Env) (req : SetReq) (tx : TxRecord)
    (hok : setPre abs env req = .ok tx) :
    ∃ ov0, findOverrides req.exts = some ov0 ∧ ∀ t p, (t, p) ∈ tx.pairs ↔
      ∃ op ∈ opsOf req, ∃ pl, pluginFor env ov0 t = some pl ∧ t = effTarget req.pfx (opTarget op) ∧
        p ∈ opPaths abs pl req.pfx op := by
  obtain ⟨ov0, acc⟩ := setPre_accepted abs env req tx hok
  exact ⟨ov0, acc.hov, acc.pairs⟩

/-- Every plain (non-JSON) update or replace of an accepted request is in the stored change, on
    its effective target, at exactly prefix+path. -/
theorem C13_update_lands_on_effective_path (abs : Abs) (env : Env) (req : SetReq) (tx : TxRecord) (u : Update)
    (hok : setPre abs env req = .ok tx) (hop : Op.upd u ∈ opsOf req) (hj : u.isJson = false) :
    (effTarget req.pfx (opTarget (.upd u)), effPath req.pfx u.path) ∈ tx.pairs := by
  obtain ⟨ov0, acc⟩ := setPre_accepted abs env req tx hok
  obtain ⟨pl, hpl, hpass⟩ := acc.ops _ hop
  apply (acc.pairs _ _).mpr
  refine ⟨_, hop, pl, hpl, rfl, ?_⟩
  simp only [opPasses] at hpass
  split at hpass
  · rename_i es he
    obtain ⟨_, tv, _, _, _, hes⟩ := updEntries_nonjson abs pl req.pfx u es hj he
    simp [opPaths, he, hes]
  · simp at hpass

/-- Every delete of an accepted request is in the stored change, on its effective target, at
    prefix+path or (key leaf of a list entry) at the entry. -/
theorem C13_delete_lands (abs : Abs) (env : Env) (req : SetReq) (tx : TxRecord) (d : PathMsg)
    (hok : setPre abs env req = .ok tx) (hop : Op.del d ∈ opsOf req) :
    ∃ p, (effTarget req.pfx d.target, p) ∈ tx.pairs ∧ landsAsNamed req.pfx (.del d) p = true := by
  obtain ⟨ov0, acc⟩ := setPre_accepted abs env req tx hok
  obtain ⟨pl, hpl, hpass⟩ := acc.ops _ hop
  simp only [opPasses] at hpass
  split at hpass
  · rename_i x hd
    have hx : x ∈ opPaths abs pl req.pfx (.del d) := by simp [opPaths, hd]
    refine ⟨x, (acc.pairs _ _).mpr ⟨_, hop, pl, hpl, rfl, hx⟩, ?_⟩
    exact opPaths_landsAsNamed abs pl req.pfx _ x (by intro u hu; cases hu) hx
  · simp at hpass

/-- Effective path (the part that holds): in an accepted request without JSON-valued updates,
    every stored (target, path) is the effective target of one of the operations and is where that
    operation says it goes (`landsAsNamed`).  The full statement — JSON-valued updates included —
    is false of code and twin alike: `C13_effective_path_full_fails`. -/
theorem C13_effective_path_partial (abs : Abs) (env : Env) (req : SetReq) (tx : TxRecord)
    (hok : setPre abs env req = .ok tx) (hnj : noJson req = true) :
    ∀ tp ∈ tx.pairs, ∃ op ∈ opsOf req, tp.1 = effTarget req.pfx (opTarget op) ∧ landsAsNamed req.pfx op tp.2 = true := by
  obtain ⟨ov0, acc⟩ := setPre_accepted abs env req tx hok
  rintro ⟨t, p⟩ hm
  obtain ⟨op, hop, pl, _, ht, hp⟩ := (acc.pairs t p).mp hm
  refine ⟨op, hop, ht, opPaths_landsAsNamed abs pl req.pfx op p ?_ hp⟩
  intro u hu
  subst hu
  have := mem_opsOf_upd req u hop
  simp only [noJson, List.all_eq_true, Bool.not_eq_true'] at hnj
  exact hnj u this

/-- Every path of a logged change matches `validPathRegexp` (or is empty) and parses back into
    gNMI elements: `computeChange` returns the error of `NewChangeValue` instead of storing a nil
    value, and refuses a path the response could not be built from. -/
theorem C13_logged_paths_valid (abs : Abs) (env : Env) (req : SetReq) (tx : TxRecord)
    (hok : setPre abs env req = .ok tx) :
    ∀ tp ∈ tx.pairs, isPathValid tp.2 = .ok true ∧ ∃ g, parsePath tp.2 = .ok g := by
  obtain ⟨_, acc⟩ := setPre_accepted abs env req tx hok
  exact acc.valid

/-- A logged Set can always be answered: the SetResponse (one parsed path per change) can be
    built for every accepted request, so no client sees an error for a change that was made. -/
theorem C13_answer_can_be_built (abs : Abs) (env : Env) (req : SetReq) (tx : TxRecord)
    (hok : setPre abs env req = .ok tx) : respondOK tx = true := by
  obtain ⟨_, acc⟩ := setPre_accepted abs env req tx hok
  unfold respondOK
  rw [List.all_eq_true]
  intro tp htp
  obtain ⟨_, g, hg⟩ := acc.valid tp htp
  simp [hg]

/-! ## witnesses: where the full statements fail, and non-vacuity -/

def wRW : List (Str × RWPath) :=
  [("/foo".toList, ⟨false, "foo".toList⟩), ("/c/xy".toList, ⟨false, "xy".toList⟩),
   ("/l[k=*]/k".toList, ⟨true, "k".toList⟩), ("/l[k=*]/v".toList, ⟨false, "v".toList⟩),
   ("/l[k=*]/n[k=*]/k".toList, ⟨true, "k".toList⟩)]

def wPlugin : Plugin := ⟨"m1".toList, "1".toList, wRW⟩

def wEnv (limit : Int) : Env :=
  ⟨limit, [("t1".toList, some ⟨"m1".toList, "1".toList, false⟩), ("t2".toList, some ⟨"m1".toList, "1".toList, false⟩),
           ("tna".toList, none)],
   [(("m1".toList, "1".toList), wPlugin)]⟩

def el (n : String) (ks : List (String × String)) : Elem := ⟨n.toList, ks.map fun kv => (kv.1.toList, kv.2.toList)⟩

def pm (t : String) (es : GPath) : PathMsg := ⟨t.toList, es, []⟩

/-- accepted?, and the (target, path) pairs as strings -/
def outcome (env : Env) (req : SetReq) : Option (List (Str × Str)) :=
  match setPre concreteAbs env req with
  | .ok tx => some tx.pairs
  | .error _ => none

def strs (l : List (String × String)) : List (Str × Str) := l.map fun p => (p.1.toList, p.2.toList)

def refusal (env : Env) (req : SetReq) : Option Fail :=
  match setPre concreteAbs env req with
  | .ok _ => none
  | .error f => some f

/-- a mixed request: prefix target t1 and prefix element `l[k=1]`; the operations name t2 and nothing -/
def wGood : SetReq :=
  { pfx := some (pm "t1" [el "l" [("k", "1")]]),
    delete := [pm "" [el "n" [("k", "2")], el "k" []]],
    replace := [],
    update := [⟨some (pm "t2" [el "v" []]), some (.str "x".toList)⟩, ⟨some (pm "" [el "k" []]), some (.uint 1)⟩],
    exts := [] }


/-! non-vacuity: a concrete mixed request is accepted, the prefix target wins over the paths'
    targets, the effective paths are prefix+path, the key-leaf delete lands on its entry -/

set_option maxRecDepth 1000000 in
example : outcome (wEnv 0) wGood =
    some (strs [("t1", "/l[k=1]/v"), ("t1", "/l[k=1]/k"), ("t1", "/l[k=1]/n[k=2]")]) := by decide

set_option maxRecDepth 1000000 in
example : prefixTarget wGood.pfx ≠ [] ∧ noJson wGood = true ∧ (wEnv 3).limit > 0 := by decide

/-! non-vacuity of the refusal classes: one request per cause, the invalid operation sitting
    between two valid ones -/

def okUpd : Update := ⟨some (pm "t1" [el "foo" []]), some (.str "a".toList)⟩
def okUpd2 : Update := ⟨some (pm "t1" [el "l" [("k", "7")], el "v" []]), some (.int (-3))⟩

def mixed (bad : Update) (exts : List Ext := []) : SetReq := ⟨none, [], [], [okUpd, bad, okUpd2], exts⟩

set_option maxRecDepth 1000000 in
example : refusal (wEnv 0) (mixed ⟨some (pm "tx" [el "foo" []]), some (.str "a".toList)⟩) =
    some (.refused .notFound .topoNotFound) := by decide

set_option maxRecDepth 1000000 in
example : refusal (wEnv 0) (mixed ⟨some (pm "tna" [el "foo" []]), some (.str "a".toList)⟩) =
    some (.refused .internal .noAspect) := by decide

set_option maxRecDepth 1000000 in
example : refusal (wEnv 0) (mixed okUpd [.registered 112 none (some [("t1".toList, some ⟨"nomodel".toList, "9".toList⟩)])]) =
    some (.refused .notFound .noPlugin) := by decide

set_option maxRecDepth 1000000 in
example : refusal (wEnv 0) (mixed ⟨some (pm "t1" [el "zz" []]), some (.str "a".toList)⟩) =
    some (.refused .internal .noExactPath) := by decide

set_option maxRecDepth 1000000 in
example : refusal (wEnv 0) (mixed ⟨some (pm "t1" [el "l" [("k", "1")], el "k" []]), some (.str "2".toList)⟩) =
    some (.refused .invalidArgument .keyMismatch) := by decide

set_option maxRecDepth 1000000 in
example : refusal (wEnv 0) (mixed okUpd [.other, .registered 111 none (some [])]) =
    some (.refused .invalidArgument .badStrategy) := by decide

set_option maxRecDepth 1000000 in
example : refusal (wEnv 0) ⟨some (pm "t1" []), [], [], [], [.registered 111 (some ⟨1, 0⟩) none]⟩ =
    some (.refused .invalidArgument .noOps) := by decide

set_option maxRecDepth 1000000 in
example : refusal (wEnv 1) (mixed ⟨some (pm "t2" [el "foo" []]), some (.str "a".toList)⟩) =
    some (.refused .invalidArgument .tooManyTargets) := by decide

set_option maxRecDepth 1000000 in
example : refusal (wEnv 2) (mixed ⟨some (pm "t1" [el "c" [], el "xy" []]), some (.bool true)⟩) =
    some (.refused .invalidArgument .tooManyOps) := by decide

set_option maxRecDepth 1000000 in
example : refusal (wEnv 0) ⟨none, [pm "t1" [el "l" [("k", "*")], el "v" []]], [], [], []⟩ =
    some (.refused .invalidArgument .invalidPath) := by decide

/-! negation witnesses of the full statements (each replayed on the real code: corpus/C13/kf-*.script) -/

/-- `update /c = {"/xy": "jv"}` (JSON) on t1 -/
def wJson : SetReq :=
  ⟨none, [], [], [⟨some (pm "t1" [el "c" []]), some (.json (.flat [("/xy".toList, "jv".toList)]))⟩], []⟩

/-- The full effective-path statement fails for JSON-valued updates: the member `/xy` of the
    update of `/c` is stored at `/xy`, which is not below `/c` — only the prefix path reaches the
    plugin (known finding KF-C13-json-prefix-only). -/
theorem C13_effective_path_full_fails :
    (match setPre concreteAbs (wEnv 0) wJson with
     | .ok tx => tx.pairs.any fun tp => (opsOf wJson).all fun op =>
         !(tp.1 == effTarget wJson.pfx (opTarget op) && landsAsNamed wJson.pfx op tp.2)
     | .error _ => false) = true := by
  set_option maxRecDepth 1000000 in decide

/-- `delete /fo` on t1 -/
def wDelFo : SetReq := ⟨none, [pm "t1" [el "fo" []]], [], [], []⟩

/-- The full statement "a delete that names no node of the model is refused" fails: `/fo` is
    accepted and logged because it is a *textual* prefix of the model path `/foo`
    (known finding KF-C13-delete-lookup). -/
theorem C13_delete_lookup_textual :
    outcome (wEnv 0) wDelFo = some (strs [("t1", "/fo")]) ∧
    (wRW.all fun kv => !elementBoundaryPrefix "/fo".toList (removePathIndices kv.1)) = true := by
  set_option maxRecDepth 1000000 in decide

/-! regressions of repaired defects (corpus/C13/fixed-*.script): now refused -/

/-- `update /l[k=1]/n[k=2]/k = "1"` on t1: contradicts the key of its own entry (2) -/
def wAncestor : SetReq :=
  ⟨none, [], [], [⟨some (pm "t1" [el "l" [("k", "1")], el "n" [("k", "2")], el "k" []]), some (.str "1".toList)⟩], []⟩

set_option maxRecDepth 1000000 in
example : refusal (wEnv 0) wAncestor = some (.refused .invalidArgument .keyMismatch) := by decide

set_option maxRecDepth 1000000 in
example : outcome (wEnv 0)
    ⟨none, [], [], [⟨some (pm "t1" [el "l" [("k", "1")], el "n" [("k", "2")], el "k" []]), some (.str "2".toList)⟩], []⟩ =
    some (strs [("t1", "/l[k=1]/n[k=2]/k")]) := by decide

/-- three updates of `/foo` on t1 under a limit of 2 -/
def wRepeat : SetReq :=
  ⟨none, [], [], [okUpd, ⟨okUpd.path, some (.str "b".toList)⟩, ⟨okUpd.path, some (.str "c".toList)⟩], []⟩

set_option maxRecDepth 1000000 in
example : wRepeat.nOps = 3 ∧ refusal (wEnv 2) wRepeat = some (.refused .invalidArgument .tooManyOps) := by decide

/-! delete of an element named `foo[x]`: passes the non-exact lookup, cannot be parsed back -/

set_option maxRecDepth 1000000 in
example : refusal (wEnv 0) ⟨none, [pm "t1" [el "foo[x]" []]], [], [], []⟩ =
    some (.refused .invalidArgument .invalidPath) := by decide

end OnosVerif.Props.C13
