/-
C03G — the read side of C03: the gNMI Get handler returns exactly the stored live leaves the
request selects.

Property theorems only (helper lemmas in OnosVerif/Proofs/NBGet.lean).  The twin
(OnosVerif/NBGet/Model.lean) mirrors `processRequest` / `getUpdate` / `createUpdate` and
`MatchWildcardRegexp` run as a matcher; it is tied to the real Get handler by the correspondence
stream `harness/props/c03g` (real Set handler and controllers populate the stores, real Get
answers), whose monitor is an independent element-by-element gNMI reference.

Two layers.  (1) What `createUpdate` does with the values `getUpdate` selected: proved for every
store content, prefix, path and encoding, with the hypotheses the code needs made explicit.
(2) What the selection itself is: a regular expression over the path TEXT, anchored at the start
only.  It is complete for wildcard-free queries (everything beneath the addressed node is
selected) but neither sound (textual prefix) nor complete for wildcards (`...` for zero
elements, omitted keys, `*` against a list element): negation witnesses, listed findings
KF-C03G-*.
-/
import OnosVerif.Proofs.NBGet

namespace OnosVerif.Props.C03G
open OnosVerif.NBGet OnosVerif.Path

/-- The guard of the PROTO branch of `createUpdate`, regenerated from the Go source on every run,
    is `len(prefixPath) > len(cv.Path)` (the twin is driven by this fact). -/
theorem C03G_fact_protoSkipGuard :
    Generated.protoSkipGuard = ("cmp>", "len(prefixPath)", "len(cv.Path)") := fact_protoSkipGuard

/-- PROTO, the part that holds (C03_get_returns_selected): every stored value that is live and
    selected by the query appears in the response with its value and its (absolute) path —
    PROVIDED its path text is not shorter than the text of the request prefix (the guard), and
    every selected value's text parses back with `strings.Split(…, "/")` (one failure fails the
    whole request). -/
theorem C03_get_returns_selected_partial (pfx : Option PathMsg) (path : Option GPath) (vals : List Stored)
    (hparse : ∀ t ∈ selected (queryOf pfx path) vals, ∃ p, reparse t.path = .ok p)
    (s : Stored) (hs : s ∈ vals) (hlive : s.deleted = false)
    (hsel : wmatch (queryOf pfx path) s.path = true)
    (hlen : ¬((prefixPathOf pfx).length > s.path.length))
    (p : GPath) (hp : reparse s.path = .ok p) :
    ∃ us, notification pfx path vals .proto = .ok us ∧ Upd.value p s.value ∈ us := by
  have hmem : s ∈ selected (queryOf pfx path) vals := (mem_selected _ _ _).mpr ⟨hs, hsel, hlive⟩
  have hne : (selected (queryOf pfx path) vals).isEmpty = false := by
    cases h : selected (queryOf pfx path) vals with
    | nil => rw [h] at hmem; simp at hmem
    | cons _ _ => rfl
  obtain ⟨us, hus, h1, _, _⟩ := protoUpdates_ok (prefixPathOf pfx) _ hparse
  refine ⟨us, ?_, h1 s hmem hlen p hp⟩
  simp only [notification, createUpdate, hne, Bool.false_eq_true, if_false]
  exact hus

/-- The full statement (no length hypothesis) is false of code and twin: with the prefix `/a/...`
    (6 characters) the stored, live, selected leaf `/a/b` (4 characters) is not in the PROTO
    response (known finding KF-C03G-proto-prefix-length). -/
theorem C03_get_returns_selected_full_fails :
    wmatch (queryOf (some { target := ['t'], elems := [⟨['a'], []⟩, ⟨['.', '.', '.'], []⟩] }) none) "/a/b".toList = true ∧
    notification (some { target := ['t'], elems := [⟨['a'], []⟩, ⟨['.', '.', '.'], []⟩] }) none
        [⟨"/a/b".toList, ['1'], false⟩, ⟨"/a/b-c".toList, ['2'], false⟩] .proto =
      .ok [.value [⟨['a'], []⟩, ⟨"b-c".toList, []⟩] ['2']] := by
  decide

/-- PROTO, the other direction: every update of the response is a stored value that is live and
    selected by the query, with the stored value (nothing is invented, no tombstone is returned). -/
theorem C03G_proto_returns_only_selected (pfx : Option PathMsg) (path : Option GPath) (vals : List Stored)
    (hparse : ∀ t ∈ selected (queryOf pfx path) vals, ∃ p, reparse t.path = .ok p)
    (us : List Upd) (h : notification pfx path vals .proto = .ok us) (p : GPath) (v : Str)
    (hv : Upd.value p v ∈ us) :
    ∃ s ∈ vals, s.deleted = false ∧ wmatch (queryOf pfx path) s.path = true ∧
      reparse s.path = .ok p ∧ v = s.value := by
  obtain ⟨us', hus', _, h2, _⟩ := protoUpdates_ok (prefixPathOf pfx) _ hparse
  simp only [notification, createUpdate] at h
  by_cases hne : (selected (queryOf pfx path) vals).isEmpty = true
  · simp only [hne, if_true] at h
    cases h
    simp at hv
  · simp only [hne, Bool.false_eq_true, if_false] at h
    rw [hus'] at h
    cases h
    obtain ⟨s, hs, _, hp, hval⟩ := h2 p v hv
    obtain ⟨hsv, hsel, hlive⟩ := (mem_selected _ _ _).mp hs
    exact ⟨s, hsv, hlive, hsel, hp, hval⟩

/-- JSON / JSON_IETF: when something is selected the response is one update, for the request
    path, whose document holds exactly the selected live values (no guard on this branch). -/
theorem C03G_json_returns_exactly_selected (pfx : Option PathMsg) (path : Option GPath) (vals : List Stored)
    (hne : selected (queryOf pfx path) vals ≠ []) :
    notification pfx path vals .json =
      .ok [.doc path ((selected (queryOf pfx path) vals).map fun s => (s.path, s.value))] := by
  have : (selected (queryOf pfx path) vals).isEmpty = false := by
    cases h : selected (queryOf pfx path) vals with
    | nil => exact absurd h hne
    | cons _ _ => rfl
  simp only [notification, createUpdate, this, Bool.false_eq_true, if_false]

/-- When nothing is selected every encoding answers with one update without value. -/
theorem C03G_nothing_selected (pfx : Option PathMsg) (path : Option GPath) (vals : List Stored) (enc : Enc)
    (h : selected (queryOf pfx path) vals = []) :
    notification pfx path vals enc = .ok [.empty path] := by
  simp [notification, createUpdate, h]

/-! ## the selection -/

/-- Completeness for wildcard-free queries: a query text without `*` and `...` selects every
    stored path that extends it — in particular everything beneath the container it addresses. -/
theorem C03G_literal_query_selects_everything_beneath (q r : Str) (h : literalText q = true) :
    wmatch q (q ++ r) = true := wmatch_literal_prefix q r h

/-- … and for structured paths: the leaves beneath the node `Q` (its element list followed by
    more elements) are selected by the query `Q`. -/
theorem C03G_container_query_selects_descendants (Q R : GPath) (h : literalText (strPathElem Q) = true) :
    wmatch (strPathElem Q) (strPathElem (Q ++ R)) = true := by
  simp only [strPathElem, List.flatMap_append]
  exact wmatch_literal_prefix _ _ h

/-- Soundness fails — textual prefix: the query `/a/b` also selects `/a/bc` and `/a/b-c`, `/ab`
    selects `/abc` (known finding KF-C03G-textual-prefix). -/
theorem C03G_selection_textual_prefix_witness :
    wmatch "/a/b".toList "/a/bc".toList = true ∧ wmatch "/a/b".toList "/a/b-c".toList = true ∧
    wmatch "/ab".toList "/abc".toList = true ∧ wmatch "/l[k=1]".toList "/l[k=10]/v".toList = false := by
  decide

/-- Completeness fails for wildcards: `...` never stands for zero elements, a list element
    without its key selects nothing, a `*` element does not stand for a list element — while
    `*` as a key value and `...` for one or more elements work (known findings
    KF-C03G-ellipsis-zero, KF-C03G-omitted-keys, KF-C03G-star-element-keyed). -/
theorem C03G_selection_wildcard_witnesses :
    wmatch "/a/.../b".toList "/a/b".toList = false ∧
    wmatch "/l/v".toList "/l[k=1]/v".toList = false ∧
    wmatch "/*/v".toList "/l[k=1]/v".toList = false ∧
    wmatch "/l[k=*]/v".toList "/l[k=10]/v".toList = true ∧
    wmatch "/a/.../e".toList "/a/d/e".toList = true ∧
    wmatch "/*/b".toList "/a/b".toList = true := by
  decide

/-! ## non-vacuity -/

example : literalText "/box[id=r1]/cfg".toList = true := by decide
example : literalText (strPathElem [⟨['l'], [(['k'], ['1'])]⟩]) = true := by decide
example : reparse "/box[id=r1]/cfg/alpha".toList =
    .ok [⟨"box".toList, [("id".toList, "r1".toList)]⟩, ⟨"cfg".toList, []⟩, ⟨"alpha".toList, []⟩] := by decide
example : selected "/a".toList [⟨"/a/b".toList, ['1'], false⟩, ⟨"/a/c".toList, ['2'], true⟩] =
    [⟨"/a/b".toList, ['1'], false⟩] := by decide
example :
    notification (some { target := ['t'], elems := [⟨"box".toList, [("id".toList, ['*'])]⟩] }) (some [⟨"gamma".toList, []⟩])
        [⟨"/box[id=r1]/gamma".toList, ['g'], false⟩, ⟨"/box[id=r1]/cfg/alpha".toList, ['a'], false⟩] .proto =
      .ok [.value [⟨"box".toList, [("id".toList, "r1".toList)]⟩, ⟨"gamma".toList, []⟩] ['g']] := by
  decide

end OnosVerif.Props.C03G
