/-
C20 — the v3 transaction protocol keeps its specified order and consistency.

Property theorems only.  The twin is `OnosVerif/V3/{Model,System}.lean` (the v3 transaction,
configuration and mastership reconcilers and the v3 stores, one reconcile invocation = a plan of at
most two store writes applied under an injection); `OnosVerif/V3/Spec.lean` holds the project's own
TLA+ invariants transcribed literally and the schedule predicates; the invariants and the bridge
are in `OnosVerif/Proofs/V3*.lean`.  The twin is tied to the Go code by `harness/props/c20`.

Quantifier: all histories (unbounded logs, any rollback requests) × every interleaving of reconcile
invocations × every failed / crashed write between the transaction and the configuration record ×
target restarts, topology and mastership changes (`Action`, `run`).  The positive theorems hold for
schedules in which the *first* write of a transaction-reconciler invocation is not a swallowed CAS
conflict (`safeSchedule`: `updateConfigurationStatus` / `updateTransactionStatus` return nil on a
conflict and the caller goes on to its second write) and no side-map transaction fails
(`storeNeverFails`: such a failure is itself reported as a conflict and swallowed).  The code does
not satisfy the property without these preconditions: the negations are proved on concrete
schedules, which the harness replays on the real reconciler (`corpus/C20/kf-*.script`).
The committed conjunct of `Consistency` needs neither precondition; it is proved for histories
without rollback requests (`changeOnly`).  The applied conjunct is false on healthy schedules.
-/
import OnosVerif.Proofs.V3Bridge3
import OnosVerif.Proofs.V3Inv4
import OnosVerif.Proofs.V3Wedge
import OnosVerif.Proofs.V3Consistency
import OnosVerif.Proofs.V3Progress

namespace OnosVerif.Props.C20
open OnosVerif.V3

/-- the state after a schedule, from a freshly created configuration -/
abbrev after (seed : Nat) (acts : List Action) : Sys := run (initSys seed) acts

/-- every invariant layer holds after every schedule without swallowed conflicts -/
theorem reachable_inv (seed : Nat) (acts : List Action)
    (hs : safeSchedule acts = true) (hf : storeNeverFails (initSys seed) acts = true) :
    FullInv (core (after seed acts)) :=
  FullInv.reach (run_reach (initSys seed) acts (by rw [core_initSys]; exact CReach.init) hs hf)

/-! ## Order -/

/-- **Order (spec/Config.tla), for schedules without swallowed conflicts.**  Over unbounded logs,
    terms and restarts: every Complete event of the history is an ordered change (commits and
    applies of changes happen in log order) or an ordered rollback (the change was completed before
    and no later change has completed that stage without having been rolled back), and the spec's
    second conjunct holds as written. -/
theorem C20_order_partial (seed : Nat) (acts : List Action)
    (hs : safeSchedule acts = true) (hf : storeNeverFails (initSys seed) acts = true) :
    Order (core (after seed acts)) := by
  refine ⟨(reachable_inv seed acts hs hf).order, ?_⟩
  intro i ti _ hfail _
  rintro ⟨j, tj, _, _, h | h⟩ <;> rw [hfail] at h <;> cases h

/-- a value for the witnesses -/
def pvA (i : Nat) : Values :=
  [("/a".toList, { path := "/a".toList, value := [Char.ofNat (48 + i)], deleted := false, index := i })]

/-- a healthy topology: one connection, a master elected, the configuration synchronised -/
def healthy : List Action :=
  [.env (.relAdd "r".toList), .env (.connAdd "r".toList), .mast none [] none,
   .cfg "ok".toList [] none [], .cfg "ok".toList [] none []]

/-- a schedule with two swallowed configuration conflicts (found by exhaustive exploration of the
    twin): the rollback of change 1 is applied to the device *after* the later change 2 -/
def orderWitness : List Action := healthy ++ [
  .append (pvA 1), .append (pvA 2),
  .tx 1 .valid "ok".toList [] none, .tx 1 .valid "ok".toList [] none,
  .rollback 1,
  .tx 1 .valid "ok".toList [.conflict] none,   -- Committed.Target := rollback index is lost
  .tx 1 .valid "ok".toList [] none, .tx 1 .valid "ok".toList [] none,
  .tx 1 .valid "ok".toList [.conflict] none,   -- Applied.Target := rollback index is lost
  .tx 1 .valid "ok".toList [.ok, .fail] none,  -- the rollback reaches the device, the status write fails
  .tx 2 .valid "ok".toList [] none, .tx 2 .valid "ok".toList [] none,
  .tx 2 .valid "ok".toList [] none, .tx 2 .valid "ok".toList [] none,
  .tx 1 .valid "ok".toList [] none]            -- the rollback is sent to the device again

theorem orderWitness_hist : (after 1 orderWitness).hist =
    [⟨.change, .commit, .inProgress, 1⟩, ⟨.change, .commit, .complete, 1⟩, ⟨.rollback, .commit, .complete, 1⟩,
     ⟨.change, .apply, .aborted, 1⟩, ⟨.rollback, .apply, .complete, 1⟩, ⟨.change, .commit, .inProgress, 2⟩,
     ⟨.change, .commit, .complete, 2⟩, ⟨.change, .apply, .inProgress, 2⟩, ⟨.change, .apply, .complete, 2⟩,
     ⟨.rollback, .apply, .complete, 1⟩] := by decide

/-- **Order does not hold for all schedules**: with swallowed conflicts on the configuration writes
    of `commitRollback` / `applyRollback` the history of `orderWitness` ends with the rollback of
    change 1 completing its apply after change 2 completed its apply (event 9 after event 8). -/
theorem C20_order_fails_with_swallowed_conflicts : ¬ Order (core (after 1 orderWitness)) := by
  rintro ⟨ho, _⟩
  simp only [core_hist] at ho
  rw [orderWitness_hist] at ho
  rcases ho 9 ⟨.rollback, .apply, .complete, 1⟩ (by decide) rfl with h | h | h | h
  · obtain ⟨e, he, hp, _⟩ := h
    simp at he; subst he; cases hp
  · obtain ⟨e, he, hp, _⟩ := h
    simp at he; subst he; cases hp
  · obtain ⟨e, he, _, hs, _⟩ := h
    simp at he; subst he; cases hs
  · obtain ⟨e, he, _, _, _, _, hno⟩ := h
    simp at he; subst he
    apply hno
    refine ⟨8, ⟨.change, .apply, .complete, 2⟩, by omega, by decide, rfl, rfl, rfl, by decide, ?_⟩
    rintro ⟨k, _, h1, h2, _⟩
    omega

example : safeSchedule orderWitness = false := by decide

/-! ## Commit before apply -/

/-- **Each phase is committed before it is applied (history form).**  Every event of the apply
    stage (InProgress, Complete, Aborted, Failed — of a change or of a rollback) is preceded by the
    commit-Complete event of the same phase of the same transaction. -/
theorem C20_commit_before_apply_partial (seed : Nat) (acts : List Action)
    (hs : safeSchedule acts = true) (hf : storeNeverFails (initSys seed) acts = true) :
    CommitBeforeApplyHist (after seed acts).hist :=
  (reachable_inv seed acts hs hf).cba

/-- **Each phase is committed before it is applied (record form).**  A transaction whose change
    apply left Pending (and was not cancelled by a failed validation) has its change commit
    Complete; a rollback is requested only for a committed change; a rollback apply that left
    Pending has its rollback commit Complete. -/
theorem C20_commit_before_apply_records (seed : Nat) (acts : List Action)
    (hs : safeSchedule acts = true) (hf : storeNeverFails (initSys seed) acts = true)
    (i : Nat) (t : TxC) (ht : (core (after seed acts)).tx i = some t) :
    (t.ca ≠ .pending → t.ca ≠ .canceled → t.cc = .complete) ∧
    (t.rc ≠ none → t.cc = .complete) ∧
    (t.ra ≠ none → t.ra ≠ some .pending → t.rc = some .complete) := by
  have hwf := (reachable_inv seed acts hs hf).inv.c.wf i t ht
  refine ⟨?_, hwf.rc_cc, ?_⟩
  · intro h1 h2
    rcases hwf.ca_cc with h | h | h
    · exact absurd h h1
    · exact absurd h h2
    · exact h
  · intro h1 h2
    rcases hwf.ra_rc with h | h | h
    · exact absurd h h1
    · exact absurd h h2
    · exact h

/-- the swallowed conflict of `commitChange` (the expected defect): the configuration write of a
    valid change conflicts, the transaction is marked commit-Complete all the same -/
def commitWitness : List Action := healthy ++ [
  .append (pvA 1),
  .tx 1 .valid "ok".toList [] none,
  .tx 1 .valid "ok".toList [.conflict] none,
  .tx 1 .valid "ok".toList [] none]

/-- **Commit-before-apply does not hold for all schedules**: after `commitWitness` change 1 is in
    the apply stage (an apply event is in the history) although no commit-Complete event exists —
    `Committed.{Index,Change,Revision,Values}` were never written. -/
theorem C20_commit_before_apply_fails_with_swallowed_conflict :
    ¬ CommitBeforeApplyHist (after 1 commitWitness).hist := by
  have hh : (after 1 commitWitness).hist =
      [⟨.change, .commit, .inProgress, 1⟩, ⟨.change, .apply, .inProgress, 1⟩] := by decide
  rw [hh]
  intro h
  obtain ⟨j, hj, he⟩ := h 1 ⟨.change, .apply, .inProgress, 1⟩ (by decide) rfl
  have : j = 0 := by omega
  subst this
  simp at he

/-- in the same state the transaction is commit-Complete but the configuration does not know it -/
example : ((core (after 1 commitWitness)).tx 1).map (·.cc) = some .complete ∧
    (core (after 1 commitWitness)).cur.cChange = 0 := by decide

/-! ## Cursors -/

/-- **The committed cursors.**  `Committed.Change` is the frontier of the log: it never exceeds the
    log length, `Committed.Index` equals it, `Committed.Revision` never exceeds it,
    `Committed.Target` is at most one ahead; every transaction beyond the one after the frontier is
    still commit-Pending, every transaction before it is commit-Complete or commit-Failed. -/
theorem C20_cursor_committed (seed : Nat) (acts : List Action)
    (hs : safeSchedule acts = true) (hf : storeNeverFails (initSys seed) acts = true) :
    let k := core (after seed acts)
    k.cur.cChange ≤ k.txs.length ∧ k.cur.cIndex = k.cur.cChange ∧ k.cur.cRevision ≤ k.cur.cChange ∧
    k.cur.cTarget ≤ k.cur.cChange + 1 ∧
    (∀ j t, k.tx j = some t → k.cur.cChange + 1 < j → t.cc = .pending) ∧
    (∀ j t, k.tx j = some t → j < k.cur.cChange → t.cc = .complete ∨ t.cc = .failed) := by
  have h := (reachable_inv seed acts hs hf).inv.c
  exact ⟨h.K_le, h.idx, h.rev_le, h.tgt_le, h.beyond, h.below⟩

/-- **Ordinals.**  The ordinals handed out at commit are positive, bounded by
    `Committed.Ordinal`, strictly increasing with the log index among committed changes, and the
    ordinal of a committed rollback is larger than the ordinal of every committed change. -/
theorem C20_ordinals (seed : Nat) (acts : List Action)
    (hs : safeSchedule acts = true) (hf : storeNeverFails (initSys seed) acts = true) :
    let k := core (after seed acts)
    (∀ j t, k.tx j = some t → t.cc = .complete → 1 ≤ t.cord ∧ t.cord ≤ k.cur.cOrdinal) ∧
    (∀ j1 t1 j2 t2, k.tx j1 = some t1 → k.tx j2 = some t2 → j1 < j2 →
      t1.cc = .complete → t2.cc = .complete → t1.cord < t2.cord) ∧
    (∀ j1 t1 j2 t2, k.tx j1 = some t1 → k.tx j2 = some t2 →
      t1.cc = .complete → t2.rc = some .complete → t1.cord < t2.rord) := by
  have h := (reachable_inv seed acts hs hf).inv.o
  refine ⟨fun j t hj => (h.one j t hj).cord1, ?_, ?_⟩
  · intro j1 t1 j2 t2 h1 h2 hlt
    exact (h.two j1 t1 j2 t2 h1 h2 (by omega)).mono hlt
  · intro j1 t1 j2 t2 h1 h2 hc hr
    by_cases e : j1 = j2
    · subst e
      rw [h1] at h2
      cases h2
      exact (h.one j1 t1 h1).selfr hc hr
    · exact (h.two j1 t1 j2 t2 h1 h2 e).rordgt hc hr

/-- **The applied cursors.**  `Applied.Ordinal` never runs ahead of `Committed.Ordinal`; it has
    passed the ordinal of every change whose apply is Complete, is at most one behind the ordinal of
    every Aborted / Failed one and exactly one behind (or, with the status write still missing, at)
    the ordinal of the one InProgress change, of which there is at most one; it has not reached the
    ordinal of any committed change whose apply is Pending. -/
theorem C20_cursor_applied (seed : Nat) (acts : List Action)
    (hs : safeSchedule acts = true) (hf : storeNeverFails (initSys seed) acts = true) :
    let k := core (after seed acts)
    k.cur.aOrdinal ≤ k.cur.cOrdinal ∧
    (∀ j t, k.tx j = some t → t.ca = .complete → t.cord ≤ k.cur.aOrdinal) ∧
    (∀ j t, k.tx j = some t → (t.ca = .aborted ∨ t.ca = .failed) → t.cord ≤ k.cur.aOrdinal + 1) ∧
    (∀ j t, k.tx j = some t → t.ca = .inProgress →
      (k.cur.aOrdinal + 1 = t.cord ∧ k.cur.aTarget = j) ∨
      (k.cur.aOrdinal = t.cord ∧ k.cur.aRevision = j ∧ k.cur.aIndex = j ∧ k.cur.aTarget = j)) ∧
    (∀ j1 t1 j2 t2, k.tx j1 = some t1 → k.tx j2 = some t2 → j1 ≠ j2 →
      t1.ca = .inProgress → t2.ca ≠ .inProgress) ∧
    (∀ j t, k.tx j = some t → t.ca = .pending → t.cc = .complete → k.cur.aOrdinal < t.cord) := by
  have h := (reachable_inv seed acts hs hf).inv.o
  refine ⟨h.gl.a_le, fun j t hj => (h.one j t hj).a3, fun j t hj => (h.one j t hj).a2,
    fun j t hj => (h.one j t hj).a1, ?_, fun j t hj => (h.one j t hj).a4⟩
  intro j1 t1 j2 t2 h1 h2 hne hip hip2
  exact (h.two j1 t1 j2 t2 h1 h2 hne).one_ip hip hip2

/-- a schedule that satisfies both preconditions and goes through a failed write, a device
    rejection, an aborted change and a complete rollback (change 3 is then never committed: the
    rollback wedge, `C20_terminates`) -/
def sampleSchedule : List Action := healthy ++ [
  .append (pvA 1), .append (pvA 2), .append (pvA 3),
  .tx 1 .valid "ok".toList [] none, .tx 1 .valid "ok".toList [.ok, .fail] none, .tx 1 .valid "ok".toList [] none,
  .tx 2 .valid "ok".toList [] none, .tx 2 .valid "ok".toList [] none,
  .tx 1 .valid "ok".toList [] none, .tx 1 .valid "internal".toList [] none,
  .tx 2 .valid "ok".toList [.fail] none, .tx 2 .valid "ok".toList [] none,
  .rollback 2,
  .tx 2 .valid "ok".toList [] none, .tx 2 .valid "ok".toList [] none,
  .tx 2 .valid "ok".toList [] none, .tx 2 .valid "ok".toList [] none]

/-! ## A failed or aborted apply blocks later changes -/

/-- **Failed blocks later.**  While a change whose apply Failed or was Aborted has not completed the
    apply of its rollback, no later change is in the apply stage or applied (the second conjunct of
    the spec's `Order` as evidently intended, and the property's own sentence, for Aborted as
    well as Failed). -/
theorem C20_failed_blocks_later_partial (seed : Nat) (acts : List Action)
    (hs : safeSchedule acts = true) (hf : storeNeverFails (initSys seed) acts = true) :
    OrderFailedIntended (core (after seed acts)) := by
  have h := (reachable_inv seed acts hs hf).f
  intro i ti hi hfa hra
  rintro ⟨j, tj, hj, hlt, hca⟩
  have := (h.two i ti j tj hi hj (by omega)).fb hlt hfa hra
  rcases hca with h1 | h1
  · exact this.1 h1
  · exact this.2 h1

/-- the mechanism: while no rollback has had its apply turn, `Applied.Revision` stays below the
    index of every change whose apply Failed or was Aborted, and the rollback index of every later
    committed change is at least that index — so `applyChange` aborts it. -/
theorem C20_failed_keeps_revision_behind (seed : Nat) (acts : List Action)
    (hs : safeSchedule acts = true) (hf : storeNeverFails (initSys seed) acts = true) :
    let k := core (after seed acts)
    (∀ j t, k.tx j = some t → (t.ca = .failed ∨ t.ca = .aborted) → k.cur.aRevision < j ∨ RBA k.cur) ∧
    (∀ j1 t1 j2 t2, k.tx j1 = some t1 → k.tx j2 = some t2 → j1 < j2 →
      t1.cc = .complete → t2.cc ≠ .pending → j1 ≤ t2.ridx) := by
  have h := (reachable_inv seed acts hs hf).f
  refine ⟨fun j t hj => (h.one j t hj).fb1, ?_⟩
  intro j1 t1 j2 t2 h1 h2 hlt
  exact (h.two j1 t1 j2 t2 h1 h2 (by omega)).fb2 hlt

/-- a schedule with two swallowed configuration conflicts: change 1 is aborted and its rollback is
    committed but not applied, yet change 2 goes to the apply stage -/
def failedWitness : List Action := healthy ++ [
  .append (pvA 1), .append (pvA 2),
  .tx 1 .valid "ok".toList [] none, .tx 1 .valid "ok".toList [] none,
  .rollback 1,
  .tx 1 .valid "ok".toList [.conflict] none,
  .tx 1 .valid "ok".toList [] none, .tx 1 .valid "ok".toList [] none,
  .tx 2 .valid "ok".toList [] none,
  .tx 2 .invalid "ok".toList [.conflict] none,
  .tx 2 .valid "ok".toList [] none, .tx 2 .valid "ok".toList [] none]

/-- **Failed-blocks-later does not hold for all schedules.** -/
theorem C20_failed_blocks_later_fails_with_swallowed_conflicts :
    ¬ OrderFailedIntended (core (after 1 failedWitness)) := by
  intro h
  have h1 : (core (after 1 failedWitness)).tx 1 =
      some { phase := .rollback, cc := .complete, ca := .aborted, rc := some .complete, ra := some .pending,
             cord := 1, rord := 2, ridx := 0 } := by decide
  have h2 : (core (after 1 failedWitness)).tx 2 =
      some { phase := .change, cc := .complete, ca := .inProgress, rc := none, ra := none,
             cord := 2, rord := 0, ridx := 0 } := by decide
  exact h 1 _ h1 (Or.inr rfl) (by decide) ⟨2, _, h2, by omega, Or.inl rfl⟩

/-! ## Consistency -/

/-- **Consistency (spec/Config.tla), committed conjunct, for histories without rollback requests.**
    Over unbounded logs and *every* store behaviour the twin has (lost = swallowed configuration
    writes, failing writes, side-map-only writes, interfering configuration / mastership
    reconcilers, restarts): the transaction that is `Committed.Revision` has each of its values in
    `Committed.Values` as `Get` returns them.  `changeOnly`: no northbound or racing rollback
    request, each appended change names a path once.  `seed ≠ 2`: the creator did not pass
    `Committed.Values` to `Create` (see `C20_consistency_committed_fails_under_side_map`). -/
theorem C20_consistency_committed_partial (seed : Nat) (acts : List Action)
    (hc : acts.all changeOnly = true) (hseed : seed ≠ 2) : ConsistencyCommitted (after seed acts) := by
  intro i t hi hr _ kv hm
  refine (VC.run (VC.init seed) acts hc).cons i t hi hr kv hm ?_
  rw [run_cside]
  simp [initSys, hseed, vKeys]

/-- the same for a configuration created with `Committed.Values`: every path except the created
    ones (the committed side map, which nothing writes after `Create`: `run_cside`). -/
theorem C20_consistency_committed_outside_side_map (seed : Nat) (acts : List Action)
    (hc : acts.all changeOnly = true) (i : Nat) (t : Tx) (hi : getTx (after seed acts) i = some t)
    (hr : (after seed acts).cfg.cRevision = i) (kv : Str × PV) (hm : kv ∈ t.values)
    (hp : kv.1 ∉ vKeys (initSys seed).cside) :
    vLookup (view (after seed acts)).cVals kv.1 = some kv.2 := by
  refine (VC.run (VC.init seed) acts hc).cons i t hi hr kv hm ?_
  rw [run_cside]; exact hp

def pvSeed : Values :=
  [("/seed".toList, { path := "/seed".toList, value := "1".toList, deleted := false, index := 1 })]

/-- a healthy schedule: one change of the path the configuration was created with -/
def shadowWitness : List Action := healthy ++ [
  .append pvSeed, .tx 1 .valid "ok".toList [] none, .tx 1 .valid "ok".toList [] none]

/-- **The committed conjunct does not hold for a configuration created with values**: `Create`
    moves `Committed.Values` into the committed side map, `UpdateStatus` embeds later committed
    values in the entry and never writes that map, `Get` overlays the map over the entry: the
    created value shadows every later committed change of its path. -/
theorem C20_consistency_committed_fails_under_side_map : ¬ ConsistencyCommitted (after 2 shadowWitness) := by
  intro h
  have hv : (getTx (after 2 shadowWitness) 1).map (·.values) = some pvSeed := by decide
  cases hg : getTx (after 2 shadowWitness) 1 with
  | none => rw [hg] at hv; cases hv
  | some t =>
    rw [hg] at hv
    simp only [Option.map_some, Option.some.injEq] at hv
    have hrev : (after 2 shadowWitness).cfg.cRevision = 1 := by decide
    have := h 1 t hg hrev (by rintro ⟨j, tj, _, hj, hr⟩; rw [hrev] at hr; omega)
      ("/seed".toList, { path := "/seed".toList, value := "1".toList, deleted := false, index := 1 })
      (by rw [hv]; simp [pvSeed])
    revert this
    decide

example : shadowWitness.all changeOnly = true ∧ safeSchedule shadowWitness = true ∧
    storeNeverFails (initSys 2) shadowWitness = true := by decide

def pvA0 (v : String) : Values :=
  [("/a".toList, { path := "/a".toList, value := v.toList, deleted := false, index := 0 })]

/-- a healthy schedule: two changes of one path, each committed and applied; the values carry
    `Index` 0 as a northbound creator leaves them (it cannot know the log index before `Create`) -/
def appliedWitness : List Action := healthy ++ [
  .append (pvA0 "1"),
  .tx 1 .valid "ok".toList [] none, .tx 1 .valid "ok".toList [] none, .tx 1 .valid "ok".toList [] none,
  .tx 1 .valid "ok".toList [] none, .tx 1 .valid "ok".toList [] none,
  .append (pvA0 "2"),
  .tx 2 .valid "ok".toList [] none, .tx 2 .valid "ok".toList [] none, .tx 2 .valid "ok".toList [] none,
  .tx 2 .valid "ok".toList [] none, .tx 2 .valid "ok".toList [] none]

/-- **The applied conjunct does not hold, on a healthy schedule**: the store updates an existing
    entry of the applied side map only if `PathValue.Index` differs, and nothing sets the index of
    a transaction's values: change 2 is `Applied.Revision`, the device has its value,
    `Applied.Values` still says `1`. -/
theorem C20_consistency_applied_fails : ¬ ConsistencyApplied (after 1 appliedWitness) := by
  intro h
  have hv : (getTx (after 1 appliedWitness) 2).map (·.values) = some (pvA0 "2") := by decide
  cases hg : getTx (after 1 appliedWitness) 2 with
  | none => rw [hg] at hv; cases hv
  | some t =>
    rw [hg] at hv
    simp only [Option.map_some, Option.some.injEq] at hv
    have hrev : (after 1 appliedWitness).cfg.aRevision = 2 := by decide
    have := h 2 t hg hrev (by rintro ⟨j, tj, _, hj, hr⟩; rw [hrev] at hr; omega)
      ("/a".toList, { path := "/a".toList, value := "2".toList, deleted := false, index := 0 })
      (by rw [hv]; simp [pvA0])
    revert this
    decide

example : appliedWitness.all changeOnly = true ∧ safeSchedule appliedWitness = true ∧
    storeNeverFails (initSys 1) appliedWitness = true := by decide

/-- a second healthy schedule against the applied conjunct (values with their log index): delete
    `/x/y`, then set `/x/y/z`; the store prunes the new value below the applied tombstone. -/
def tombstoneWitness : List Action := healthy ++ [
  .append [("/x/y".toList, { path := "/x/y".toList, value := [], deleted := true, index := 1 })],
  .tx 1 .valid "ok".toList [] none, .tx 1 .valid "ok".toList [] none, .tx 1 .valid "ok".toList [] none,
  .tx 1 .valid "ok".toList [] none, .tx 1 .valid "ok".toList [] none,
  .append [("/x/y/z".toList, { path := "/x/y/z".toList, value := "2".toList, deleted := false, index := 2 })],
  .tx 2 .valid "ok".toList [] none, .tx 2 .valid "ok".toList [] none, .tx 2 .valid "ok".toList [] none,
  .tx 2 .valid "ok".toList [] none, .tx 2 .valid "ok".toList [] none]

example : (after 1 tombstoneWitness).cfg.aRevision = 2 ∧
    vLookup (view (after 1 tombstoneWitness)).aVals "/x/y/z".toList = none := by decide

/-! ## Termination -/

/-- **Termination, the progress-measure half, for schedules without swallowed conflicts.**
    `progress` adds up, over the transaction records, how far each status has moved (Pending <
    InProgress < Complete / Aborted / Canceled / Failed; an accepted rollback request counts one); it
    is at most 9 per transaction.  Along every schedule it never decreases, and every step that
    changes the protocol state of an existing transaction record (a reconcile with one or two
    writes of which the second may fail, a rollback request) increases it strictly: whatever the
    interleaving, the faults and the restarts, at most `9·n` such steps happen in a history of `n`
    transactions — no transaction record ever moves backwards or cycles.

    What `Termination` of spec/Config.tla needs beyond this does not hold: that some reconcile is
    enabled as long as a transaction is not final (`C20_terminates_fails_after_rollback`; the
    harness monitor `terminates` finds the other blocked states on the real reconciler,
    `KNOWN_FINDINGS.txt`).  Writes of the configuration record alone (a first write whose second
    write failed) are not counted. -/
theorem C20_terminates_partial (seed : Nat) (acts : List Action)
    (hs : safeSchedule acts = true) (hf : storeNeverFails (initSys seed) acts = true) :
    txChanges (initSys seed) acts ≤ progress (core (after seed acts)) ∧
    progress (core (after seed acts)) ≤ 9 * (after seed acts).txs.length := by
  refine ⟨?_, ?_⟩
  · have := run_progress (initSys seed) acts hs hf
    have h0 : progress (core (initSys seed)) = 0 := by rw [core_initSys]; rfl
    simp only [after]; omega
  · have := progress_le (core (after seed acts))
    simpa [core] using this

/-- the measure never decreases along a continuation of the schedule -/
theorem C20_progress_monotone (seed : Nat) (acts more : List Action)
    (hs : safeSchedule (acts ++ more) = true) (hf : storeNeverFails (initSys seed) (acts ++ more) = true) :
    progress (core (after seed acts)) ≤ progress (core (after seed (acts ++ more))) := by
  rw [safeSchedule_append, Bool.and_eq_true] at hs
  rw [storeNeverFails_append, Bool.and_eq_true] at hf
  have := run_progress (after seed acts) more hs.2 hf.2
  simp only [after, run_append] at this ⊢
  omega

example : txChanges (initSys 1) sampleSchedule = 12 ∧ progress (core (after 1 sampleSchedule)) = 13 := by decide

/-- **The rollback wedge: not every transaction terminates.**  In every state reachable (without
    swallowed conflicts) in which `commitRollback` has moved `Committed.Target` below
    `Committed.Change`, and after *every* continuation of the schedule (appends, rollback requests,
    reconciles, faults — unboundedly many), `Committed.Change` is where it was and every
    transaction beyond it is still commit-Pending: no later change is ever committed, let alone
    applied.  (`commitRollback` sets `Committed.Index` to the rolled-back transaction and leaves
    `Committed.Target` at the rollback index, so `Index = Target` never holds again.) -/
theorem C20_terminates_fails_after_rollback (seed : Nat) (acts more : List Action)
    (hs : safeSchedule (acts ++ more) = true) (hf : storeNeverFails (initSys seed) (acts ++ more) = true)
    (hm : (core (after seed acts)).cur.cTarget < (core (after seed acts)).cur.cChange) :
    let k := core (after seed acts)
    let k' := core (after seed (acts ++ more))
    k'.cur.cChange = k.cur.cChange ∧ ∀ j t, k'.tx j = some t → k.cur.cChange < j → t.cc = .pending := by
  rw [safeSchedule_append, Bool.and_eq_true] at hs
  rw [storeNeverFails_append, Bool.and_eq_true] at hf
  have hr : CReach (core (after seed acts)) :=
    run_reach (initSys seed) acts (by rw [core_initSys]; exact CReach.init) hs.1 hf.1
  have hstar : CStar (core (after seed acts)) (core (after seed (acts ++ more))) := by
    simp only [after, run_append]
    exact run_star _ more hs.2 hf.2
  obtain ⟨h1, h2⟩ := rbmode_star hr hm hstar
  refine ⟨h2, ?_⟩
  intro j t hj hlt
  have hc := CInv.reach (hr.star hstar)
  exact hc.r_later h1 j t hj (by rw [h2]; exact hlt)

/-- the wedge is reachable: after `sampleSchedule` (a complete rollback of change 2) the commit side
    is in rollback mode, change 3 is Pending -/
example : (core (after 1 sampleSchedule)).cur.cTarget < (core (after 1 sampleSchedule)).cur.cChange ∧
    ((core (after 1 sampleSchedule)).tx 3).map (·.cc) = some .pending := by decide

/-! ## Facts regenerated from the current Go source (translator) -/

/-- **Transient device answers are retried** (regression for the `errorCode` fix 29b9466 in v3):
    with the decision tables the translator regenerated from `applyChange` / `applyRollback`, a
    device answering Unavailable, Canceled or DeadlineExceeded makes the invocation return the error
    (no status is written), PermissionDenied is ignored, and both switches agree on every code. -/
theorem C20_fact_transient_answers_retry :
    classify .unavailable = .retry ∧ classify .canceled = .retry ∧ classify .deadlineExceeded = .retry ∧
    classify .permissionDenied = .superseded ∧ (∀ a : DevAns, classifyRb a = classify a) ∧
    OnosVerif.Generated.v3ErrorCodeTyped = true := by
  refine ⟨by decide, by decide, by decide, by decide, ?_, by decide⟩
  intro a; cases a <;> decide

/-- every other refusal fails the phase with the failure type the inner switch assigns -/
theorem C20_fact_failure_types :
    classify .invalidArgument = .fail .invalid ∧ classify .internal = .fail .internal ∧
    classify .unknown = .fail .unknown ∧ classify .notFound = .fail .notFound ∧
    classify .unimplemented = .fail .notSupported := by
  refine ⟨by decide, by decide, by decide, by decide, by decide⟩

/-- the defect the negation witnesses rest on, as the translator finds it in the source today:
    both status-update helpers return nil on a CAS conflict -/
theorem C20_fact_conflicts_are_swallowed :
    OnosVerif.Generated.v3SwallowCfgConflict = true ∧ OnosVerif.Generated.v3SwallowTxConflict = true := by
  decide

/-! ## Non-vacuity -/

example : safeSchedule sampleSchedule = true ∧ storeNeverFails (initSys 1) sampleSchedule = true := by decide

example : (after 1 sampleSchedule).hist.length = 11 ∧
    ((core (after 1 sampleSchedule)).tx 2).map (fun t => (t.ca, t.rc)) = some (.aborted, some .complete) := by decide

end OnosVerif.Props.C20
