import OnosVerif.V3.System

namespace OnosVerif.Props.C20
open OnosVerif.V3

/-- placeholder -/
theorem C20_placeholder : (initSys 1).txs = [] := rfl

end OnosVerif.Props.C20
