/-
C18 — the JSON document is the configuration, no more and no less.

Property theorems only.  The twin (OnosVerif/Tree/Model.lean) mirrors `BuildTree`,
`addPathToTree`, `PrunePathValues`, `PrunePathMap` of pkg/utils/v2/tree/tree.go (the v3 copy
differs only in value vs pointer slices) on the *text* of paths, as the Go code does; it is tied
to both Go packages by the correspondence check `harness/props/c18`.  Specification-side
definitions: OnosVerif/Tree/Spec.lean, OnosVerif/Tree/Flatten.lean; the same algorithm on parsed
paths: OnosVerif/Tree/Elems.lean; helper lemmas: OnosVerif/Proofs/{StrOrder,TreePrune,TreeObj,TreeScan,
TreeOrd,TreeMember,TreeFull,TreeGroups,TreeExpected,TreeGood,TreeFlat,TreeMemberSpec,TreeBuild,
TreeBridge,TreeSorted,TreeTop}.lean.
-/
import OnosVerif.Proofs.TreeTop
import OnosVerif.Generated.Facts

namespace OnosVerif.Props.C18
open OnosVerif.Tree
open OnosVerif.Path (Str)
open OnosVerif

/-! ## Facts regenerated from the Go sources on every run (translator `harness/cmd/extract/tree.go`) -/

/-- The delimiters the code cuts path text with are the ones the twin is written for
    (`/`, `=`, `[`, `]`), in v2 and v3. -/
theorem C18_fact_delimiters :
    Generated.treeDelims2 = [("slash", "/"), ("equals", "="), ("bracketsq", "["), ("brktclose", "]")] ∧
    Generated.treeDelims3 = Generated.treeDelims2 := by decide

/-- `PrunePathValues` (v2 and v3) sorts with `sort.Slice` and tests "inside the deleted subtree"
    with `strings.HasPrefix` — exactly the calls the twin's `sortPVs`/`hasPrefix` stand for.  When
    the prefix test is replaced (for instance by an element-boundary helper, the repair proposed
    for KF-C18-prune-textual) this stops checking and the twin has to follow. -/
theorem C18_fact_prune_calls :
    Generated.pruneCalls2 = ["make", "len", "copy", "sort.Slice", "make", "len", "len",
      "strings.HasPrefix", "append", "len", "strings.HasPrefix", "append"] ∧
    Generated.pruneCalls3 = Generated.pruneCalls2 := by decide

/-- Every function of pkg/utils/v3/tree/tree.go is, as a syntax tree, the v2 function up to
    `[]*PathValue` vs `[]PathValue`: one twin serves both. -/
theorem C18_fact_v3_mirrors_v2 : Generated.treeV3MirrorsV2.all (·.2) = true ∧
    Generated.treeV3MirrorsV2.map (·.1) =
      ["BuildTree", "addPathToTree", "convertBasicType", "handleLeafValue", "PrunePathValues", "PrunePathMap"] := by
  decide

/-! ## Pruning -/

/-- What `PrunePathValues` really computes, for every set of path/values with distinct paths:
    in path order, everything that has another deleted path as a *textual prefix* is dropped;
    the deleted paths themselves are dropped too unless `leaveTop`, in which case exactly the
    top-most ones stay.  (One variable `deletingPrefix` suffices because the strings that share
    a prefix are contiguous in the sorted order.) -/
theorem C18_prune_is_textual (pvs : List PV) (leaveTop : Bool) (hd : pathsDistinct pvs = true)
    (hne : leaveTop = true → noEmptyPath pvs = true) :
    prunePathValues pvs leaveTop = pruneSpec hasPrefix leaveTop pvs :=
  prune_textual pvs leaveTop hd hne

/-- Pruning is exact — it removes exactly the deleted nodes and their descendants at element
    boundaries, and with `leaveTop` keeps exactly the top-most tombstones — *provided* no deleted
    path is a textual prefix of a sibling (`noSiblingPrefix`).
    The full statement (without that precondition) is false of code and twin alike:
    `C18_prune_exact_full_fails`, known finding KF-C18-prune-textual. -/
theorem C18_prune_exact_partial (pvs : List PV) (leaveTop : Bool) (hd : pathsDistinct pvs = true)
    (hne : leaveTop = true → noEmptyPath pvs = true) (hs : noSiblingPrefix pvs = true) :
    prunePathValues pvs leaveTop = pruneSpec boundaryPrefix leaveTop pvs := by
  rw [prune_textual pvs leaveTop hd hne, pruneSpec_boundary pvs leaveTop hs]

/-- tombstone `/a/b`, live sibling `/a/bc`. -/
def witnessPrune : List PV :=
  [{ path := "/a/b".toList, val := .empty, deleted := true },
   { path := "/a/bc".toList, val := .str "v".toList, deleted := false }]

/-- negation witness for the full pruning statement: the live sibling `/a/bc` of the deleted
    `/a/b` is removed (both flags). -/
theorem C18_prune_exact_full_fails :
    pathsDistinct witnessPrune = true ∧ noEmptyPath witnessPrune = true ∧
    prunePathValues witnessPrune false ≠ pruneSpec boundaryPrefix false witnessPrune ∧
    prunePathValues witnessPrune true ≠ pruneSpec boundaryPrefix true witnessPrune ∧
    prunePathValues witnessPrune false = [] := by
  decide

/-- `PrunePathMap` returns, as a map, exactly what `PrunePathValues` returns. -/
theorem C18_prune_map_eq_values (vals : List PV) (leaveTop : Bool) (hd : pathsDistinct vals = true)
    (hne : leaveTop = true → noEmptyPath vals = true) :
    prunePathMap vals leaveTop = prunePathValues vals leaveTop :=
  pruneMap_eq vals leaveTop hd hne

/-- The result of pruning does not depend on the order in which the path/values arrive (slice
    order for `PrunePathValues`, Go map iteration order for `PrunePathMap`). -/
theorem C18_prune_order_irrelevant (vals vals' : List PV) (leaveTop : Bool) (hp : vals.Perm vals')
    (hd : pathsDistinct vals = true) :
    prunePathValues vals leaveTop = prunePathValues vals' leaveTop ∧
    prunePathMap vals leaveTop = prunePathMap vals' leaveTop := by
  have h : prunePathValues vals leaveTop = prunePathValues vals' leaveTop := by
    unfold prunePathValues; rw [sortPVs_perm vals vals' hp hd]
  exact ⟨h, by unfold prunePathMap; rw [h]⟩

/-- The quirk excluded by `noEmptyPath`: a deleted *empty* path is not a tombstone for the loop
    (`len(deletingPrefix) == 0` reads as "not deleting"); with `leaveTop` it is returned twice. -/
theorem C18_prune_empty_path_quirk (v : Val) :
    prunePathValues [{ path := [], val := v, deleted := true }] true =
      [{ path := [], val := v, deleted := true }, { path := [], val := v, deleted := true }] := by
  rfl

/-! non-vacuity of the pruning preconditions: a set with nested tombstones, list entries and
    prefix-sharing names that are *not* tombstoned -/

def samplePrune : List PV :=
  [{ path := "/a/l[k=1]/x".toList, val := .str "v".toList, deleted := false },
   { path := "/a/l[k=1]".toList, val := .empty, deleted := true },
   { path := "/a/l[k=10]/x".toList, val := .uint 3 false, deleted := false },
   { path := "/a/b/c".toList, val := .empty, deleted := true },
   { path := "/a/b".toList, val := .empty, deleted := true },
   { path := "/a/bc".toList, val := .bool true, deleted := true },
   { path := "/a/b-c".toList, val := .bool true, deleted := false }]

example : pathsDistinct samplePrune = true := by decide
example : noEmptyPath samplePrune = true := by decide
example : noSiblingPrefix samplePrune = false := by decide   -- `/a/b` vs `/a/b-c`
example : noSiblingPrefix (samplePrune.take 4 ++ samplePrune.drop 5) = true := by decide
example : (prunePathValues (samplePrune.take 4 ++ samplePrune.drop 5) true).map (fun p => String.ofList p.path) =
    ["/a/b-c", "/a/b/c", "/a/bc", "/a/l[k=10]/x", "/a/l[k=1]"] := by decide

/-! ## The document is the configuration -/

/-- Full statement of "flattening the document gives back the live leaves it was built from",
    for the text-level twin of `BuildTree`, **for every iteration order of the key maps**:
    let `S` be the path/values that survive pruning (as parsed paths, in the order pruning returns
    them).  If they are `consistent` (simple element names and key values, keys in canonical order,
    leaves without keys, no path a prefix of another, entries of one list node with one set of key
    names, key leaves agreeing with the keys of their entry) and the key names are uniform per list
    node (`uniformKeys`), then `BuildTree` succeeds and an independent flattener that knows the key
    names reads from the document exactly the `Expected` leaves: the live leaves, each under its
    own full key set, plus the key leaves of every entry — nothing lost, nothing added, no leaf
    under another entry. -/
theorem C18_flatten_build (rfc : Bool) (ord : List (Str × Str) → List (Str × Str)) (hord : IsOrder ord)
    (pvs : List PV) (S : List Entry)
    (hd : pathsDistinct pvs = true) (hp : prunePathValues pvs false = S.map Entry.toPV)
    (hc : consistent rfc S = true) (hu : uniformKeys (S.map (·.1)) = true) :
    ∃ m, buildTree rfc ord pvs = .ok (.obj m) ∧
      ∀ y, y ∈ flattenDoc (schemaOf (S.map (·.1))) (.obj m) ↔ Expected rfc S y := by
  obtain ⟨m, h1, h2, _⟩ := flatten_build rfc ord hord pvs S hd hp hc hu
  exact ⟨m, h1, h2⟩

/-- The same without tombstones, in its most readable form: for every `consistent`, key-uniform
    set of live path/values, handed over in **any order** and for every key-map order, the document
    reads back as exactly the expected leaves, none twice. -/
theorem C18_flatten_build_live (rfc : Bool) (ord : List (Str × Str) → List (Str × Str)) (hord : IsOrder ord)
    (S : List Entry) (hc : consistent rfc S = true) (hu : uniformKeys (S.map (·.1)) = true) :
    ∃ m, buildTree rfc ord (S.map Entry.toPV) = .ok (.obj m) ∧
      (∀ y, y ∈ flattenDoc (schemaOf (S.map (·.1))) (.obj m) ↔ Expected rfc S y) ∧
      ((flattenDoc (schemaOf (S.map (·.1))) (.obj m)).map (·.1)).Nodup :=
  flatten_build_live rfc ord hord S hc hu

/-- List entries are identified by their full key sets, for every key-map order: under the same
    preconditions the flattener reads no path twice.  An entry split over two items would yield
    its key leaves twice; together with `C18_flatten_build` (every leaf is read under exactly the
    path it was configured at, which spells out the full key set of every entry on the way, and
    nothing else is read) this says: distinct entries are never merged, one entry is never
    split. -/
theorem C18_entries_by_full_keyset (rfc : Bool) (ord : List (Str × Str) → List (Str × Str)) (hord : IsOrder ord)
    (pvs : List PV) (S : List Entry)
    (hd : pathsDistinct pvs = true) (hp : prunePathValues pvs false = S.map Entry.toPV)
    (hc : consistent rfc S = true) (hu : uniformKeys (S.map (·.1)) = true) :
    ∃ m, buildTree rfc ord pvs = .ok (.obj m) ∧
      ((flattenDoc (schemaOf (S.map (·.1))) (.obj m)).map (·.1)).Nodup ∧
      (∀ p v j, (p, v) ∈ S → leafJson rfc v = some j → (p, j) ∈ flattenDoc (schemaOf (S.map (·.1))) (.obj m)) ∧
      (∀ x ∈ S, ∀ y ∈ keyLeavesOfPath x.1, ∃ j, (y.1, j) ∈ flattenDoc (schemaOf (S.map (·.1))) (.obj m)) := by
  obtain ⟨m, h1, h2, h3⟩ := flatten_build rfc ord hord pvs S hd hp hc hu
  refine ⟨m, h1, h3, ?_, ?_⟩
  · intro p v j hx hj
    exact (h2 (p, j)).2 (Or.inl ((mem_explicitLeaves rfc S p j).2 ⟨v, hx, hj⟩))
  · intro x hx y hy
    by_cases hex : y.1 ∈ (explicitLeaves rfc S).map (·.1)
    · obtain ⟨v, j, hv, hj⟩ := (mem_explicitPaths rfc S y.1).1 hex
      exact ⟨j, (h2 (y.1, j)).2 (Or.inl ((mem_explicitLeaves rfc S y.1 j).2 ⟨v, hv, hj⟩))⟩
    · exact ⟨y.2, (h2 y).2 (Or.inr ⟨(mem_impliedLeaves S y).2 ⟨x, hx, hy⟩, hex⟩)⟩

/-- The property end to end, with pruning read at *element boundaries* (the part that holds): if
    no deleted path is a textual prefix of a sibling (`noSiblingPrefix`), the document holds exactly
    the leaves that are neither deleted nor below a deleted node — `S` is what the declarative,
    element-boundary pruning leaves.  Without `noSiblingPrefix` this is false of code and twin
    alike: `C18_document_full_fails`, known finding KF-C18-prune-textual. -/
theorem C18_document_is_configuration_partial (rfc : Bool) (ord : List (Str × Str) → List (Str × Str))
    (hord : IsOrder ord) (pvs : List PV) (S : List Entry)
    (hd : pathsDistinct pvs = true) (hs : noSiblingPrefix pvs = true)
    (hp : pruneSpec boundaryPrefix false pvs = S.map Entry.toPV)
    (hc : consistent rfc S = true) (hu : uniformKeys (S.map (·.1)) = true) :
    ∃ m, buildTree rfc ord pvs = .ok (.obj m) ∧
      (∀ y, y ∈ flattenDoc (schemaOf (S.map (·.1))) (.obj m) ↔ Expected rfc S y) ∧
      ((flattenDoc (schemaOf (S.map (·.1))) (.obj m)).map (·.1)).Nodup :=
  flatten_build rfc ord hord pvs S hd
    (by rw [C18_prune_exact_partial pvs false hd (by simp) hs]; exact hp) hc hu

/-- negation witness for the end-to-end statement without `noSiblingPrefix`: with the tombstone
    `/a/b` the live sibling `/a/bc` is expected (element-boundary pruning keeps it, the set is
    consistent) but the document built is empty. -/
theorem C18_document_full_fails :
    pathsDistinct witnessPrune = true ∧
    pruneSpec boundaryPrefix false witnessPrune =
      [(([{ name := "a".toList, keys := [] }, { name := "bc".toList, keys := [] }], Val.str "v".toList) : Entry)].map Entry.toPV ∧
    consistent true [([{ name := "a".toList, keys := [] }, { name := "bc".toList, keys := [] }], Val.str "v".toList)] = true ∧
    buildTree true id witnessPrune = .ok (.obj []) := by
  decide

/-- The document never depends on the order in which Go ranges over a key map: any two
    iteration orders give the same result (document or error) for *every* input, well-formed or
    not. -/
theorem C18_keymap_order_irrelevant (rfc : Bool) (ord1 ord2 : List (Str × Str) → List (Str × Str))
    (h1 : IsOrder ord1) (h2 : IsOrder ord2) (pvs : List PV) :
    buildTree rfc ord1 pvs = buildTree rfc ord2 pvs := by
  unfold buildTree
  exact addAll_ord rfc ord1 ord2 h1 h2 _ _

/-- On the text of a well-formed path `addPathToTree` does what its element-level reading
    (`addElems`, the function the build theorem is proved for) does: the textual key parser, the
    `strings.Index` arithmetic and the re-joined `refinePath` are faithful on that domain. -/
theorem C18_text_eq_elements (rfc : Bool) (ord : List (Str × Str) → List (Str × Str)) (p : Path.GPath)
    (v : Val) (node : Json) (h : pathOK p = true) :
    addPath rfc ord ((Path.strPathElem p).length + 1) (Path.strPathElem p) v node = addElems rfc ord p v node :=
  addPath_eq_addElems rfc ord p _ v node h (strPathElem_length p)

/-! ### the preconditions are needed: three witnesses (each replayed on the Go code by the
    correspondence corpus) -/

private def sv (p v : String) : PV := { path := p.toList, val := .str v.toList, deleted := false }
private def js (s : String) : Json := .str s.toList
private def mem (k : String) (v : Json) : Str × Json := (k.toList, v)

/-- Without `uniformKeys`: entries `{a=1}` and `{a=1,b=2}` exist, a path for `{a=1,c=5}` counts one
    matching key in each (`foundkeys` is not reset by an entry that merely lacks a key), reaches 2 =
    `len(keyMap)` and is **merged** into `{a=1,b=2}`; the key `c=5` is lost. -/
theorem C18_merge_without_uniform_keys :
    buildTree true id [sv "/l[a=1]/x" "v", sv "/l[a=1][c=5]/y" "v", sv "/l[a=1][b=2]/z" "v"] =
      .ok (.obj [mem "l" (.arr [.obj [mem "a" (js "1"), mem "x" (js "v")],
        .obj [mem "a" (js "1"), mem "b" (js "2"), mem "y" (js "v"), mem "z" (js "v")]])]) := by
  decide

/-- Without canonical key order in the text: `/l[b=2][a=1]/y` names the entry `{a=1,b=2}` but sorts
    after `/l[a=1][b=3]/…`; the lookup finds `{a=1,b=2}`, then `{a=1,b=3}` resets `foundkeys`, and
    the entry is **split** in two items. -/
theorem C18_split_without_canonical_key_order :
    buildTree true id [sv "/l[a=1][b=2]/x" "v", sv "/l[a=1][b=3]/x" "v", sv "/l[b=2][a=1]/y" "v"] =
      .ok (.obj [mem "l" (.arr [.obj [mem "a" (js "1"), mem "b" (js "2"), mem "x" (js "v")],
        .obj [mem "a" (js "1"), mem "b" (js "3"), mem "x" (js "v")],
        .obj [mem "a" (js "1"), mem "b" (js "2"), mem "y" (js "v")]])]) := by
  decide

/-- Without consistent key leaves: the key leaf `/l[k=1]/k = "2"` overwrites the key of its own
    entry, the next path of `{k=1}` no longer finds it and the entry is **split**. -/
theorem C18_split_with_inconsistent_key_leaf :
    buildTree true id [sv "/l[k=1]/k" "2", sv "/l[k=1]/x" "v"] =
      .ok (.obj [mem "l" (.arr [.obj [mem "k" (js "2")], .obj [mem "k" (js "1"), mem "x" (js "v")]])]) := by
  decide

/-! non-vacuity of `C18_flatten_build`: nested and multi-key lists, numeric and boolean keys with
    typed key leaves, sibling names sharing prefixes, a wide integer, an EMPTY value, and a
    tombstone whose subtree is pruned -/

private def el (n : String) (ks : List (String × String) := []) : Path.Elem :=
  { name := n.toList, keys := ks.map fun kt => (kt.1.toList, kt.2.toList) }

def sampleLive : List Entry :=
  [([el "a", el "b"], .int (-3) true),
   ([el "a", el "b-c"], .str "x".toList),
   ([el "a", el "bc"], .empty),
   ([el "a", el "l" [("k", "10")], el "x"], .bool true),
   ([el "a", el "l" [("k", "1")], el "k"], .uint 1 false),
   ([el "a", el "l" [("k", "1")], el "x"], .str "v".toList),
   ([el "c", el "m" [("j", "true"), ("k", "2")], el "j"], .bool true),
   ([el "c", el "m" [("j", "true"), ("k", "2")], el "n" [("k", "2")], el "y"], .str "w".toList)]

def samplePVs : List PV :=
  { path := "/c/m[j=true][k=2]/n[k=3]/y".toList, val := .str "gone".toList, deleted := false } ::
  { path := "/c/m[j=true][k=2]/n[k=3]".toList, val := .empty, deleted := true } ::
  sampleLive.reverse.map Entry.toPV

example : pathsDistinct samplePVs = true := by decide
example : prunePathValues samplePVs false = sampleLive.map Entry.toPV := by decide
example : consistent true sampleLive = true := by decide
example : uniformKeys (sampleLive.map (·.1)) = true := by decide
example : IsOrder id := fun _ => List.Perm.refl _
example : IsOrder List.reverse := fun m => List.reverse_perm m
example : pathOK [el "c", el "m" [("j", "true"), ("k", "2")], el "n" [("k", "2")], el "y"] = true := by decide

end OnosVerif.Props.C18
