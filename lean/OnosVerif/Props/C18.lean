import OnosVerif.Tree.Model
import OnosVerif.Tree.Flatten

namespace OnosVerif.Props.C18
open OnosVerif.Tree

theorem C18_stub : True := trivial

end OnosVerif.Props.C18
