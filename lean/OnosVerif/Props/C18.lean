/-
C18 — the JSON document is the configuration, no more and no less.

Property theorems only.  The twin (OnosVerif/Tree/Model.lean) mirrors `BuildTree`,
`addPathToTree`, `PrunePathValues`, `PrunePathMap` of pkg/utils/v2/tree/tree.go (the v3 copy
differs only in value vs pointer slices) on the *text* of paths, as the Go code does; it is tied
to both Go packages by the correspondence check `harness/props/c18`.  Specification-side
definitions: OnosVerif/Tree/Spec.lean, OnosVerif/Tree/Flatten.lean; helper lemmas:
OnosVerif/Proofs/{StrOrder,TreePrune}.lean.
-/
import OnosVerif.Proofs.TreePrune

namespace OnosVerif.Props.C18
open OnosVerif.Tree
open OnosVerif.Path (Str)

/-! ## Pruning -/

/-- What `PrunePathValues` really computes, for every set of path/values with distinct paths:
    in path order, everything that has another deleted path as a *textual prefix* is dropped;
    the deleted paths themselves are dropped too unless `leaveTop`, in which case exactly the
    top-most ones stay.  (One variable `deletingPrefix` suffices because the strings that share
    a prefix are contiguous in the sorted order.) -/
theorem C18_prune_is_textual (pvs : List PV) (leaveTop : Bool) (hd : pathsDistinct pvs = true)
    (hne : leaveTop = true → noEmptyPath pvs = true) :
    prunePathValues pvs leaveTop = pruneSpec hasPrefix leaveTop pvs :=
  prune_textual pvs leaveTop hd hne

/-- Pruning is exact — it removes exactly the deleted nodes and their descendants at element
    boundaries, and with `leaveTop` keeps exactly the top-most tombstones — *provided* no deleted
    path is a textual prefix of a sibling (`noSiblingPrefix`).
    The full statement (without that precondition) is false of code and twin alike:
    `C18_prune_exact_full_fails`, known finding KF-C18-prune-textual. -/
theorem C18_prune_exact_partial (pvs : List PV) (leaveTop : Bool) (hd : pathsDistinct pvs = true)
    (hne : leaveTop = true → noEmptyPath pvs = true) (hs : noSiblingPrefix pvs = true) :
    prunePathValues pvs leaveTop = pruneSpec boundaryPrefix leaveTop pvs := by
  rw [prune_textual pvs leaveTop hd hne, pruneSpec_boundary pvs leaveTop hs]

/-- tombstone `/a/b`, live sibling `/a/bc`. -/
def witnessPrune : List PV :=
  [{ path := "/a/b".toList, val := .empty, deleted := true },
   { path := "/a/bc".toList, val := .str "v".toList, deleted := false }]

/-- negation witness for the full pruning statement: the live sibling `/a/bc` of the deleted
    `/a/b` is removed (both flags). -/
theorem C18_prune_exact_full_fails :
    pathsDistinct witnessPrune = true ∧ noEmptyPath witnessPrune = true ∧
    prunePathValues witnessPrune false ≠ pruneSpec boundaryPrefix false witnessPrune ∧
    prunePathValues witnessPrune true ≠ pruneSpec boundaryPrefix true witnessPrune ∧
    prunePathValues witnessPrune false = [] := by
  decide

/-- `PrunePathMap` returns, as a map, exactly what `PrunePathValues` returns. -/
theorem C18_prune_map_eq_values (vals : List PV) (leaveTop : Bool) (hd : pathsDistinct vals = true)
    (hne : leaveTop = true → noEmptyPath vals = true) :
    prunePathMap vals leaveTop = prunePathValues vals leaveTop :=
  pruneMap_eq vals leaveTop hd hne

/-- The result of pruning does not depend on the order in which the path/values arrive (slice
    order for `PrunePathValues`, Go map iteration order for `PrunePathMap`). -/
theorem C18_prune_order_irrelevant (vals vals' : List PV) (leaveTop : Bool) (hp : vals.Perm vals')
    (hd : pathsDistinct vals = true) :
    prunePathValues vals leaveTop = prunePathValues vals' leaveTop ∧
    prunePathMap vals leaveTop = prunePathMap vals' leaveTop := by
  have h : prunePathValues vals leaveTop = prunePathValues vals' leaveTop := by
    unfold prunePathValues; rw [sortPVs_perm vals vals' hp hd]
  exact ⟨h, by unfold prunePathMap; rw [h]⟩

/-- The quirk excluded by `noEmptyPath`: a deleted *empty* path is not a tombstone for the loop
    (`len(deletingPrefix) == 0` reads as "not deleting"); with `leaveTop` it is returned twice. -/
theorem C18_prune_empty_path_quirk (v : Val) :
    prunePathValues [{ path := [], val := v, deleted := true }] true =
      [{ path := [], val := v, deleted := true }, { path := [], val := v, deleted := true }] := by
  rfl

/-! non-vacuity of the pruning preconditions: a set with nested tombstones, list entries and
    prefix-sharing names that are *not* tombstoned -/

def samplePrune : List PV :=
  [{ path := "/a/l[k=1]/x".toList, val := .str "v".toList, deleted := false },
   { path := "/a/l[k=1]".toList, val := .empty, deleted := true },
   { path := "/a/l[k=10]/x".toList, val := .uint 3 false, deleted := false },
   { path := "/a/b/c".toList, val := .empty, deleted := true },
   { path := "/a/b".toList, val := .empty, deleted := true },
   { path := "/a/bc".toList, val := .bool true, deleted := true },
   { path := "/a/b-c".toList, val := .bool true, deleted := false }]

example : pathsDistinct samplePrune = true := by decide
example : noEmptyPath samplePrune = true := by decide
example : noSiblingPrefix samplePrune = false := by decide   -- `/a/b` vs `/a/b-c`
example : noSiblingPrefix (samplePrune.take 4 ++ samplePrune.drop 5) = true := by decide
example : (prunePathValues (samplePrune.take 4 ++ samplePrune.drop 5) true).map (fun p => String.ofList p.path) =
    ["/a/b-c", "/a/b/c", "/a/bc", "/a/l[k=10]/x", "/a/l[k=1]"] := by decide

end OnosVerif.Props.C18
