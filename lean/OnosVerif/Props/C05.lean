/-
C05 — nothing becomes configuration without passing the target's model.

PURE PART ONLY: the document/chunking half ("the document the plugin saw is, byte for byte, the
document that was built, whatever its size").  The protocol half (validated on the predecessor's
committed result, a rejected change alters nothing) is built in the V2 protocol model and will add
its theorems (`C05_validated_on_predecessor`, `C05_rejected_changes_nothing`,
`C05_doc_is_committed`) to this file.

The twin (OnosVerif/Tree/Chunks.lean) mirrors the send loop and the result handling of
`(*ModelPluginInfo).Validate` in pkg/pluginregistry/registry.go; `chunkSize` is regenerated from
the Go source by the translator (`OnosVerif.Generated.chunkSize`); the twin is tied to the Go
function by `harness/props/c05` (a fake model-plugin client records every chunk it receives).
Helper lemmas: OnosVerif/Proofs/Chunks.lean.
-/
import OnosVerif.Proofs.Chunks

namespace OnosVerif.Props.C05
open OnosVerif.Tree

/-- Chunking loses, adds and reorders nothing: for every document of every size and every positive
    chunk size the chunks sent, put back together, are the document; no chunk is empty and none
    exceeds the chunk size. -/
theorem C05_chunks_concat {α : Type} (n : Nat) (hn : 0 < n) (d : List α) :
    (chunks n d).flatten = d ∧ ∀ c ∈ chunks n d, c ≠ [] ∧ c.length ≤ n :=
  ⟨chunksAux_flatten n hn d.length d (Nat.le_refl _), fun c hc => chunksAux_mem n hn d.length d c hc⟩

/-- Every chunk but the last carries exactly `n` elements (so chunk boundaries sit at the
    multiples of `n`, in particular at the 100 kB marks). -/
theorem C05_chunks_full_but_last {α : Type} (n : Nat) (d : List α) (i : Nat)
    (hi : i + 1 < (chunks n d).length) (c : List α) (hc : (chunks n d)[i]? = some c) : c.length = n :=
  chunksAux_full n d.length d i hi c hc

/-- The number of chunks is ⌈len/n⌉; an empty document is sent as zero chunks. -/
theorem C05_chunks_count {α : Type} (n : Nat) (hn : 0 < n) (d : List α) :
    (chunks n d).length = (d.length + n - 1) / n :=
  chunksAux_length n hn d.length d (Nat.le_refl _)

/-- The constant the code uses now (regenerated fact) is positive, so the theorems above apply to
    `validateChunks` (with `chunkSize = 0` the Go loop would never terminate). -/
theorem C05_chunkSize_pos : 0 < chunkSize := by decide

/-- What `Validate` streams for a document, with the code's own chunk size, is the document. -/
theorem C05_validate_chunks_concat (doc : List UInt8) :
    (validateChunks doc).flatten = doc ∧ ∀ c ∈ validateChunks doc, c ≠ [] ∧ c.length ≤ chunkSize :=
  C05_chunks_concat chunkSize C05_chunkSize_pos doc

/-- `Validate` reports success only if the plugin received the *whole* document, in order, and
    answered "valid": whatever the plugin or the transport does (open/send/receive failures at any
    point), an accepted document is a document the plugin saw completely. -/
theorem C05_accept_only_whole_document (doc : List UInt8) (b : PluginBehaviour)
    (h : (validate chunkSize doc b).1 = .ok) :
    (validate chunkSize doc b).2.flatten = doc := by
  have hc := (C05_chunks_concat chunkSize C05_chunkSize_pos doc).1
  cases b with
  | openErr => simp [validate] at h
  | sendErr k =>
    by_cases hk : k < (chunks chunkSize doc).length
    · simp [validate, hk] at h
    · simp only [validate, hk, if_false]; exact hc
  | recvErr => simp [validate] at h
  | answer v =>
    cases v with
    | true => exact hc
    | false => simp [validate] at h

/-- A document the plugin declares invalid, or whose validation call fails anywhere, is never
    reported as valid (function level; the protocol consequence "the Set is answered with an error
    and changes nothing" is the protocol part). -/
theorem C05_reject_is_reported (doc : List UInt8) (b : PluginBehaviour)
    (hb : b = .openErr ∨ b = .recvErr ∨ b = .answer false ∨
          ∃ k, b = .sendErr k ∧ k < (validateChunks doc).length) :
    (validate chunkSize doc b).1 ≠ .ok := by
  rcases hb with h | h | h | ⟨k, h, hk⟩ <;> subst h
  · simp [validate]
  · simp [validate]
  · simp [validate]
  · have hk' : k < (chunks chunkSize doc).length := hk
    simp [validate, hk']

/-! non-vacuity and the boundary shape on small instances (chunk size 3 standing for 100 kB) -/

example : chunks 3 [1, 2, 3, 4, 5, 6, 7] = [[1, 2, 3], [4, 5, 6], [7]] := by decide
example : chunks 3 [1, 2, 3, 4, 5, 6] = [[1, 2, 3], [4, 5, 6]] := by decide
example : chunks 3 [1, 2, 3, 4, 5] = [[1, 2, 3], [4, 5]] := by decide
example : chunks 3 ([] : List Nat) = [] := by decide
example : (validate 3 [1, 2, 3, 4] (.sendErr 1)) = (.err, [[1, 2, 3]]) := by decide
example : (validate 3 [1, 2, 3, 4] (.answer true)) = (.ok, [[1, 2, 3], [4]]) := by decide

end OnosVerif.Props.C05
