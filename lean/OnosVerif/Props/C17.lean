import OnosVerif.Value.Model

namespace OnosVerif.Props.C17
open OnosVerif.Value

end OnosVerif.Props.C17
