/-
C17 — values survive the journey unchanged.

Property theorems only (helper lemmas live in OnosVerif/Proofs/Value.lean).  The twin
(OnosVerif/Value/{Enc,Model}.lean) mirrors GnmiTypedValueToNativeType / handleLeafList /
NativeTypeToGnmiTypedValue (pkg/utils/v{2,3}/values), the onos-api typed-value encodings they call,
the value part of PathValuesToGnmiChange and createUpdate, and the leaf rendering of
handleLeafValue (pkg/utils/v{2,3}/tree); it is tied to the Go code by `harness/props/c17`.

Quantifier: all string / int / uint (every width, extremes included) / bool / bytes / decimal64 /
float values and homogeneous leaf-lists of them.  `scalarOK` is that domain for scalars (an
`IntVal` is an int64, a `UintVal` a uint64, a decimal's precision fits the stored uint8 — a superset
of YANG's 1..18 —, a float is not a NaN).  Where the code does not preserve a value the full
statement is kept, the part that holds is `…_partial`, and the negation is proved on a witness.
-/
import OnosVerif.Proofs.ValueFloat

namespace OnosVerif.Props.C17
open OnosVerif.Value

/-! ## Facts regenerated from the Go sources

`OnosVerif/Generated/Facts.lean` is rewritten by the translator (`harness/cmd/extract/c17.go`) on
every run; the twin is driven by the v2 facts.  These lemmas pin what the theorems below rely on. -/

/-- The v3 value and tree files have the same decision structure as the v2 files (one twin
    serves both while that stays true). -/
theorem C17_fact_v3_same_as_v2 :
    Generated.leafListChainV3 = Generated.leafListChainV2 ∧
    Generated.defaultWidthsV3 = Generated.defaultWidthsV2 ∧
    Generated.leafValueTableV3 = Generated.leafValueTableV2 := by decide

/-- What `handleLeafValue` stores per type, under RFC 7951 and otherwise (accessor or local):
    int/uint `String()` when `width > 32` else `Int()`/`Uint()`; decimal `String()` (else
    `Float()`); float `String()` (else `Float32()`); bytes `ByteArray()`; the leaf-lists their
    `List()` — decimals `ListFloat()` — and int/uint lists a string list when `width > 32`. -/
theorem C17_fact_leafValueTable :
    Generated.leafValueTableV2 =
      [("EMPTY", "", 0, "", ""), ("STRING", "", 0, "String", "String"), ("INT", ">", 32, "String", "Int"),
       ("UINT", ">", 32, "String", "Uint"), ("DECIMAL", "", 0, "String", "Float"),
       ("FLOAT", "", 0, "String", "Float32"), ("BOOL", "", 0, "Bool", "Bool"),
       ("BYTES", "", 0, "ByteArray", "ByteArray"), ("LEAFLIST_STRING", "", 0, "List", "List"),
       ("LEAFLIST_INT", ">", 32, "asStrList", "leafList"), ("LEAFLIST_UINT", ">", 32, "asStrList", "leafList"),
       ("LEAFLIST_BOOL", "", 0, "List", "List"), ("LEAFLIST_DECIMAL", "", 0, "ListFloat", "ListFloat"),
       ("LEAFLIST_FLOAT", "", 0, "List", "List"), ("LEAFLIST_BYTES", "", 0, "List", "List")] := by decide

/-- The two repairs are in the source: a DecimalVal precision above 18 is refused, a FloatVal NaN
    is refused with an error (v2 and v3). -/
theorem C17_fact_precision_bound_and_nan_refused :
    Generated.maxDecimalPrecisionV2 = some 18 ∧ Generated.maxDecimalPrecisionV3 = some 18 ∧
    Generated.floatNaNRefusedV2 = true ∧ Generated.floatNaNRefusedV3 = true := by decide

/-- The store keeps the value it is given: the configuration stores rewrite an existing entry of the value
    side maps whenever the write carries another index than the stored entry - not "unless the bytes are
    the same": the sign, precision and member lengths of a value live in its type options, so two
    different values can share type and bytes (seeded change C17-m3). -/
theorem C17_fact_store_rewrites_whatever_the_bytes (g : Generated.V2G) :
    Generated.StoreFacts.v2CfgStoreRewriteGuard g = (g.n "pv.Index" != g.n "entry.Value.Index") ∧
    Generated.StoreFacts.v3CfgStoreRewriteGuard g = (g.n "pv.Index" != g.n "entry.Value.Index") :=
  ⟨rfl, rfl⟩

/-- `handleLeafList` looks at its lists in the order string, int, uint, bool, bytes, decimal,
    float, each building its own leaf-list type; widths default to 32. -/
theorem C17_fact_leafList_chain_and_defaults :
    leafListChain = some [(.strs, .strs), (.ints, .ints), (.uints, .uints), (.bools, .bools),
      (.bytess, .bytess), (.digits, .digits), (.floats, .floats)] ∧
    defaultWidth "intWidth" = 32 ∧ defaultWidth "uintWidth" = 32 ∧ defaultWidth "width" = 32 :=
  ⟨fact_leafListChain, fact_defaultWidth⟩

/-! ## Round trip: the value read back in PROTO encoding is the value set -/

/-- Scalars: whatever the model's type options, a supported scalar converted to the native form
    and back is the same value (an `AsciiVal` comes back as the `StringVal` of the same text).
    Covers every width, `-2^63`, `2^63-1`, `2^64-1`, the empty string and the empty byte string,
    every decimal64 with int64 digits, and every float32 bit pattern that is not a NaN (±0,
    subnormals, ±Inf included). -/
theorem C17_roundtrip_scalar (s : Scalar) (opts : List Nat) (h : scalarOK s = true) :
    roundTrip (.scalar s) opts = .ok (.scalar (norm s)) := by
  cases s with
  | str b => rfl
  | ascii b => rfl
  | int i =>
    simp only [scalarOK] at h
    simp only [roundTrip, toNative, toGnmi, newInt, wrapI64_of_isInt64 i h, norm]
    have := tvInt_newInt i (widthOf "intWidth" opts) h
    simp only [newInt] at this
    rw [this]
  | uint n =>
    simp only [scalarOK] at h
    have hn : n % two64 = n := Nat.mod_eq_of_lt (by simpa [isUint64] using h)
    simp only [roundTrip, toNative, toGnmi, newUint, hn, norm]
    have := tvUint_newUint n (widthOf "uintWidth" opts) h
    simp only [newUint] at this
    rw [this]
  | bool b =>
    simp only [roundTrip, toNative, toGnmi, newBool, norm]
    have := tvBool_newBool b
    simp only [newBool] at this
    rw [this]; rfl
  | bytes b => rfl
  | dec d p =>
    simp only [scalarOK, Bool.and_eq_true, decide_eq_true_eq] at h
    have hp : p % 256 = p := Nat.mod_eq_of_lt (by omega)
    have hr : precisionRefused p = false := by rw [fact_precisionRefused]; simp; omega
    simp only [roundTrip, toNative, hr, Bool.false_eq_true, if_false, toGnmi, newDecimal, hp, norm]
    have := tvDecimal_newDecimal d p h.1 (by omega)
    simp only [newDecimal] at this
    rw [this]
  | decNil => simp [scalarOK] at h
  | float f =>
    simp only [scalarOK, Bool.and_eq_true, Bool.not_eq_true', two32] at h
    have hf : f < 4294967296 := of_decide_eq_true h.1
    simp only [roundTrip, toNative, h.2, Bool.false_eq_true, if_false, toGnmi, newFloat,
      float32OfGob_gobFloat32 f hf h.2, norm]
  | anyNil => simp [scalarOK] at h
  | other => simp [scalarOK] at h

/-- A FloatVal NaN is refused with an error, whatever the payload bits (the typed value is built
    with `big.NewFloat`, which would panic; repaired: was KF-C17-float-nan-panic).  `scalarOK`
    excludes NaN because it is not stored — not because anything crashes. -/
theorem C17_float_nan_refused (f : Nat) (opts : List Nat) (h : isNaN32 f = true) :
    toNative (.scalar (.float f)) opts = .error .floatNaN ∧ roundTrip (.scalar (.float f)) opts = .error .floatNaN := by
  simp [roundTrip, toNative, h, fact_nanFailure]

/-- A DecimalVal whose precision exceeds 18 (YANG decimal64) is refused with an error, as a scalar
    and as a leaf-list member: nothing with such a precision is ever stored (repaired: the
    precision used to be truncated to a uint8 and 64..255 made `strDecimal64` divide by zero, was
    KF-C17-decimal-precision-panic). -/
theorem C17_decimal_precision_above_18_refused (d : Int) (p : Nat) (opts : List Nat) (h : p > 18) :
    toNative (.scalar (.dec d p)) opts = .error .decimalPrecision ∧
    ∀ (pre : List Int) (q : Nat) (post : List Scalar), q ≤ 18 →
      toNative (.leaflist ((pre.map fun x => .dec x q) ++ .dec d p :: post)) opts = .error .decimalPrecision := by
  have hr : precisionRefused p = true := by rw [fact_precisionRefused]; simpa using h
  refine ⟨by simp [toNative, hr], ?_⟩
  intro pre q post hq
  have hq' : precisionRefused q = false := by rw [fact_precisionRefused]; simp; omega
  have hc : ∀ (acc : LLAcc), llCollect acc ((pre.map fun x => Scalar.dec x q) ++ .dec d p :: post) = .error .decimalPrecision := by
    induction pre with
    | nil => intro acc; simp [llCollect, hr]
    | cons x xs ih => intro acc; simp only [List.map_cons, List.cons_append, llCollect, hq', Bool.false_eq_true, if_false]; exact ih _
  simp [toNative, handleLeafList, hc]

/-! ### leaf-lists -/

/-- int leaf-lists of any length ≥ 1 with any int64 members (width irrelevant) come back unchanged. -/
theorem C17_roundtrip_leaflist_int (xs : List Int) (opts : List Nat) (hne : xs ≠ [])
    (h : ∀ x ∈ xs, isInt64 x = true) :
    roundTrip (.leaflist (xs.map .int)) opts = .ok (.leaflist (xs.map .int)) := by
  simp only [roundTrip, toNative, handleLeafList_ints _ _ hne, toGnmi, newLLInt]
  have := tvLLInt_newLLInt xs (llWidth (opts.headD 0 % 256)) h
  simp only [newLLInt] at this
  rw [this]; rfl

/-- uint leaf-lists with uint64 members come back unchanged. -/
theorem C17_roundtrip_leaflist_uint (xs : List Nat) (opts : List Nat) (hne : xs ≠ [])
    (h : ∀ x ∈ xs, isUint64 x = true) :
    roundTrip (.leaflist (xs.map .uint)) opts = .ok (.leaflist (xs.map .uint)) := by
  simp only [roundTrip, toNative, handleLeafList_uints _ _ hne, toGnmi, newLLUint]
  have := tvLLUint_newLLUint xs (llWidth (opts.headD 0 % 256)) h
  simp only [newLLUint] at this
  rw [this]; rfl

/-- bool leaf-lists come back unchanged. -/
theorem C17_roundtrip_leaflist_bool (xs : List Bool) (opts : List Nat) (hne : xs ≠ []) :
    roundTrip (.leaflist (xs.map .bool)) opts = .ok (.leaflist (xs.map .bool)) := by
  simp only [roundTrip, toNative, handleLeafList_bools _ _ hne, toGnmi, newLLBool]
  have := tvLLBool_newLLBool xs
  simp only [newLLBool] at this
  rw [this]

/-- decimal64 leaf-lists whose members share one precision (at most 18) come back unchanged. -/
theorem C17_roundtrip_leaflist_decimal (ds : List Int) (p : Nat) (opts : List Nat) (hne : ds ≠ [])
    (h : ∀ d ∈ ds, isInt64 d = true) (hp : p ≤ 18) :
    roundTrip (.leaflist (ds.map fun d => .dec d p)) opts = .ok (.leaflist (ds.map fun d => .dec d p)) := by
  have hp' : p % 256 = p := Nat.mod_eq_of_lt (by omega)
  simp only [roundTrip, toNative, handleLeafList_decs _ _ _ hne hp, hp', toGnmi, newLLDecimal]
  have := tvLLDecimal_newLLDecimal ds p h (by omega)
  simp only [newLLDecimal] at this
  rw [this]; rfl

/-- float leaf-lists with members that are not NaN come back with the same bit patterns. -/
theorem C17_roundtrip_leaflist_float (fs : List Nat) (opts : List Nat) (hne : fs ≠ [])
    (h : ∀ f ∈ fs, f < 4294967296 ∧ isNaN32 f = false) :
    roundTrip (.leaflist (fs.map .float)) opts = .ok (.leaflist (fs.map .float)) := by
  simp only [roundTrip, toNative, handleLeafList_floats _ _ hne, toGnmi]
  rw [tvLLFloat_newLLFloat fs h]; rfl

/-- string leaf-lists (members sent as `StringVal` or `AsciiVal`): the part that holds — no
    member contains the byte 0x1D.  Empty members are preserved. -/
theorem C17_roundtrip_leaflist_string_partial (xs : List (Bool × Bytes)) (opts : List Nat) (hne : xs ≠ [])
    (h : no1D (xs.map (·.2)) = true) :
    roundTrip (.leaflist (xs.map strScalar)) opts = .ok (.leaflist ((xs.map (·.2)).map .str)) := by
  simp only [roundTrip, toNative, handleLeafList_strs _ _ hne, toGnmi, newLLString, tvLLString]
  rw [splitGS_joinGS _ (by simpa using hne) h]

/-- negation witness of the full string statement: `["a\x1db"]` is read back as `["a","b"]`
    (known finding KF-C17-llstring-1d). -/
theorem C17_roundtrip_leaflist_string_full_fails :
    roundTrip (.leaflist [.str [97, 0x1D, 98]]) [] = .ok (.leaflist [.str [97], .str [98]]) := by
  decide

/-- bytes leaf-lists: the part that holds — no member is empty (and no member is 2 GiB long:
    `int32(len(v))`). -/
theorem C17_roundtrip_leaflist_bytes_partial (xs : List Bytes) (opts : List Nat) (hne : xs ≠ [])
    (h : noEmptyMember xs = true) (hlen : ∀ v ∈ xs, v.length < 2147483648) :
    roundTrip (.leaflist (xs.map .bytes)) opts = .ok (.leaflist (xs.map .bytes)) := by
  simp only [roundTrip, toNative, handleLeafList_bytess _ _ hne, toGnmi]
  rw [tvLLBytes_newLLBytes xs hne h hlen]; rfl

/-- negation witness of the full bytes statement: `[[1],[]]` is read back as `[[1]]`
    (known finding KF-C17-llbytes-empty-member). -/
theorem C17_roundtrip_leaflist_bytes_full_fails :
    roundTrip (.leaflist [.bytes [1], .bytes []]) [] = .ok (.leaflist [.bytes [1]]) := by
  decide +kernel

/-- … and the members after an empty one are merged: `[[1],[],[2],[3]]` comes back as
    `[[1],[2,3]]`. -/
theorem C17_roundtrip_leaflist_bytes_merge_witness :
    roundTrip (.leaflist [.bytes [1], .bytes [], .bytes [2], .bytes [3]]) [] =
      .ok (.leaflist [.bytes [1], .bytes [2, 3]]) := by
  decide +kernel

/-- a leading empty member, on the other hand, survives (`[[],[1]]`): the precondition
    `noEmptyMember` is sufficient, not necessary. -/
theorem C17_roundtrip_leaflist_bytes_leading_empty :
    roundTrip (.leaflist [.bytes [], .bytes [1]]) [] = .ok (.leaflist [.bytes [], .bytes [1]]) := by
  decide +kernel

/-- Leaf-lists, the statement of the property with the two conditions the encodings need
    (`leafListOK`: non-empty, one type, supported members, one decimal precision, no 0x1D in a
    string member, no empty bytes member): the list read back is the list set. -/
theorem C17_roundtrip_leaflist (es : List Scalar) (opts : List Nat) (h : leafListOK es = true) :
    roundTrip (.leaflist es) opts = .ok (.leaflist (es.map norm)) := by
  cases es with
  | nil => simp [leafListOK] at h
  | cons e r =>
    cases e with
    | str b =>
      simp only [leafListOK] at h
      cases hc : collectStrs (.str b :: r) with
      | none => simp [hc] at h
      | some xs =>
        simp only [hc] at h
        obtain ⟨h1, h2⟩ := collectStrs_spec _ xs hc
        have hne : xs ≠ [] := by intro hx; subst hx; simp at h1
        rw [h2, h1]; exact C17_roundtrip_leaflist_string_partial xs opts hne h
    | ascii b =>
      simp only [leafListOK] at h
      cases hc : collectStrs (.ascii b :: r) with
      | none => simp [hc] at h
      | some xs =>
        simp only [hc] at h
        obtain ⟨h1, h2⟩ := collectStrs_spec _ xs hc
        have hne : xs ≠ [] := by intro hx; subst hx; simp at h1
        rw [h2, h1]; exact C17_roundtrip_leaflist_string_partial xs opts hne h
    | int i =>
      simp only [leafListOK] at h
      cases hc : collectInts (.int i :: r) with
      | none => simp [hc] at h
      | some xs =>
        simp only [hc, List.all_eq_true] at h
        have h1 := collectInts_spec _ xs hc
        have hne : xs ≠ [] := by intro hx; subst hx; simp at h1
        rw [h1]; simp only [List.map_map]
        have : (norm ∘ Scalar.int) = Scalar.int := by funext x; rfl
        rw [this]; exact C17_roundtrip_leaflist_int xs opts hne h
    | uint n =>
      simp only [leafListOK] at h
      cases hc : collectUints (.uint n :: r) with
      | none => simp [hc] at h
      | some xs =>
        simp only [hc, List.all_eq_true] at h
        have h1 := collectUints_spec _ xs hc
        have hne : xs ≠ [] := by intro hx; subst hx; simp at h1
        rw [h1]; simp only [List.map_map]
        have : (norm ∘ Scalar.uint) = Scalar.uint := by funext x; rfl
        rw [this]; exact C17_roundtrip_leaflist_uint xs opts hne h
    | bool b =>
      simp only [leafListOK] at h
      cases hc : collectBools (.bool b :: r) with
      | none => simp [hc] at h
      | some xs =>
        have h1 := collectBools_spec _ xs hc
        have hne : xs ≠ [] := by intro hx; subst hx; simp at h1
        rw [h1]; simp only [List.map_map]
        have : (norm ∘ Scalar.bool) = Scalar.bool := by funext x; rfl
        rw [this]; exact C17_roundtrip_leaflist_bool xs opts hne
    | bytes b =>
      simp only [leafListOK] at h
      cases hc : collectBytess (.bytes b :: r) with
      | none => simp [hc] at h
      | some xs =>
        simp only [hc, Bool.and_eq_true, List.all_eq_true, decide_eq_true_eq] at h
        have h1 := collectBytess_spec _ xs hc
        have hne : xs ≠ [] := by intro hx; subst hx; simp at h1
        rw [h1]; simp only [List.map_map]
        have : (norm ∘ Scalar.bytes) = Scalar.bytes := by funext x; rfl
        rw [this]; exact C17_roundtrip_leaflist_bytes_partial xs opts hne h.1 h.2
    | dec d p =>
      simp only [leafListOK] at h
      cases hc : collectDecs p (.dec d p :: r) with
      | none => simp [hc] at h
      | some xs =>
        simp only [hc, Bool.and_eq_true, List.all_eq_true, decide_eq_true_eq] at h
        have h1 := collectDecs_spec p _ xs hc
        have hne : xs ≠ [] := by intro hx; subst hx; simp at h1
        rw [h1]; simp only [List.map_map]
        have : (norm ∘ fun d => Scalar.dec d p) = fun d => Scalar.dec d p := by funext x; rfl
        rw [this]; exact C17_roundtrip_leaflist_decimal xs p opts hne h.1 h.2
    | float f =>
      simp only [leafListOK] at h
      cases hc : collectFloats (.float f :: r) with
      | none => simp [hc] at h
      | some xs =>
        simp only [hc, List.all_eq_true, Bool.and_eq_true, decide_eq_true_eq, Bool.not_eq_true'] at h
        have h1 := collectFloats_spec _ xs hc
        have hne : xs ≠ [] := by intro hx; subst hx; simp at h1
        rw [h1]; simp only [List.map_map]
        have : (norm ∘ Scalar.float) = Scalar.float := by funext x; rfl
        rw [this]; exact C17_roundtrip_leaflist_float xs opts hne h
    | decNil => simp [leafListOK] at h
    | anyNil => simp [leafListOK] at h
    | other => simp [leafListOK] at h

/-! ## Stored = sent = read -/

/-- The value sent to the device and the value returned by Get (PROTO) are computed from the
    stored bytes by the same function, so they are equal for every stored value, well-formed or
    not. -/
theorem C17_sent_eq_read (tv : TV) : sentToDevice tv = readProto tv := rfl

/-- For every supported scalar the three uses agree with what the client set. -/
theorem C17_stored_eq_sent_eq_read (s : Scalar) (opts : List Nat) (h : scalarOK s = true) :
    ∃ tv, toNative (.scalar s) opts = .ok tv ∧
      sentToDevice tv = .ok (.scalar (norm s)) ∧ readProto tv = .ok (.scalar (norm s)) := by
  have hrt := C17_roundtrip_scalar s opts h
  simp only [roundTrip] at hrt
  cases htn : toNative (.scalar s) opts with
  | error e => rw [htn] at hrt; simp at hrt
  | ok tv =>
    rw [htn] at hrt
    exact ⟨tv, rfl, hrt, hrt⟩

/-- Two supported scalars that are stored identically (under the same type options) are the
    same value: nothing is conflated on the way in. -/
theorem C17_native_injective (s t : Scalar) (opts : List Nat) (hs : scalarOK s = true) (ht : scalarOK t = true)
    (h : toNative (.scalar s) opts = toNative (.scalar t) opts) : norm s = norm t := by
  have h1 := C17_roundtrip_scalar s opts hs
  have h2 := C17_roundtrip_scalar t opts ht
  simp only [roundTrip, h] at h1
  simp only [roundTrip] at h2
  rw [h1] at h2
  injection h2 with h2
  injection h2 with h2

/-! ## The stored encoding -/

/-- An int is stored as the big-endian bytes of its magnitude (no leading zero byte is added:
    `SetBytes` of the stored bytes is the magnitude), with the width the model gives — or 32 —
    and the sign flag in `TypeOpts`. -/
theorem C17_int_encoding (i : Int) (opts : List Nat) (h : isInt64 i = true) (hw : widthOK opts = true) :
    ∃ tv, toNative (.scalar (.int i)) opts = .ok tv ∧ tv.type = .int ∧
      natOfBE tv.bytes = i.natAbs ∧ tv.opts = [(modelWidth opts : Int), if i < 0 then 1 else 0] := by
  refine ⟨_, rfl, rfl, ?_, ?_⟩
  · simp only [newInt, wrapI64_of_isInt64 i h, natOfBE_natToBE]
  · have hwd := widthOf_of_widthOK "intWidth" fact_defaultWidth.1 opts hw
    simp only [newInt, wrapI64_of_isInt64 i h, hwd, negFlag]

/-! ## JSON: the right type and the right digits (RFC 7951 document) -/

/-- An int is a JSON number for a model width ≤ 32 (or no width) and a JSON string holding its
    `%d` text for width 64. -/
theorem C17_json_int (i : Int) (opts : List Nat) (st : Bool) (h : isInt64 i = true) (hw : widthOK opts = true) :
    jsonOf (.scalar (.int i)) opts st =
      .ok (some (.scalar (if modelWidth opts > 32 then .str (asciiBytes (fmtInt i)) else .num i))) := by
  obtain ⟨tv, htn, hty, _, hopts⟩ := C17_int_encoding i opts h hw
  have hv : tvInt tv = i := by
    have := tvInt_newInt i (widthOf "intWidth" opts) h
    simp only [toNative, wrapI64_of_isInt64 i h] at htn
    cases htn; exact this
  simp only [jsonOf, htn, jsonLeaf, hty, hopts, hv, isWide_int]
  by_cases hgt : modelWidth opts > 32
  · have : ((modelWidth opts : Nat) : Int) > 32 := by omega
    simp [hgt, this]
  · have : ¬(((modelWidth opts : Nat) : Int) > 32) := by omega
    simp [hgt, this]

/-- A uint is a JSON number for a model width ≤ 32 and a JSON string of its digits for width 64. -/
theorem C17_json_uint (n : Nat) (opts : List Nat) (st : Bool) (h : isUint64 n = true) (hw : widthOK opts = true) :
    jsonOf (.scalar (.uint n)) opts st =
      .ok (some (.scalar (if modelWidth opts > 32 then .str (asciiBytes (fmtNat n)) else .num n))) := by
  have hn : n % two64 = n := Nat.mod_eq_of_lt (by simpa [isUint64] using h)
  have hv := tvUint_newUint n (widthOf "uintWidth" opts) h
  have hwd := widthOf_of_widthOK "uintWidth" fact_defaultWidth.2.1 opts hw
  simp only [jsonOf, toNative, hn, jsonLeaf]
  simp only [newUint, tvUint, natOfBE_natToBE, bigUint64_of_uint64 n h] at hv ⊢
  simp only [hwd, List.length_cons, List.length_nil, List.headD_cons, isWide_uint]
  by_cases hgt : modelWidth opts > 32
  · have : ((modelWidth opts : Nat) : Int) > 32 := by omega
    simp [hgt, this]
  · have : ¬(((modelWidth opts : Nat) : Int) > 32) := by omega
    simp [hgt, this]

/-- The digits are exactly the value's: reading the `%d` text back gives the integer
    (so the JSON number, and the JSON string for wide integers, denote the value set). -/
theorem C17_json_digits_exact (i : Int) : readInt (fmtInt i) = some i := readInt_fmtInt i

/-- … and the text of a JSON number token is that `%d` text. -/
theorem C17_json_number_text (i : Int) : jsonText (.scalar (.num i)) = some (asciiBytes (fmtInt i)) := rfl

/-- The text of the JSON string token of a wide integer is its `%d` text between double quotes:
    nothing in it needs escaping. -/
theorem C17_json_wide_int_text (i : Int) :
    jsonText (.scalar (.str (asciiBytes (fmtInt i)))) = some (34 :: (asciiBytes (fmtInt i) ++ [34])) := by
  simp only [jsonText, jsonScalarText, jsonQuote, jsonEscape_plain _ (fmtInt_plain i)]

/-- A bool is the JSON literal `true` / `false`. -/
theorem C17_json_bool (b : Bool) (opts : List Nat) (st : Bool) :
    jsonOf (.scalar (.bool b)) opts st = .ok (some (.scalar (.bool b))) := by
  cases b <;> cases st <;> rfl

/-- A string is a JSON string of the same bytes (escaped by `encoding/json`). -/
theorem C17_json_string (s : Bytes) (opts : List Nat) (st : Bool) :
    jsonOf (.scalar (.str s)) opts st = .ok (some (.scalar (.str s))) := rfl

/-- Bytes, full statement minus the stored-empty case: a JSON string holding the standard
    base64 text of the bytes, provided the value is not an empty byte string read back from a
    store. -/
theorem C17_json_bytes_partial (b : Bytes) (opts : List Nat) (st : Bool) (h : st = false ∨ b ≠ []) :
    jsonOf (.scalar (.bytes b)) opts st = .ok (some (.scalar (.str (base64 b)))) := by
  have : (st && b.isEmpty) = false := by
    cases h with
    | inl h => simp [h]
    | inr h => cases b with
      | nil => exact absurd rfl h
      | cons _ _ => simp
  simp only [jsonOf, toNative, newBytes, jsonLeaf, this]
  simp

/-- negation witness for stored empty bytes: rendered `null`, not `""`
    (known finding KF-C17-empty-bytes-null). -/
theorem C17_json_bytes_stored_empty_fails :
    jsonOf (.scalar (.bytes [])) [] true = .ok (some (.scalar .null)) := by
  decide

/-- base64 is exact: the standard decoder gives the bytes back. -/
theorem C17_json_base64_exact (b : Bytes) : unbase64 (base64 b) = some b := unbase64_base64 b

/-- decimal64, the part that holds: for precision 0..18 and a value that is not a negative
    fraction above -1, the JSON token is a string holding the decimal64 lexical form. -/
theorem C17_json_decimal_partial (d : Int) (p : Nat) (opts : List Nat) (st : Bool)
    (hd : isInt64 d = true) (hp : p ≤ 18) (hs : 0 ≤ d ∨ d ≤ -((10 ^ p : Nat) : Int)) :
    jsonOf (.scalar (.dec d p)) opts st = .ok (some (.scalar (.str (asciiBytes (decimalText d p))))) := by
  have hp' : p % 256 = p := Nat.mod_eq_of_lt (by omega)
  have hv := tvDecimal_newDecimal d p hd (by omega)
  have hr : precisionRefused p = false := by rw [fact_precisionRefused]; simp; omega
  simp only [jsonOf, toNative, hr, Bool.false_eq_true, if_false, hp', jsonLeaf]
  simp only [newDecimal] at hv ⊢
  simp only [hv, strDecimal64_eq_decimalText d p hd hp hs]
  simp

/-- the lexical form has exactly `p` fraction digits and its digits are those of `|d|`. -/
theorem C17_json_decimal_digits (d : Int) (p : Nat) (hp : 0 < p) :
    ∃ ip fp : List Char,
      decimalText d p = (if d < 0 then ['-'] else []) ++ ip ++ '.' :: fp ∧
      fp.length = p ∧ ip ≠ [] ∧ (ip ++ fp).all Char.isDigit = true ∧
      Nat.ofDigitChars 10 (ip ++ fp) 0 = d.natAbs :=
  decimalText_digits d p hp

/-- negation witness of the full decimal statement: digits = -5, precision = 2 (the value
    -0.05) is rendered `"0.05"` (known finding KF-C17-decimal-sign-lost). -/
theorem C17_json_decimal_sign_fails :
    jsonOf (.scalar (.dec (-5) 2)) [] false = .ok (some (.scalar (.str (asciiBytes "0.05".toList)))) ∧
    decimalText (-5) 2 = "-0.05".toList := by
  constructor
  · decide +kernel
  · decide

/-- Building the document never panics on a decimal a client set: a precision above 18 is
    refused before anything is stored, and for 0..18 the divisor `10^precision` is not zero
    (repaired: a precision of 64..255 used to reach `strDecimal64` and divide by
    `10^64 mod 2^64 = 0`; was KF-C17-decimal-precision-panic). -/
theorem C17_json_decimal_never_panics (d : Int) (p : Nat) (opts : List Nat) (st : Bool) :
    jsonOf (.scalar (.dec d p)) opts st ≠ .error .panic := by
  by_cases hp : p > 18
  · have hr : precisionRefused p = true := by rw [fact_precisionRefused]; simpa using hp
    simp [jsonOf, toNative, hr]
  · have hr : precisionRefused p = false := by rw [fact_precisionRefused]; simpa using hp
    have hp' : p % 256 = p := Nat.mod_eq_of_lt (by omega)
    have hq : (((p : Int) % 256).toNat) = p := by omega
    simp only [jsonOf, toNative, hr, Bool.false_eq_true, if_false, hp', jsonLeaf, newDecimal, tvDecimal,
      List.head?_cons, hq, Bool.true_and, if_true]
    by_cases hp0 : p = 0
    · subst hp0; simp [strDecimal64]
    · have hpw := pow10Wrap_eq (p - 1) (by omega)
      have hpos : 0 < 10 ^ (p - 1 + 1) := Nat.pow_pos (by decide)
      have hne : ¬(pow10Wrap (p - 1) = 0) := by rw [hpw]; omega
      simp [strDecimal64, hp0, hne]

/-! ### leaf-lists in the document -/

/-- An int leaf-list is an array of JSON numbers for a model width ≤ 32 and an array of JSON
    strings of the members' digits for width 64. -/
theorem C17_json_leaflist_int (xs : List Int) (opts : List Nat) (st : Bool) (hne : xs ≠ [])
    (h : ∀ x ∈ xs, isInt64 x = true) (hw : widthOK opts = true) :
    jsonOf (.leaflist (xs.map .int)) opts st =
      .ok (some (.arr (if modelWidth opts > 32 then xs.map fun x => .str (asciiBytes (fmtInt x))
                       else xs.map .num))) := by
  have hv := tvLLInt_newLLInt xs (llWidth (opts.headD 0 % 256)) h
  simp only [jsonOf, toNative, handleLeafList_ints _ _ hne, jsonLeaf]
  simp only [newLLInt, llWidth_of_widthOK opts hw] at hv ⊢
  simp only [hv, isWide_llint]
  by_cases hgt : modelWidth opts > 32
  · have : ((modelWidth opts : Nat) : Int) > 32 := by omega
    simp [hgt, this]
  · have : ¬(((modelWidth opts : Nat) : Int) > 32) := by omega
    simp [hgt, this]

/-- A uint leaf-list likewise. -/
theorem C17_json_leaflist_uint (xs : List Nat) (opts : List Nat) (st : Bool) (hne : xs ≠ [])
    (h : ∀ x ∈ xs, isUint64 x = true) (hw : widthOK opts = true) :
    jsonOf (.leaflist (xs.map .uint)) opts st =
      .ok (some (.arr (if modelWidth opts > 32 then xs.map fun x => .str (asciiBytes (fmtNat x))
                       else xs.map fun x => .num (x : Nat)))) := by
  have hv := tvLLUint_newLLUint xs (llWidth (opts.headD 0 % 256)) h
  simp only [jsonOf, toNative, handleLeafList_uints _ _ hne, jsonLeaf]
  simp only [newLLUint, llWidth_of_widthOK opts hw] at hv ⊢
  simp only [hv, isWide_lluint]
  by_cases hgt : modelWidth opts > 32
  · have : ((modelWidth opts : Nat) : Int) > 32 := by omega
    simp [hgt, this]
  · have : ¬(((modelWidth opts : Nat) : Int) > 32) := by omega
    simp [hgt, this]

/-- A bool leaf-list is an array of `true` / `false`. -/
theorem C17_json_leaflist_bool (xs : List Bool) (opts : List Nat) (st : Bool) (hne : xs ≠ []) :
    jsonOf (.leaflist (xs.map .bool)) opts st = .ok (some (.arr (xs.map .bool))) := by
  have hv := tvLLBool_newLLBool xs
  simp only [jsonOf, toNative, handleLeafList_bools _ _ hne, jsonLeaf]
  simp only [newLLBool] at hv ⊢
  simp only [hv]

/-- A string leaf-list without 0x1D in its members is an array of JSON strings of the members. -/
theorem C17_json_leaflist_string_partial (xs : List (Bool × Bytes)) (opts : List Nat) (st : Bool) (hne : xs ≠ [])
    (h : no1D (xs.map (·.2)) = true) :
    jsonOf (.leaflist (xs.map strScalar)) opts st = .ok (some (.arr ((xs.map (·.2)).map .str))) := by
  simp only [jsonOf, toNative, handleLeafList_strs _ _ hne, jsonLeaf, newLLString, tvLLString]
  rw [splitGS_joinGS _ (by simpa using hne) h]

/-- A bytes leaf-list without empty members is an array of JSON strings holding the members'
    base64 texts. -/
theorem C17_json_leaflist_bytes_partial (xs : List Bytes) (opts : List Nat) (st : Bool) (hne : xs ≠ [])
    (h : noEmptyMember xs = true) (hlen : ∀ v ∈ xs, v.length < 2147483648) :
    jsonOf (.leaflist (xs.map .bytes)) opts st = .ok (some (.arr (xs.map fun b => .str (base64 b)))) := by
  simp only [jsonOf, toNative, handleLeafList_bytess _ _ hne, jsonLeaf]
  rw [tvLLBytes_newLLBytes xs hne h hlen]; rfl

/-- A decimal64 leaf-list is *not* rendered as decimal strings: `handleLeafValue` stores Go
    float64s (`ListFloat`), whatever `jsonRFC7951` says (known finding KF-C17-lldecimal-float;
    the text of a Go float is outside the twin). -/
theorem C17_json_leaflist_decimal_is_float (ds : List Int) (p : Nat) (opts : List Nat) (st : Bool) (hne : ds ≠ [])
    (h : ∀ d ∈ ds, isInt64 d = true) (hp : p ≤ 18) :
    jsonOf (.leaflist (ds.map fun d => .dec d p)) opts st = .ok (some .floatText) := by
  have hp' : p % 256 = p := Nat.mod_eq_of_lt (by omega)
  have hv := tvLLDecimal_newLLDecimal ds p h (by omega)
  simp only [jsonOf, toNative, handleLeafList_decs _ _ _ hne hp, hp', jsonLeaf]
  simp only [newLLDecimal] at hv ⊢
  simp only [hv]; rfl

/-- A scalar float is rendered through `%f` (a string of a Go float: outside the twin; the
    correspondence monitor reads the real text — known finding KF-C17-float-percent-f). -/
theorem C17_json_float_is_float_text (f : Nat) (opts : List Nat) (st : Bool) (hn : isNaN32 f = false) :
    jsonOf (.scalar (.float f)) opts st = .ok (some .floatText) := by
  simp [jsonOf, toNative, hn, jsonLeaf, newFloat]

/-! ## non-vacuity: the hypotheses are satisfied by concrete boundary values -/

example : scalarOK (.int (-9223372036854775808)) = true := by decide
example : scalarOK (.int 9223372036854775807) = true := by decide
example : scalarOK (.uint 18446744073709551615) = true := by decide
example : scalarOK (.str []) = true ∧ scalarOK (.bytes []) = true := by decide
example : scalarOK (.dec (-9223372036854775808) 18) = true := by decide
example : scalarOK (.float 0x7F7FFFFF) = true ∧ scalarOK (.float 1) = true ∧ scalarOK (.float 0xFF800000) = true := by decide
example : roundTrip (.scalar (.int (-9223372036854775808))) [64] = .ok (.scalar (.int (-9223372036854775808))) :=
  C17_roundtrip_scalar _ _ (by decide)
example : roundTrip (.scalar (.uint 18446744073709551615)) [64] = .ok (.scalar (.uint 18446744073709551615)) :=
  C17_roundtrip_scalar _ _ (by decide)
example : leafListOK [.int (-9223372036854775808), .int 0, .int 9223372036854775807] = true := by decide
example : leafListOK [.str [], .ascii [97], .str []] = true := by decide
example : leafListOK [.bytes [0], .bytes [1, 2, 3]] = true := by decide
example : leafListOK [.dec (-5) 2, .dec 123456 2] = true := by decide
example : leafListOK [.float 0x3DCCCCCD, .float 0x80000000] = true := by decide
example : widthOK [64] = true ∧ widthOK [] = true ∧ widthOK [8] = true := by decide
example : noEmptyMember [[1], [2, 3]] = true ∧ no1D [[], [97]] = true := by decide
example : (true = false ∨ ([1] : Bytes) ≠ []) ∧ (false = false ∨ ([] : Bytes) ≠ []) := by decide
example : (0 : Int) ≤ 5 ∨ (5 : Int) ≤ -((10 ^ 2 : Nat) : Int) := Or.inl (by decide)
example : jsonOf (.scalar (.int 9223372036854775807)) [64] true =
    .ok (some (.scalar (.str (asciiBytes "9223372036854775807".toList)))) := by
  rw [C17_json_int _ _ _ (by decide) (by decide)]; decide
example : jsonOf (.scalar (.dec (-12345) 2)) [] false = .ok (some (.scalar (.str (asciiBytes "-123.45".toList)))) := by
  rw [C17_json_decimal_partial _ _ _ _ (by decide) (by decide) (Or.inr (by decide))]; decide

end OnosVerif.Props.C17
