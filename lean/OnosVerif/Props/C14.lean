/-
C14 — only members of an admin group may change configuration.

Property theorems only (helper lemmas: OnosVerif/Proofs/Rbac.lean).  The twin
(OnosVerif/Rbac/Model.lean) *interprets* the decision structure that the translator extracts from
the current Go sources (`OnosVerif.Generated`: which strings `TemporaryEvaluate` compares and how,
the no-identity guard, the place of the check in `Set`, the filter of `reportAllTargets`), so every
theorem below is re-checked against what the code says now; the twin is tied to the running code by
the correspondence check `harness/props/c14`.

Vocabulary (OnosVerif/Rbac/Spec.lean): `IsAdminGroup setting g` — `g` is a non-empty entry of the
`ADMINGROUPS` setting (entries separated by `,` `;` or blank), stated on the text of the setting,
not through the code's parser; `callerGroups md` — the `groups` metadata value split on `;`;
`identityPresent md` — `name`, `preferred_username` or `groups` is non-empty; `mdWF md` — no key
carries an empty value list (always true of metadata that crossed gRPC).
-/
import OnosVerif.Proofs.Rbac

namespace OnosVerif.Props.C14
open OnosVerif.Rbac OnosVerif.ErrTable

/-- Closed form: whenever `TemporaryEvaluate` answers at all, it permits exactly when the request
    carries no identity, or some caller group equals some administrator entry. -/
theorem C14_closed_form (setting : Str) (md : MD) (v : Verdict)
    (h : temporaryEvaluate setting md = .ok v) :
    v = if identityPresent md then
          (if (callerGroups md).any (isAdminGroup setting) then Verdict.permit
           else Verdict.refuse (some Code.unauthenticated))
        else Verdict.permit :=
  temporaryEvaluate_ok setting md v h

/-- The code's parse of `ADMINGROUPS` yields exactly the administrator groups of the specification. -/
theorem C14_admin_entries_exact (setting g : Str) :
    isAdminGroup setting g = true ↔ IsAdminGroup setting g :=
  isAdminGroup_iff setting g

/-- The code's split of a `groups` value yields exactly its `;`-delimited pieces. -/
theorem C14_caller_groups_exact (gv g : Str) :
    g ∈ splitOn ';' gv ↔ IsPiece (fun c => c == ';') g gv :=
  splitBy_mem_iff _ g gv

/-- Permit only members (full): with identity metadata present, a permitted evaluation has a
    caller group that is *exactly* one of the configured administrator groups. -/
theorem C14_permit_only_members (setting : Str) (md : MD) (hi : identityPresent md = true)
    (h : temporaryEvaluate setting md = .ok .permit) :
    ∃ g ∈ callerGroups md, IsAdminGroup setting g := by
  have hc := temporaryEvaluate_ok setting md _ h
  simp only [closedVerdict, hi, if_true] at hc
  by_cases ha : (callerGroups md).any (isAdminGroup setting) = true
  · obtain ⟨g, hg, hga⟩ := List.any_eq_true.mp ha
    exact ⟨g, hg, (isAdminGroup_iff setting g).mp hga⟩
  · simp [ha] at hc

/-- Never a panic, never an undecided answer on metadata that crossed gRPC. -/
theorem C14_total (setting : Str) (md : MD) (h : mdWF md = true) :
    ∃ v, temporaryEvaluate setting md = .ok v :=
  ⟨_, temporaryEvaluate_closed setting md h⟩

/-- Non-members are refused with `Unauthenticated`: identity present and no caller group among
    the administrator groups. -/
theorem C14_nonmember_refused (setting : Str) (md : MD) (hw : mdWF md = true)
    (hi : identityPresent md = true) (hn : ∀ g ∈ callerGroups md, ¬ IsAdminGroup setting g) :
    temporaryEvaluate setting md = .ok (.refuse (some Code.unauthenticated)) := by
  rw [temporaryEvaluate_closed setting md hw]
  have : (callerGroups md).any (isAdminGroup setting) = false := by
    rw [Bool.eq_false_iff]
    intro ha
    obtain ⟨g, hg, hga⟩ := List.any_eq_true.mp ha
    exact hn g hg ((isAdminGroup_iff setting g).mp hga)
  simp [hi, this]

/-- A caller with a name but no groups (absent or empty value) is refused, whatever the setting. -/
theorem C14_no_groups_refused (setting : Str) (md : MD) (hw : mdWF md = true)
    (hi : identityPresent md = true) (hg : firstValue md kGroups = []) :
    temporaryEvaluate setting md = .ok (.refuse (some Code.unauthenticated)) := by
  apply C14_nonmember_refused setting md hw hi
  intro g hgm
  have : g = [] := by simpa [callerGroups, hg, splitOn, splitBy, splitAux] using hgm
  intro h
  exact h.1 this

/-- Look-alikes are refused: when the setting names the single group `a`, a caller whose only
    group `g` differs from `a` — a substring, a superstring, a different case, anything — is refused. -/
theorem C14_lookalike_refused (a g : Str) (md : MD) (hw : mdWF md = true)
    (ha : ∀ c ∈ a, isAdminSep c = false) (hne : g ≠ a)
    (hi : identityPresent md = true) (hgv : firstValue md kGroups = g) (hg : ∀ c ∈ g, (c == ';') = false) :
    temporaryEvaluate a md = .ok (.refuse (some Code.unauthenticated)) := by
  apply C14_nonmember_refused a md hw hi
  intro g' hg' hadm
  have h1 : g' = g := by
    have : splitOn ';' g = [g] := splitBy_free _ g hg
    simpa [callerGroups, hgv, this] using hg'
  subst h1
  have h2 : isAdminGroup a g' = true := (isAdminGroup_iff a g').mpr hadm
  have h3 : splitBy isAdminSep a = [a] := splitBy_free _ a ha
  simp only [isAdminGroup, fieldsFunc, h3, List.contains_iff_mem, List.mem_filter, List.mem_singleton] at h2
  exact hne h2.1

/-- Members are permitted (the check is not vacuous the other way round). -/
theorem C14_member_permitted (setting : Str) (md : MD) (hw : mdWF md = true)
    (g : Str) (hg : g ∈ callerGroups md) (ha : IsAdminGroup setting g) :
    temporaryEvaluate setting md = .ok .permit := by
  rw [temporaryEvaluate_closed setting md hw]
  have : (callerGroups md).any (isAdminGroup setting) = true :=
    List.any_eq_true.mpr ⟨g, hg, (isAdminGroup_iff setting g).mpr ha⟩
  cases identityPresent md <;> simp [this]

/-- Requests without any identity metadata are not subject to the check (authentication off). -/
theorem C14_skipped_without_identity (setting : Str) (md : MD) (hw : mdWF md = true)
    (hi : identityPresent md = false) : temporaryEvaluate setting md = .ok .permit := by
  rw [temporaryEvaluate_closed setting md hw]; simp [hi]

/-- Only the first value stored under a key counts: two well-formed metadata that agree on the
    first values of `name`, `preferred_username` and `groups` get the same verdict. -/
theorem C14_first_value_only (setting : Str) (md md' : MD) (hw : mdWF md = true) (hw' : mdWF md' = true)
    (h1 : firstValue md kName = firstValue md' kName) (h2 : firstValue md kUser = firstValue md' kUser)
    (h3 : firstValue md kGroups = firstValue md' kGroups) :
    temporaryEvaluate setting md = temporaryEvaluate setting md' := by
  rw [temporaryEvaluate_closed setting md hw, temporaryEvaluate_closed setting md' hw']
  simp [identityPresent, callerGroups, h1, h2, h3]

/-- The metadata view: behind `FromIncomingContext` a key is read under its lower-cased form
    whatever its case on arrival — `Groups: x` and `groups: x` are the same caller group list. -/
theorem C14_metadata_keys_case_insensitive (raw : MD) (key : Str)
    (hnd : (raw.map (fun kv => toLower kv.1)).Nodup) :
    mdLookup (fromIncoming raw) key = (raw.find? (fun kv => decide (toLower kv.1 = key))).map (·.2) :=
  mdLookup_fromIncoming raw key hnd

/-! ### the check inside `Set` -/

/-- A refused `Set` logs nothing: the status is `Unauthenticated`, no transaction is appended and
    no call on the server's stores, topology or plugin registry was made — for every rest of the
    handler.  (Depends on the extracted position of the check in `Set`.) -/
theorem C14_refused_logs_nothing (setting : Str) (md : MD) (rest : Str → Rest) (r : SetResult)
    (c : Option Code) (h : setHandler setting md rest = .ok r) (ho : r.outcome = .refused c) :
    c = some Code.unauthenticated ∧ r.appended = 0 ∧ r.serverCalls = 0 := by
  obtain ⟨hr, _⟩ := setHandler_refused setting md rest r c h ho
  subst hr
  simp at ho
  exact ⟨ho.symm, rfl, rfl⟩

/-- `Set` gets past the check only for members: identity present and the handler went on ⇒ some
    caller group is exactly an administrator group. -/
theorem C14_set_permit_only_members (setting : Str) (md : MD) (rest : Str → Rest) (r : SetResult)
    (u : Str) (h : setHandler setting md rest = .ok r) (ho : r.outcome = .passed u)
    (hi : identityPresent md = true) : ∃ g ∈ callerGroups md, IsAdminGroup setting g :=
  C14_permit_only_members setting md hi (setHandler_passed setting md rest r u h ho).1

/-- `Set` refuses every non-member before doing anything. -/
theorem C14_set_nonmember_refused (setting : Str) (md : MD) (rest : Str → Rest) (hw : mdWF md = true)
    (hi : identityPresent md = true) (hn : ∀ g ∈ callerGroups md, ¬ IsAdminGroup setting g) :
    setHandler setting md rest =
      .ok { outcome := .refused (some Code.unauthenticated), serverCalls := 0, appended := 0 } := by
  rw [setHandler_unfold, touchKeys_wf md hw, userName_wf md hw, C14_nonmember_refused setting md hw hi hn]
  rfl

/-- The user recorded with the transaction is `preferred_username`, or `name` when that is empty. -/
theorem C14_set_user_name (setting : Str) (md : MD) (rest : Str → Rest) (r : SetResult) (u : Str)
    (hw : mdWF md = true) (h : setHandler setting md rest = .ok r) (ho : r.outcome = .passed u) :
    u = if firstValue md kUser = [] then firstValue md kName else firstValue md kUser := by
  have := (setHandler_passed setting md rest r u h ho).2.1
  rw [userName_wf md hw] at this
  exact (Except.ok.inj this).symm

/-! ### behind the authentication interceptor -/

/-- Behind `AuthenticationInterceptor` (the part that holds): if the client itself sent no `groups`
    metadata, a `Set` that gets past the check has an administrator group among the groups named
    by the *verified token*. -/
theorem C14_token_permit_only_members_partial (setting : Str) (client : MD) (claims : List (Str × Claim))
    (rest : Str → Rest) (r : SetResult) (u : Str)
    (hclean : mdLookup client kGroups = none)
    (h : setHandler setting (authIncoming client claims) rest = .ok r) (ho : r.outcome = .passed u)
    (hi : identityPresent (authIncoming client claims) = true) :
    ∃ g ∈ tokenGroups claims, IsAdminGroup setting g := by
  obtain ⟨g, hg, ha⟩ := C14_set_permit_only_members setting _ rest r u h ho hi
  refine ⟨g, ?_, ha⟩
  have hne : firstValue (authIncoming client claims) kGroups ≠ [] := by
    intro h0
    have : g = [] := by simpa [callerGroups, h0, splitOn, splitBy, splitAux] using hg
    exact ha.1 this
  have hm := firstValue_mem _ _ hne
  rcases valuesAt_authIncoming claims client _ hm with h1 | h1
  · simp [valuesAt, hclean] at h1
  · rw [tokenGroups_eq]
    exact List.mem_flatMap.mpr ⟨_, h1, hg⟩

def witnessClient : MD := [(kGroups, ["AetherROCAdmin".toList])]
def witnessClaims : List (Str × Claim) :=
  [(kName, .str "bob".toList), (kGroups, .list ["users".toList])]
def witnessSetting : Str := "AetherROCAdmin,EnterpriseAdmin".toList

/-- Negation witness for the full statement (any client metadata): a caller whose verified token
    names only the group `users` sends the header `groups: AetherROCAdmin`; the interceptor *appends*
    the token's groups after it, `Get` reads the first value, and `Set` goes ahead.
    Known finding KF-C14-client-groups-header (replayed on the real interceptor + handler). -/
theorem C14_token_permit_full_fails :
    ¬ (∀ (setting : Str) (client : MD) (claims : List (Str × Claim)) (rest : Str → Rest) (r : SetResult) (u : Str),
        setHandler setting (authIncoming client claims) rest = .ok r → r.outcome = .passed u →
        identityPresent (authIncoming client claims) = true →
        ∃ g ∈ tokenGroups claims, isAdminGroup setting g = true) := by
  intro hall
  have h := hall witnessSetting witnessClient witnessClaims (fun _ => ⟨4, 1⟩)
    { outcome := .passed "bob".toList, serverCalls := 4, appended := 1 } "bob".toList
    (by decide) rfl (by decide)
  revert h
  decide

/-! ### listing all targets -/

/-- Under authorization (`OIDC_SERVER_URL` set) a target is listed exactly when it is a configurable
    entity and one of the caller's groups equals its id or the ROC administrator group. -/
theorem C14_listing_filtered (oidc : Str) (rocEnv : Option Str) (groups entities : List Str) (id : Str)
    (ho : oidc ≠ []) :
    id ∈ reportAllTargets oidc rocEnv groups entities ↔
      id ∈ entities ∧ ∃ g ∈ groups, g = id ∨ g = rocAdmin rocEnv := by
  rw [reportAllTargets_facts]
  simp only [ho, ne_eq, not_false_eq_true, if_true, List.mem_filter, List.any_eq_true, Bool.or_eq_true, beq_iff_eq]
  constructor
  · rintro ⟨h1, g, hg, h2⟩
    exact ⟨h1, g, hg, h2.imp Eq.symm (fun h => h)⟩
  · rintro ⟨h1, g, hg, h2⟩
    exact ⟨h1, g, hg, h2.imp Eq.symm (fun h => h)⟩

/-- The listing never invents, reorders or duplicates targets: it is a sublist of the entity list. -/
theorem C14_listing_sublist (oidc : Str) (rocEnv : Option Str) (groups entities : List Str) :
    List.Sublist (reportAllTargets oidc rocEnv groups entities) entities := by
  rw [reportAllTargets_facts]
  split
  · exact List.filter_sublist
  · exact List.Sublist.refl _

/-- A caller without groups (in particular one without a `name`) is shown nothing under authorization. -/
theorem C14_listing_no_groups (oidc : Str) (rocEnv : Option Str) (entities : List Str) (ho : oidc ≠ []) :
    reportAllTargets oidc rocEnv [] entities = [] := by
  rw [reportAllTargets_facts]; simp [ho]

/-- The ROC-admin group has a name: the default `AetherROCAdmin`, or the value of the environment
    variable of that name when it is non-empty — never the empty string, whether the variable is
    unset, set, or set but empty.  (Depends on how the override is read: `os.Getenv … != ""`.) -/
theorem C14_roc_admin_named (rocEnv : Option Str) :
    rocAdmin rocEnv ≠ [] ∧
    rocAdmin none = Generated.aetherROCAdmin.toList ∧ rocAdmin (some []) = Generated.aetherROCAdmin.toList ∧
    (∀ v, v ≠ [] → rocAdmin (some v) = v) := by
  refine ⟨rocAdmin_ne_nil rocEnv, by decide, by decide, ?_⟩
  intro v hv
  rw [rocAdmin_facts]; simp [hv]

/-- Under authorization a caller is shown only targets named by a *real* (non-empty) group of its
    own, unless a real group of its own is the ROC-admin group: the empty entries that
    `strings.Split` yields for an absent / empty `groups` value or a trailing `;` open nothing —
    whatever the override variable holds, including "defined but empty". -/
theorem C14_listing_only_real_groups (oidc : Str) (rocEnv : Option Str) (groups entities : List Str) (id : Str)
    (ho : oidc ≠ []) (hid : ∀ e ∈ entities, e ≠ [])
    (h : id ∈ reportAllTargets oidc rocEnv groups entities) :
    ∃ g ∈ groups, g ≠ [] ∧ (g = id ∨ g = rocAdmin rocEnv) := by
  obtain ⟨hmem, g, hg, hor⟩ := (C14_listing_filtered oidc rocEnv groups entities id ho).mp h
  refine ⟨g, hg, ?_, hor⟩
  rcases hor with h1 | h1
  · rw [h1]; exact hid id hmem
  · rw [h1]; exact rocAdmin_ne_nil rocEnv

/-- A caller without any real group (no `groups` value, an empty one, only separators) is shown
    nothing under authorization. -/
theorem C14_listing_groupless_sees_nothing (oidc : Str) (rocEnv : Option Str) (groups entities : List Str)
    (ho : oidc ≠ []) (hid : ∀ e ∈ entities, e ≠ []) (hg : ∀ g ∈ groups, g = []) :
    reportAllTargets oidc rocEnv groups entities = [] := by
  apply List.eq_nil_iff_forall_not_mem.mpr
  intro id hin
  obtain ⟨g, hgm, hne, _⟩ := C14_listing_only_real_groups oidc rocEnv groups entities id ho hid hin
  exact hne (hg g hgm)

/-- Without authorization every configurable entity is listed. -/
theorem C14_listing_open (rocEnv : Option Str) (groups entities : List Str) :
    reportAllTargets [] rocEnv groups entities = entities := by
  rw [reportAllTargets_facts]; simp

/-- `Get` gives a caller groups only when `name` is present: otherwise the group list is empty. -/
theorem C14_get_groups_need_name (md : MD) (hw : mdWF md = true) (hn : firstValue md kName = []) :
    getGroups md = .ok [] := by
  unfold getGroups
  have hk : Generated.getGroupsGuardKey.toList = kName := by decide
  rw [hk, mdGet_wf md hw kName lower_name, hn]
  rfl

/-! ### non-vacuity: concrete non-trivial inputs satisfy the hypotheses -/

def sampleSetting : Str := "AetherROCAdmin, EnterpriseAdmin;ops".toList
def sampleMember : MD :=
  [(kName, ["alice".toList]), (kEmail, ["a@x".toList]), (kGroups, ["users;EnterpriseAdmin".toList])]
def sampleLookalike : MD := [(kName, ["eve".toList]), (kGroups, ["Admin;ROC;EnterpriseAdmin2;".toList])]
def sampleNoGroups : MD := [(kUser, ["carol".toList])]

example : mdWF sampleMember = true ∧ identityPresent sampleMember = true := by decide
example : temporaryEvaluate sampleSetting sampleMember = .ok .permit := by decide
example : isAdminGroup sampleSetting "EnterpriseAdmin".toList = true := by decide
example : mdWF sampleLookalike = true ∧ identityPresent sampleLookalike = true ∧
    (callerGroups sampleLookalike).all (fun g => !isAdminGroup sampleSetting g) = true := by decide
example : temporaryEvaluate sampleSetting sampleLookalike = .ok (.refuse (some Code.unauthenticated)) := by decide
example : temporaryEvaluate "AetherROCAdmin".toList [(kName, ["eve".toList]), (kGroups, ["Admin".toList])] =
    .ok (.refuse (some Code.unauthenticated)) :=
  C14_lookalike_refused "AetherROCAdmin".toList "Admin".toList _ (by decide) (by decide) (by decide) (by decide) rfl (by decide)
example : mdWF sampleNoGroups = true ∧ identityPresent sampleNoGroups = true ∧
    firstValue sampleNoGroups kGroups = [] := by decide
example : identityPresent [("x-trace".toList, ["1".toList])] = false := by decide
example : ([("Name".toList, ["bob".toList]), ("GROUPS".toList, ["ops".toList])].map (fun kv => toLower kv.1)).Nodup ∧
    callerGroups (fromIncoming [("Name".toList, ["bob".toList]), ("GROUPS".toList, ["ops".toList])]) = ["ops".toList] := by decide
example : setHandler sampleSetting sampleLookalike (fun _ => ⟨4, 1⟩) =
    .ok { outcome := .refused (some Code.unauthenticated), serverCalls := 0, appended := 0 } := by decide
example : mdLookup [("authorization".toList, ["bearer x".toList])] kGroups = none := by decide
example : reportAllTargets "http://dex".toList none ["acme".toList] ["acme".toList, "starbucks".toList] =
    ["acme".toList] := by decide
example : reportAllTargets "http://dex".toList (some []) ["AetherROCAdmin".toList] ["acme".toList, "starbucks".toList] =
    ["acme".toList, "starbucks".toList] := by decide
example : reportAllTargets "http://dex".toList (some []) (splitOn ';' "acme;".toList) ["acme".toList, "starbucks".toList] =
    ["acme".toList] := by decide
example : (∀ e ∈ ["acme".toList, "starbucks".toList], e ≠ []) ∧ (∀ g ∈ splitOn ';' ([] : Str), g = []) := by decide

end OnosVerif.Props.C14
