/-
Tie of the v2 twin to the current sources of pkg/controller/v2/{proposal,transaction,configuration,mastership}
(for C01 C02 C04 C05 C06 C07 C09 C10 C11): every reconcile function of these controllers is
regenerated on every run as a Lean function `Generated.v2sk_*` (its trace — tracked assignments,
store writes / southbound requests, the return — as a function of an abstract state), and the twin's
plan for the same function is proved equal to it, for EVERY state:

    proj (v2sk_f (g state)) = planTrace (twin_f state)

`g` presents the state the twin reads as the abstract state (`OnosVerif/V2/Skel.lean`: which Go
operand is which field of the twin's records; which conditions hold because of the environment the
twin assumes), `proj` keeps the protocol part of a trace, `planTrace` writes a twin plan as the
assignments and write calls it stands for.  A guard that changes (`==` to `<=`, a dropped conjunct, a
swapped field), a write that is dropped, added or re-ordered, a re-queue that is dropped or names
another proposal, a status field assigned another value: each changes the regenerated function, and
the theorem below for that function no longer checks.  What the tie does not see: the values moved
by the `plumbing` assignments (value-path twin and its correspondence), iteration counts of loops,
the SERIALIZABLE-wait loops and the initialisation loop of the transaction controller beyond the first
iteration (the four phase loops are tied for any number of proposals, see below; the creation of proposals is covered for a change of one
target, rollback transactions' creation of proposals by correspondence only).
-/
import OnosVerif.Proofs.V2SkelProp
import OnosVerif.Proofs.V2SkelCfg
import OnosVerif.Proofs.V2SkelTx
import OnosVerif.Proofs.V2SkelSource
import OnosVerif.Proofs.V2SkelLoop

namespace OnosVerif.Props.V2Skel
open OnosVerif.Generated OnosVerif.V2 OnosVerif.V2.Skel

/-- reconcileProposal: the phase dispatch -/
theorem V2_skel_prop_dispatch (s : Sys) (p : Proposal) (env : Env) (o : Option Proposal) :
    v2sk_prop_dispatch (gProp s p o env) =
      if p.apply ≠ .none then [.call "r.reconcileApply", .ret "call" []]
      else if p.abort ≠ .none then [.call "r.reconcileAbort", .ret "call" []]
      else if p.commit ≠ .none then [.call "r.reconcileCommit", .ret "call" []]
      else if p.validate ≠ .none then [.call "r.reconcileValidate", .ret "call" []]
      else if p.init ≠ .none then [.call "r.reconcileInitialize", .ret "call" []]
      else planTraceProp (p.target, p.index) default
        { effects := [.prop (p.target, p.index) p.version .openInit] } :=
  skel_prop_dispatch s p env o

/-- reconcileInitialize (proposal): configuration creation, the chain links, `Proposed.Index` -/
theorem V2_skel_prop_initialize (s : Sys) (p : Proposal) (env : Env) (hph : p.init ≠ .none) :
    proj (v2sk_prop_initialize (gProp s p (s.prop? (p.target, ((s.cfg? p.target).getD default).proposed)) env)) =
      planTraceProp (p.target, p.index) ((s.cfg? p.target).getD default) (propInitialize s p) :=
  skel_prop_initialize s p env hph

/-- reconcileValidate (proposal): wait for the predecessor's commit, plugin verdict, rollback legality -/
theorem V2_skel_prop_validate (s : Sys) (p : Proposal) (env : Env)
    (hph : p.validate ≠ .none) (hprev : p.prev ≠ p.index) :
    proj (v2sk_prop_validate (gProp s p (s.prop? (p.target, p.rollbackOf)) env)) =
      planTraceProp (p.target, p.index) ((s.cfg? p.target).getD default) (propValidate s p env) :=
  skel_prop_validate s p env hph hprev

/-- reconcileCommit (proposal): merge iff `Committed.Index = PrevIndex`, then COMMITTED; wake the successor -/
theorem V2_skel_prop_commit (s : Sys) (p : Proposal) (env : Env) (o : Option Proposal)
    (hph : p.commit ≠ .none) (hnext : p.next ≠ p.index) :
    proj (v2sk_prop_commit (gProp s p o env)) =
      planTraceProp (p.target, p.index) ((s.cfg? p.target).getD default) (propCommit s p env) :=
  skel_prop_commit s p env o hph hnext

/-- reconcileAbort (proposal): the three cursor cases -/
theorem V2_skel_prop_abort (s : Sys) (p : Proposal) (env : Env) (o : Option Proposal)
    (hph : p.abort ≠ .none) (hnext : p.next ≠ p.index) :
    proj (v2sk_prop_abort (gProp s p o env)) =
      planTraceProp (p.target, p.index) ((s.cfg? p.target).getD default) (propAbort s p) :=
  skel_prop_abort s p env o hph hnext

/-- reconcileApply (proposal), accepted or refused request: cursor guards, synchronisation and
    mastership guards, the request, `Applied.Index` before the proposal's own status -/
theorem V2_skel_prop_apply (s : Sys) (p : Proposal) (env : Env) (o : Option Proposal)
    (hph : p.apply ≠ .none) (hprev : p.prev ≠ p.index) (hnext : p.next ≠ p.index)
    (hd : env.dev = .ok ∨ ∃ f, env.dev = .fail f) :
    proj (v2sk_prop_apply (gProp s p o env)) =
      planTraceProp (p.target, p.index) ((s.cfg? p.target).getD default) (propApply s p env) :=
  skel_prop_apply s p env o hph hprev hnext hd

/-- reconcileApply (proposal), transient answer: equal up to the request itself, which the twin does
    not record for an answer that changes nothing -/
theorem V2_skel_prop_apply_transient (s : Sys) (p : Proposal) (env : Env) (o : Option Proposal)
    (hph : p.apply ≠ .none) (hprev : p.prev ≠ p.index) (hnext : p.next ≠ p.index)
    (hd : env.dev = .retry ∨ env.dev = .wait) :
    proj (v2sk_prop_apply (gProp s p o env)) =
      planTraceProp (p.target, p.index) ((s.cfg? p.target).getD default) (propApply s p env) ∨
    proj (v2sk_prop_apply (gProp s p o env)) =
      .write "conn.Set" :: planTraceProp (p.target, p.index) ((s.cfg? p.target).getD default) (propApply s p env) :=
  skel_prop_apply_transient s p env o hph hprev hnext hd

/-- updateProposalStatus swallows NotFound and Conflict -/
theorem V2_skel_prop_updateStatus (g : V2G) :
    proj (v2sk_prop_updateStatus g) =
      .write "r.proposals.UpdateStatus" ::
        (if g.b "err@r.proposals.UpdateStatus#1" &&
            !(g.b "errors.IsNotFound(err)@r.proposals.UpdateStatus#1") &&
            !(g.b "errors.IsConflict(err)@r.proposals.UpdateStatus#1") then [.ret "err" []] else [.ret "nil" []]) :=
  skel_prop_updateStatus g

/-- reconcileConfiguration: PERSISTED for persistent targets; SYNCHRONIZING on a term increase;
    re-send what is recorded as applied, then SYNCHRONIZED in the new term -/
theorem V2_skel_cfg_reconcile (s : Sys) (t : Tgt) (c : Cfg) (env : Env) (hc : s.cfg? t = some c)
    (hok : env.syncOk ≥ (permute env.ordU (groupByIndex c.aview)).length ∨ env.dev = .ok)
    (hne : c.applied ≠ 0 → groupByIndex c.aview ≠ []) :
    proj (v2sk_cfg_reconcile (gCfgOf c (s.rel? c.master) env false)) =
      planTraceCfg c (c.applied == 0) (cfgReconcile s t env) :=
  skel_cfg_reconcile s t c env hc hok hne

/-- reconcileConfiguration, first re-synchronisation request not accepted: the invocation ends with
    the error (or nil for the superseded-master refusal) and writes nothing — it does not report the
    configuration SYNCHRONIZED -/
theorem V2_skel_cfg_reconcile_refused (s : Sys) (t : Tgt) (c : Cfg) (env : Env) (rel : Rel) (hc : s.cfg? t = some c)
    (hp : env.persistent = false) (h1 : c.state = .synchronizing) (h2 : c.master ≠ 0) (h3 : c.applied ≠ 0)
    (hr : s.rel? c.master = some rel) (hconn : rel.conn = true)
    (hs : env.syncOk = 0) (hd : env.dev ≠ .ok) (hne : groupByIndex c.aview ≠ []) :
    proj (v2sk_cfg_reconcile (gCfgOf c (s.rel? c.master) env true)) =
      .write "conn.Set" :: planTraceCfg c false (cfgReconcile s t env) :=
  skel_cfg_reconcile_refused s t c env rel hc hp h1 h2 h3 hr hconn hs hd hne

/-- the mastership Reconcile -/
theorem V2_skel_mast_reconcile (s : Sys) (t : Tgt) (env : Env) :
    proj (v2sk_mast_reconcile (gMastOf ((s.cfg? t).getD default) (s.cfg? t).isNone
        ((s.rels.filter (fun r => r.target = t)).any (fun r => r.id = ((s.cfg? t).getD default).master))
        (s.rels.filter (fun r => r.target = t)).length)) =
      .misc "defer" :: planTraceMast ((s.cfg? t).getD default) (mastReconcile s t env) :=
  skel_mast_reconcile s t env

/-! ### the transaction reconciler, for transactions that list one proposal -/

theorem V2_skel_tx_dispatch (t : Tx) (p : Proposal) (q : Tx) (b1 b2 : Bool) :
    v2sk_tx_dispatch (gTxOf t b1 p b2 q) =
      if t.apply ≠ .none then [.call "r.reconcileApply", .ret "call" []]
      else if t.abort ≠ .none then [.call "r.reconcileAbort", .ret "call" []]
      else if t.commit ≠ .none then [.call "r.reconcileCommit", .ret "call" []]
      else if t.validate ≠ .none then [.call "r.reconcileValidate", .ret "call" []]
      else if t.init ≠ .none then [.call "r.reconcileInitialize", .ret "call" []]
      else planTraceTx { effects := [.tx t.index t.version .openInit] } :=
  skel_tx_dispatch t p q b1 b2

/-- VALIDATING: open the phase on a proposal that has not got it, fail on a failed one, close the
    phase when the proposal is validated, wait while it is validating -/
theorem V2_skel_tx_validate_loop (t : Tx) (p : Proposal) (q : Tx) (b : Bool) (h : t.validate = .opened) :
    proj (v2sk_tx_validate (gTxOf t false p b q)) =
      flagToks "allValidated" p.validate ++ planTraceTx (txValidateLoop t [p] true) :=
  skel_tx_validate_loop t p q b h

theorem V2_skel_tx_commit_loop (t : Tx) (p : Proposal) (q : Tx) (b : Bool) (h : t.commit = .opened) :
    proj (v2sk_tx_commit (gTxOf t false p b q)) =
      flagToks "allCommitted" p.commit ++ planTraceTx (txCommitLoop t [p] true) :=
  skel_tx_commit_loop t p q b h

theorem V2_skel_tx_apply_loop (t : Tx) (p : Proposal) (q : Tx) (b : Bool) (h : t.apply = .opened) :
    proj (v2sk_tx_apply (gTxOf t false p b q)) =
      flagToks "allApplied" p.apply ++ planTraceTx (txApplyLoop t [p] true) :=
  skel_tx_apply_loop t p q b h

theorem V2_skel_tx_abort_loop (t : Tx) (p : Proposal) (q : Tx) (b : Bool) (h : t.abort = .opened) :
    proj (v2sk_tx_abort (gTxOf t false p b q)) =
      flagToks "allAborted" p.abort ++ planTraceTx (txAbortLoop t [p] true) :=
  skel_tx_abort_loop t p q b h

/-- VALIDATED: open the Commit phase unless the proposal's predecessor transaction is SERIALIZABLE
    and not yet COMMITTED -/
theorem V2_skel_tx_validate_done (s : Sys) (t : Tx) (p : Proposal) (h : t.validate = .done) :
    proj (v2sk_tx_validate (gTxOf t false p (s.tx? p.prev).isNone ((s.tx? p.prev).getD default))) =
      planTraceTx (if waitsForSerializable s [p] .committed then .nop
        else { effects := [.tx t.index t.version .openCommit] }) :=
  skel_tx_validate_done s t p h

/-- COMMITTED: open the Apply phase unless the predecessor transaction is SERIALIZABLE and not yet APPLIED -/
theorem V2_skel_tx_commit_done (s : Sys) (t : Tx) (p : Proposal) (h : t.commit = .done) :
    proj (v2sk_tx_commit (gTxOf t false p (s.tx? p.prev).isNone ((s.tx? p.prev).getD default))) =
      planTraceTx (if waitsForSerializable s [p] .applied then .nop
        else { effects := [.tx t.index t.version .openApply] }) :=
  skel_tx_commit_done s t p h

/-- INITIALIZED (transaction): open the Validate phase and wake the next transaction of the log,
    unless the predecessor transaction is SERIALIZABLE and not yet VALIDATED -/
theorem V2_skel_tx_initialize_done (s : Sys) (t : Tx) (p : Proposal) (pl : Tx) (b : Bool) (h : t.init = .done) :
    proj (v2sk_tx_initialize (gTxInitOf t true false p b pl (s.tx? p.prev).isNone ((s.tx? p.prev).getD default))) =
      planTraceTx (if waitsForSerializable s [p] .validated then .nop
        else { effects := [.tx t.index t.version .openValidate], requeue := some (.tx (t.index + 1)) }) :=
  skel_tx_initialize_done s t p pl b h

/-- INITIALIZING (transaction) once the proposals are listed: wait for the previous transaction of
    the log to be initialised, then close the phase when the proposal is initialised -/
theorem V2_skel_tx_initialize_listed (s : Sys) (t : Tx) (p : Proposal) (q : Tx) (b : Bool)
    (h : t.init = .opened) (hprops : t.proposals = some [(p.target, p.index)])
    (hp : s.prop? (p.target, p.index) = some p) :
    proj (v2sk_tx_initialize (gTxInitOf t true false p (s.tx? (t.index - 1)).isNone ((s.tx? (t.index - 1)).getD default) b q)) =
      (if waitsPrevInit s t then [.ret "nil" []]
       else .set "allInitialized" "true" ::
         ((if p.init = .none ∨ p.init = .opened then [.set "allInitialized" "false"] else []) ++
           planTraceTx (txInitProposals s t))) :=
  skel_tx_initialize_listed s t p q b h hprops hp

/-- INITIALIZING (transaction), proposals not yet listed, a change of ONE target: the proposal is
    created unless it exists already (an earlier, interrupted pass), and in BOTH cases its id is
    listed in `Status.Proposals` (the `append` is outside the not-found block) -/
theorem V2_skel_tx_initialize_create (s : Sys) (t : Tx) (tgt : Tgt) (ch : Config.VMap) (q : Tx) (b : Bool) (p : Proposal)
    (h : t.init = .opened) (hprops : t.proposals = none) (hrb : t.isRollback = false)
    (hch : t.changes = [(tgt, ch)]) (hw : waitsPrevInit s t = false) :
    txInitProposals s t =
      { effects := initCreatesChange s t ++ [.tx t.index t.version (.setProposals [(tgt, t.index)])] } ∧
    proj (v2sk_tx_initialize (gTxInitOf t false (s.prop? (tgt, t.index)).isNone p
        (s.tx? (t.index - 1)).isNone ((s.tx? (t.index - 1)).getD default) b q)) =
      (initCreatesChange s t).flatMap effToksTx ++ [.set "proposals" "append(proposals, proposalID)"] ++
        planTraceTx { effects := [.tx t.index t.version (.setProposals [(tgt, t.index)])] } :=
  skel_tx_initialize_create s t tgt ch q b p h hprops hrb hch hw

/-- INITIALIZING (transaction), proposals not yet listed, a ROLLBACK of a change of ONE target: the rollback
    proposal (carrying the rollback index) is created unless it exists already - an earlier pass that a
    failed write or a crash cut short - and in BOTH cases its id is listed in `Status.Proposals`: a
    restart does not drop a target from the rollback (seeded changes C07-m5, C06-m5) -/
theorem V2_skel_tx_initialize_create_rollback (s : Sys) (t : Tx) (tgt : Tgt) (ch : Config.VMap) (target : Tx)
    (h : t.init = .opened) (hprops : t.proposals = none) (hrb : t.isRollback = true)
    (htgt : s.tx? t.rollbackIndex = some target) (htrb : target.isRollback = false)
    (hch : target.changes = [(tgt, ch)]) (hw : waitsPrevInit s t = false) :
    txInitProposals s t =
      { effects := initCreatesRollback s t target ++ [.tx t.index t.version (.setProposals [(tgt, t.index)])] } ∧
    proj (v2sk_tx_initialize (gTxInitRbOf t (s.prop? (tgt, t.index)).isNone false false
        (s.tx? (t.index - 1)).isNone ((s.tx? (t.index - 1)).getD default))) =
      (initCreatesRollback s t target).flatMap effToksTx ++ [.set "proposals" "append(proposals, proposalID)"] ++
        planTraceTx { effects := [.tx t.index t.version (.setProposals [(tgt, t.index)])] } :=
  skel_tx_initialize_create_rollback s t tgt ch target h hprops hrb htgt htrb hch hw

/-! ### the phase loops over ANY number of proposals (multi-target transactions)

`iterate body after …` runs the regenerated trace of one iteration over the proposal list the way Go's
`for … range` does (an iteration ending in `.misc "next"` hands over to the next proposal, with the loop
flag cleared if it assigned `false` to it; any other iteration ends the invocation; after the last
proposal the statements after the loop run with the flag as the iterations left it).  Up to the
assignments to the flag itself, that is the twin's plan - for every list of proposals: a proposal whose
phase is not opened yet is opened and the invocation ends; one failed validation / apply fails the
transaction whatever the other targets did; the transaction phase completes only when NO proposal is still
in progress (all-or-nothing, C01). -/

theorem V2_skel_tx_validate_all_proposals (s : Sys) (t : Tx) (ps : List Proposal)
    (h : t.validate = .opened) (hps : getProps s (t.proposals.getD []) = some ps) :
    dropFlag "allValidated" (iterate v2sk_tx_validate_loop1_body v2sk_tx_validate_loop1_after
      (gTxIterOf t) (gTxIterOf t default) "allValidated" ps true) = planTraceTx (txValidate s t) := by
  rw [loop_tx_validate]; simp [txValidate, h, hps]

theorem V2_skel_tx_commit_all_proposals (s : Sys) (t : Tx) (ps : List Proposal)
    (h : t.commit = .opened) (hps : getProps s (t.proposals.getD []) = some ps) :
    dropFlag "allCommitted" (iterate v2sk_tx_commit_loop1_body v2sk_tx_commit_loop1_after
      (gTxIterOf t) (gTxIterOf t default) "allCommitted" ps true) = planTraceTx (txCommit s t) := by
  rw [loop_tx_commit]; simp [txCommit, h, hps]

theorem V2_skel_tx_apply_all_proposals (s : Sys) (t : Tx) (ps : List Proposal)
    (h : t.apply = .opened) (hps : getProps s (t.proposals.getD []) = some ps) :
    dropFlag "allApplied" (iterate v2sk_tx_apply_loop1_body v2sk_tx_apply_loop1_after
      (gTxIterOf t) (gTxIterOf t default) "allApplied" ps true) = planTraceTx (txApply s t) := by
  rw [loop_tx_apply]; simp [txApply, h, hps]

theorem V2_skel_tx_abort_all_proposals (s : Sys) (t : Tx) (ps : List Proposal)
    (h : t.abort = .opened) (hps : getProps s (t.proposals.getD []) = some ps) :
    dropFlag "allAborted" (iterate v2sk_tx_abort_loop1_body v2sk_tx_abort_loop1_after
      (gTxIterOf t) (gTxIterOf t default) "allAborted" ps true) = planTraceTx (txAbort s t) := by
  rw [loop_tx_abort]; simp [txAbort, h, hps]

/-- The split the loop theorems rest on is the function itself: for EVERY abstract state, the whole-function
    skeleton of each reconcile function in its in-progress phase is the initialisation of the loop flag, then
    ONE pass - the iteration's trace followed, where the iteration hands over, by the statements after the
    loop.  (`emitLoops` and `emitSkeleton` are two walks over the same syntax tree; this is what says they
    agree, so a statement moved into or out of the loop cannot go unnoticed by one of them.) -/
theorem V2_skel_tx_loops_split (g : V2G) :
    (g.n "transaction.Status.Phases.Validate.State" = g.n "configapi.TransactionValidatePhase_VALIDATING" →
      proj (v2sk_tx_validate g) = .set "allValidated" "true" :: onePass v2sk_tx_validate_loop1_body v2sk_tx_validate_loop1_after g) ∧
    (g.n "transaction.Status.Phases.Commit.State" = g.n "configapi.TransactionCommitPhase_COMMITTING" →
      proj (v2sk_tx_commit g) = .set "allCommitted" "true" :: onePass v2sk_tx_commit_loop1_body v2sk_tx_commit_loop1_after g) ∧
    (g.n "transaction.Status.Phases.Apply.State" = g.n "configapi.TransactionApplyPhase_APPLYING" →
      proj (v2sk_tx_apply g) = .set "allApplied" "true" :: onePass v2sk_tx_apply_loop1_body v2sk_tx_apply_loop1_after g) ∧
    (g.n "transaction.Status.Phases.Abort.State" = g.n "configapi.TransactionAbortPhase_ABORTING" →
      proj (v2sk_tx_abort g) = .set "allAborted" "true" :: onePass v2sk_tx_abort_loop1_body v2sk_tx_abort_loop1_after g) :=
  ⟨split_tx_validate g, split_tx_commit g, split_tx_apply g, split_tx_abort g⟩

/-- non-vacuity: two targets, the second still validating - nothing is written, the transaction waits -/
example : txValidateLoop { index := 3 } [{ target := 1, index := 3, validate := .done }, { target := 2, index := 3, validate := .opened }] true = .nop := rfl
/-- … and a failed validation of the second target fails the transaction although the first is validated -/
example : (txValidateLoop { index := 3 } [{ target := 1, index := 3, validate := .done }, { target := 2, index := 3, validate := .failed, vFailure := some .invalid }] true).effects =
    [.tx 3 (default : Tx).version (.validateFailed (some .invalid))] := by decide

/-- a listed proposal that is not found ends the invocation without a write (every loop) -/
theorem V2_skel_tx_missing (t : Tx) (p : Proposal) (q : Tx) (b : Bool) :
    (t.validate = .opened → proj (v2sk_tx_validate (gTxOf t true p b q)) = [.set "allValidated" "true", .ret "nil" []]) ∧
    (t.commit = .opened → proj (v2sk_tx_commit (gTxOf t true p b q)) = [.set "allCommitted" "true", .ret "nil" []]) ∧
    (t.apply = .opened → proj (v2sk_tx_apply (gTxOf t true p b q)) = [.set "allApplied" "true", .ret "nil" []]) ∧
    (t.abort = .opened → proj (v2sk_tx_abort (gTxOf t true p b q)) = [.set "allAborted" "true", .ret "nil" []]) :=
  skel_tx_missing t p q b

/-- updateTransactionStatus swallows NotFound and Conflict -/
theorem V2_skel_tx_updateStatus (g : V2G) :
    proj (v2sk_tx_updateStatus g) =
      .write "r.transactions.UpdateStatus" ::
        (if g.b "err@r.transactions.UpdateStatus#1" &&
            !(g.b "errors.IsNotFound(err)@r.transactions.UpdateStatus#1") &&
            !(g.b "errors.IsConflict(err)@r.transactions.UpdateStatus#1") then [.ret "err" []] else [.ret "nil" []]) :=
  skel_tx_updateStatus g

/-! ### statements about the regenerated functions themselves (no twin in the statement): what must
    hold of the state for the Go code, as the translator reads it now, to reach a given write
    (C02: merge guard; C04/C10: request and SYNCHRONIZED guards; C02/C04/C11: abort cursors) -/

/-- reconcileApply reaches its southbound request only if: the change is not yet applied, its
    predecessor on the target is (or it has none), the configuration is not SYNCHRONIZING, the applied
    term is not behind the mastership term, a master is recorded, its relation exists and its
    connection is up. -/
theorem V2_source_apply_set_guard (s : Sys) (p : Proposal) (env : Env) (o : Option Proposal) (c : Cfg)
    (hph : p.apply = .opened) (hc : s.cfg? p.target = some c)
    (h : Tok.write "conn.Set" ∈ v2sk_prop_apply (gProp s p o env)) :
    c.applied < p.index ∧ (p.prev = 0 ∨ c.applied = p.prev) ∧ c.state ≠ .synchronizing ∧
      ¬ c.appliedTerm < c.term ∧ c.master ≠ 0 ∧ ∃ rel, s.rel? c.master = some rel ∧ rel.conn = true :=
  source_apply_set_guard s p env o c hph hc h

/-- reconcileCommit merges (`configurations.Update`) only for a COMMITTING proposal whose
    predecessor is the last one merged: `Committed.Index = PrevIndex` -/
theorem V2_source_commit_merge_guard (s : Sys) (p : Proposal) (env : Env) (o : Option Proposal) (c : Cfg)
    (hph : p.commit ≠ .none) (hc : s.cfg? p.target = some c)
    (h : Tok.write "r.configurations.Update" ∈ v2sk_prop_commit (gProp s p o env)) :
    p.commit = .opened ∧ c.committed = p.prev :=
  source_commit_merge_guard s p env o c hph hc h

/-- reconcileAbort moves a cursor of the configuration only from exactly the proposal's predecessor:
    `Committed.Index` is assigned only if it equals `PrevIndex`, `Applied.Index` only if it equals
    `PrevIndex` (and then the committed cursor is at the predecessor too, or already past the proposal) -/
theorem V2_source_abort_cursor_guard (s : Sys) (p : Proposal) (env : Env) (o : Option Proposal) (c : Cfg)
    (hph : p.abort ≠ .none) (hc : s.cfg? p.target = some c) :
    (Tok.setN "config.Status.Committed.Index" p.index ∈ v2sk_prop_abort (gProp s p o env) → c.committed = p.prev) ∧
    (Tok.setN "config.Status.Applied.Index" p.index ∈ v2sk_prop_abort (gProp s p o env) →
      c.applied = p.prev ∧ (c.committed = p.prev ∨ c.committed ≥ p.index)) :=
  source_abort_cursor_guard s p env o c hph hc

/-- reconcileConfiguration reports SYNCHRONIZED only from SYNCHRONIZING with a master recorded, and
    then only if nothing was ever applied or the re-synchronisation request was accepted over the
    master's live connection -/
theorem V2_source_cfg_synced_guard (c : Cfg) (rel : Option Rel) (env : Env) (setFails : Bool)
    (h : Tok.setN "config.Status.State" 2 ∈ v2sk_cfg_reconcile (gCfgOf c rel env setFails)) :
    env.persistent = false ∧ c.state = .synchronizing ∧ c.master ≠ 0 ∧
      (c.applied = 0 ∨ (setFails = false ∧ ∃ r, rel = some r ∧ r.conn = true)) :=
  source_cfg_synced_guard c rel env setFails h

/-! ### order of the two writes inside the configuration store calls (regenerated store facts) -/

/-- `configurations.Update` and `configurations.UpdateStatus` (v2) write the value side map BEFORE
    the compare-and-set of the entry that carries the cursors.  The twin's plans put `cfgVals` /
    `cfgAVals` before `cfg` for exactly this reason (`propCommit`, `statusWrite`), and the re-entrancy
    guards rely on it: a crash between the two writes leaves `Committed.Index` behind, so the retry
    merges again; with the entry first it would find the index advanced and skip the merge for ever
    (C02 C05 C07). -/
theorem V2_fact_cfg_values_before_entry :
    Generated.StoreFacts.v2CfgUpdateValuesFirst = true ∧ Generated.StoreFacts.v2CfgUpdateStatusValuesFirst = true ∧
    (∀ (c : Cfg) (a v : Config.VMap) (u : CfgUpd) (oc : OnConflict), a ≠ [] →
      statusWrite c a v u oc = [.cfgAVals c.target a, .cfg c.target c.version u (some v) [] oc]) := by
  refine ⟨by decide, by decide, ?_⟩
  intro c a v u oc ha
  cases a with
  | nil => contradiction
  | cons x t => simp [statusWrite]

/-! non-vacuity: a concrete state in which the abort skeleton takes its first branch, with the
    trace written out -/
example :
    let p : Proposal := { target := 1, index := 2, prev := 1, abort := .opened }
    let s : Sys := { props := [p], cfgs := [{ target := 1, committed := 1, applied := 1 }] }
    proj (v2sk_prop_abort (gProp s p none {})) =
      [.setN "config.Status.Committed.Index" 2, .setN "config.Status.Applied.Index" 2,
       .write "r.configurations.UpdateStatus", .setN "proposal.Status.Phases.Abort.State" 1,
       .write "r.updateProposalStatus", .ret "nil" []] := by
  decide +kernel

end OnosVerif.Props.V2Skel
