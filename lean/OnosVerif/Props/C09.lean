/-
C09 — controllers never strand a transaction that could make progress.

Over the v2 twin.  Proved here: idle means fixed point (an invocation that plans nothing changes
nothing; every write is a real change — it raises the version of exactly the record it writes, so
the controllers cannot spin on no-op writes), and concrete reachable fixed points in which every
transaction is final.  The general statement `every accepted transaction reaches APPLIED or FAILED
at the fixed point when every named target is connected` is evaluated by the monitor on the real
system (profile `strand`: adversarial scheduling, then sweeps to the fixed point); it is not proved
for the twin in general (fair delivery and the watcher queues enter), hence `partial`.
-/
import OnosVerif.Proofs.V2PhaseInd
import OnosVerif.V2.Auto

namespace OnosVerif.Props.C09
open OnosVerif.V2

/-- the controllers have nothing to do: no reconciler plans a write or returns an error for any
    record, with an accepting plugin and device (a reconcile may still hand the turn to a chain
    neighbour by `Requeue`; that chain is finite and writes nothing either) -/
def Idle (s : Sys) : Prop :=
  ∀ id ∈ allIds s, (reconcile s id {}).effects = [] ∧ (reconcile s id {}).err = false

instance (s : Sys) : Decidable (Idle s) := by unfold Idle; infer_instance

/-- Idle is a fixed point: re-examining any transaction, proposal or configuration, in any order
    and any number of times, changes no record and starts no write. -/
theorem C09_quiescent_fixpoint (w : World) (hidle : Idle w.sys) (hp : w.pend = [])
    (ids : List Id) (hids : ∀ id ∈ ids, id ∈ allIds w.sys) :
    (run w (ids.map fun id => Step.begin id {})).sys = w.sys ∧
    (run w (ids.map fun id => Step.begin id {})).pend = [] := by
  induction ids generalizing w with
  | nil => exact ⟨rfl, hp⟩
  | cons id rest ih =>
    have h := hidle id (hids id List.mem_cons_self)
    have hstep : (step w (.begin id {})).sys = w.sys ∧ (step w (.begin id {})).pend = [] := by
      simp only [step, hp, List.any_nil, Bool.false_eq_true, if_false, h.1]
      simp
    simp only [List.map_cons, run, List.foldl_cons]
    have := ih (step w (.begin id {})) (by rw [hstep.1]; exact hidle) hstep.2
      (fun id hid => by rw [hstep.1]; exact hids id (List.mem_cons_of_mem _ hid))
    exact ⟨by rw [show List.foldl step (step w (.begin id {})) (List.map (fun id => Step.begin id {}) rest) =
        run (step w (.begin id {})) (rest.map fun id => Step.begin id {}) from rfl, this.1, hstep.1],
      this.2⟩

/-- Every successful write is a real change of exactly one record: it raises that record's version
    by one (so "changes nothing" and "writes nothing" coincide, and the controllers cannot spin on
    writes that change nothing). -/
theorem C09_write_is_progress (s : Sys) (i ver : Nat) (u : TxUpd) (t : Tx)
    (ht : s.tx? i = some t) (hv : t.version = ver) :
    ∃ t', (exec s (.tx i ver u)).1.tx? i = some t' ∧ t'.version = ver + 1 := by
  rw [exec_tx_eq, ht]
  simp only [hv, if_true]
  rw [tx?_setTx]
  have hidx : (bumpTx t u).index = i := by
    show (applyTxUpd t u).index = i
    rw [show (applyTxUpd t u).index = t.index by cases u <;> rfl]
    exact tx?_index s i t ht
  refine ⟨bumpTx t u, ?_, ?_⟩
  · simp [hidx, ht]
  · show t.version + 1 = ver + 1
    rw [hv]

/-! concrete fixed points: everything connected ⇒ every transaction APPLIED; a rejected one FAILED
    with its abort completed; nothing stranded -/

def pv (p : String) (v : String) : Config.PV := { path := p.toList, value := v.toList, deleted := false, index := 0 }
def w0 : World := run {} [.fault (.relUp { id := 1, target := 1 }),
  .nbSet { index := 0, changes := [(1, [pv "/a" "1"])] },
  .nbSet { index := 0, changes := [(1, [pv "/a" "3"])] }]
def wEnd : World := run w0 (autoSteps 24 w0 (fun id => match id with
  | .prop (1, 2) => { plugin := some false }
  | _ => {}))

example : wEnd.pend = [] ∧
    wEnd.sys.txs.map (fun t => (t.index, t.state, t.abort)) = [(1, .applied, .none), (2, .failed, .done)] := by
  decide +kernel

example : Idle wEnd.sys := by decide +kernel

end OnosVerif.Props.C09
