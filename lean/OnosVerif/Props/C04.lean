/-
C04 — a connected device converges to the stored configuration.

Over the v2 twin.  Proved here: what is sent when (the guards that force "previously applied
configuration first, then new changes, all in the current term over the master's connection") and
that a completed re-synchronisation covers every applied value.  The end-to-end convergence
statement (device = stored configuration restricted to non-failed applies at every idle,
synchronized state) is `C04_converged`; it is NOT proved for the twin in general — the value-path
defects listed as KF-V2-values-C04 falsify it for histories that write below deleted paths — and is
evaluated by the monitor on the real system driven to its fixed point under faults
(`harness/props/v2proto`, profile `conv`).
-/
import OnosVerif.Proofs.V2Plans
import OnosVerif.V2.Auto

namespace OnosVerif.Props.C04
open OnosVerif.V2

/-- A mastership term above the applied term forces SYNCHRONIZING before anything else: the
    configuration reconciler's only possible write in that situation marks the configuration
    SYNCHRONIZING (non-persistent target, not yet synchronizing). -/
theorem C04_term_increase_forces_sync (s : Sys) (t : Tgt) (c : Cfg) (env : Env)
    (hc : s.cfg? t = some c) (hp : env.persistent = false) (hs : c.state ≠ .synchronizing)
    (ht : c.term > c.appliedTerm) :
    (cfgReconcile s t env).effects = statusWrite c c.aview c.view (.setState .synchronizing) .swallow := by
  unfold cfgReconcile
  simp [hc, hp, hs, ht]

/-- While SYNCHRONIZING, or while the applied term is behind the term, no new change is sent
    (`C10_writes_in_term` read the other way round). -/
theorem C04_resync_before_new (s : Sys) (id : PropId) (env : Env) (p : Proposal) (c : Cfg)
    (hp : s.prop? id = some p) (hc : s.cfg? p.target = some c)
    (h : c.state = .synchronizing ∨ c.appliedTerm < c.term) (r : DevReq) :
    .dev r ∉ (propReconcile s id env).effects := by
  intro hm
  obtain ⟨p', c', _, h1, h2, _, _, _, _, _, _, _, _, h11, h12, _⟩ := prop_dev_guard s id env r hm
  rw [hp] at h1
  simp only [Option.some.injEq] at h1
  subst h1
  rw [hc] at h2
  simp only [Option.some.injEq] at h2
  subst h2
  rcases h with h | h
  · exact h11 h
  · exact h12 h

/-- What is re-sent is applied configuration only, in the current term, over the master's
    connection … -/
theorem C04_resync_is_applied_config (s : Sys) (t : Tgt) (env : Env) (r : DevReq)
    (h : .dev r ∈ (cfgReconcile s t env).effects) :
    ∃ c, s.cfg? t = some c ∧ c.state = .synchronizing ∧ r.term = c.term ∧ r.conn = c.master ∧
      ∀ e ∈ r.payload, e ∈ c.aview := by
  obtain ⟨c, _, h1, h2, _, _, h5, h6, _, _, _, _, h11⟩ := cfg_dev_guard s t env r h
  exact ⟨c, h1, h2, h5, h6, h11⟩

/-- … and a re-synchronisation that completes (every request accepted) has sent ALL of it: every
    applied value is in the payload of one of its requests, and only then is the configuration
    marked SYNCHRONIZED in the new term. -/
theorem C04_resync_complete (s : Sys) (t : Tgt) (c : Cfg) (rel : Rel) (env : Env)
    (hc : s.cfg? t = some c) (hp : env.persistent = false) (hs : c.state = .synchronizing)
    (hm : c.master ≠ 0) (ha : c.applied ≠ 0) (hr : s.rel? c.master = some rel) (hconn : rel.conn = true)
    (hok : env.dev = .ok) :
    (∀ x ∈ c.aview, ∃ r, .dev r ∈ (cfgReconcile s t env).effects ∧ x ∈ r.payload) ∧
    (∃ sh, .cfg t c.version .synced sh [] .swallow ∈ (cfgReconcile s t env).effects) := by
  have hct := cfg?_tgt s t c hc
  have heff : (cfgReconcile s t env).effects =
      syncEffects c (permute env.ordU (groupByIndex c.aview)) (permute env.ordU (groupByIndex c.aview)).length ++
        statusWrite c c.aview c.view .synced .swallow := by
    unfold cfgReconcile
    simp [hc, hp, hs, hm, ha, hr, hconn, hok]
  rw [heff]
  constructor
  · intro x hx
    obtain ⟨g, hg, hxg⟩ := groupByIndex_complete c.aview x hx
    -- the permutation keeps every group
    have hg' : g ∈ permute env.ordU (groupByIndex c.aview) := mem_permute_of_mem _ _ _ hg
    refine ⟨{ target := c.target, conn := c.master, term := c.term, kind := .sync g.1, payload := g.2 }, ?_, hxg⟩
    apply List.mem_append_left
    unfold syncEffects
    rw [List.take_length]
    exact List.mem_map.mpr ⟨g, hg', rfl⟩
  · refine ⟨some c.view, ?_⟩
    apply List.mem_append_right
    unfold statusWrite
    simp [hct]

/-! non-vacuity and a concrete convergence run: a change applied while connected, the device
    restarts empty (connection lost), reconnects under a new relation; at the fixed point the device
    holds the stored value again, pushed in the new term by the re-synchronisation -/

def pv (p : String) (v : String) : Config.PV := { path := p.toList, value := v.toList, deleted := false, index := 0 }
def w0 : World := run {} [.fault (.relUp { id := 1, target := 1 }),
  .nbSet { index := 0, changes := [(1, [pv "/a" "1"])] }]
def w1 : World := run w0 (autoSteps 16 w0 (fun _ => {}))
def w2 : World := run w1 [.fault (.devRestart 1), .fault (.relUp { id := 2, target := 1 })]
def w3 : World := run w2 (autoSteps 6 w2 (fun _ => {}))

example : (w1.sys.dev 1).map (fun e => (e.path, e.value)) = [("/a".toList, "1".toList)] ∧
    w2.sys.dev 1 = [] ∧
    (w3.sys.dev 1).map (fun e => (e.path, e.value)) = [("/a".toList, "1".toList)] ∧
    (w3.sys.cfg? 1).map (fun c => (c.master, c.term, c.appliedTerm, c.state)) = some (2, 2, 2, .synchronized) ∧
    w3.sys.devLog.map (fun r => (r.conn, r.term, r.kind)) = [(1, 1, .apply 1), (2, 2, .sync 1)] := by
  decide +kernel

end OnosVerif.Props.C04
