/-
C03 — the stored configuration is the gNMI-sequential effect of the committed Set requests.

Property theorems only (helper lemmas: OnosVerif/Proofs/Config*.lean).  The twin of the value path
(`commitValues`, `live`, … in OnosVerif/Config/Model.lean) is in exact correspondence with the Go
code through the protocol harness; the reference semantics (`Spec.apply`, `Spec.run`, `under`) and
the decidable history predicates (`Clean`, `indexed`) are in OnosVerif/Config/Spec.lean.
-/
import OnosVerif.Proofs.ConfigOrder

namespace OnosVerif.Props.C03
open OnosVerif.Config
open OnosVerif.Path (Str)

/-! ## The part that holds

The full statement of C03 for the value path would be

    ∀ steps, indexed 0 steps → (∀ t ∈ steps, IsPerm t.ordU) → (∀ t ∈ steps, nodupPaths t.change) →
      live (runTwin [] steps) = Spec.view (Spec.run [] (steps.map (·.change)))

(and the same with rollbacks among the steps).  It is false of the twin and of the code: see the
negation witnesses below.  What is proved is the statement for `Clean` histories.
-/

/-- **Main theorem.**  For every *clean* history (`Clean`, a decidable predicate on the list of
    change maps: conditions (a)–(d) of the Go `CleanHistory` plus (e), no used path beneath a
    written leaf), every strictly increasing index sequence whose change values carry their
    transaction index (`indexed`), every iteration order of the updated change (`ordU`, any
    permutation) and every order of each change map (the change lists are arbitrary lists with
    pairwise different paths): what a Get of the whole target returns after the commits is what
    the gNMI reference semantics yields for the same requests.  Unbounded histories, by induction
    with the invariant `Inv` on the side map (OnosVerif/Proofs/ConfigInv.lean). -/
theorem C03_refines_gnmi_partial (steps : List Step) (hclean : Clean (steps.map (·.change)) = true)
    (hidx : indexed 0 steps = true) (hord : ∀ t ∈ steps, IsPerm t.ordU) :
    live (runTwin [] steps) = Spec.view (Spec.run [] (steps.map (·.change))) := by
  obtain ⟨⟨D, U, W, lo, hinv⟩, hk, hread⟩ := run_refines steps [] [] [] 0 [] [] inv_empty
    List.Pairwise.nil (fun p => by simp [liveAt, get_nil, Spec.get_nil]) hclean hidx hord
  exact live_eq_view _ _ hinv.nodup hk hread

/-- One commit from any state satisfying `Inv`: a clean request (relative to the paths deleted,
    used and written so far) is read back, at every path, as the gNMI request applied to what was
    read before. -/
theorem C03_commit_refines_partial (D U W : List Str) (lo idx : Nat) (side ch : VMap) (ordU : VMap → VMap)
    (hinv : Config.Inv D U W lo side) (hcl : cleanStep D U W ch = true) (hlo : lo < idx)
    (hst : ∀ c ∈ ch, c.index = idx) (hord : IsPerm ordU) (p : Str) :
    liveAt (commitValues idx side ch ordU) p = specAt (liveAt side) ch p :=
  commit_liveAt ordU (stepOK_of_inv D U W lo idx side ch hinv (cleanStep_spec D U W ch hcl) hlo hst) hord p

/-- … and the commit re-establishes `Inv` for the extended history. -/
theorem C03_commit_preserves_inv (D U W : List Str) (lo idx : Nat) (side ch : VMap) (ordU : VMap → VMap)
    (hinv : Config.Inv D U W lo side) (hcl : cleanStep D U W ch = true) (hlo : lo < idx)
    (hst : ∀ c ∈ ch, c.index = idx) (hord : IsPerm ordU) :
    Config.Inv (D ++ Spec.deletes ch) (U ++ paths ch) (W ++ written ch) idx (commitValues idx side ch ordU) :=
  inv_commit D U W lo idx side ch ordU hinv (cleanStep_spec D U W ch hcl) hlo hst hord

/-- The result of a clean commit does not depend on incidental ordering: any two iteration orders
    of the updated change and any permutation of the change map give the same Get result. -/
theorem C03_order_independent_partial (D U W : List Str) (lo idx : Nat) (side ch ch' : VMap)
    (o1 o2 : VMap → VMap) (hinv : Config.Inv D U W lo side) (hcl : cleanStep D U W ch = true) (hlo : lo < idx)
    (hst : ∀ c ∈ ch, c.index = idx) (hp : ch'.Perm ch) (h1 : IsPerm o1) (h2 : IsPerm o2) :
    live (commitValues idx side ch o1) = live (commitValues idx side ch' o2) :=
  commit_order_independent D U W lo idx side ch ch' o1 o2 hinv (cleanStep_spec D U W ch hcl) hlo hst hp h1 h2

/-- The reference semantics itself does not depend on the order in which a request lists its
    values (so "independent of incidental ordering" is a statement about the code only). -/
theorem C03_spec_order_independent (st : Spec.State) (ch ch' : VMap) (hp : ch'.Perm ch)
    (hn : nodupPaths ch = true) (hk : Spec.NodupK st) :
    Spec.view (Spec.apply st ch') = Spec.view (Spec.apply st ch) :=
  spec_apply_perm st ch ch' hp (nodupPaths_spec ch hn) hk

/-- An update sets that leaf: after a clean commit the updated path reads exactly the new value.
    (Proved from an `Inv` state for a clean request; the unconditional version — only "not below a
    delete of the same request or a stored tombstone" — is not proved.) -/
theorem C03_update_sets_leaf_partial (D U W : List Str) (lo idx : Nat) (side ch : VMap) (ordU : VMap → VMap)
    (hinv : Config.Inv D U W lo side) (hcl : cleanStep D U W ch = true) (hlo : lo < idx)
    (hst : ∀ c ∈ ch, c.index = idx) (hord : IsPerm ordU) (c : PV) (hc : c ∈ ch) (hcd : c.deleted = false) :
    liveAt (commitValues idx side ch ordU) c.path = some c.value := by
  rw [C03_commit_refines_partial D U W lo idx side ch ordU hinv hcl hlo hst hord]
  unfold specAt
  rw [get_of_mem ch c (cleanStep_spec D U W ch hcl).nodup hc]
  simp [hcd]

/-- A delete removes the addressed node and everything beneath it at element boundaries: after a
    clean commit no path under a deleted path of the request is readable.  (From an `Inv` state
    for a clean request; false in general, see `C03_leaf_with_descendants_full_fails`.) -/
theorem C03_delete_removes_subtree_partial (D U W : List Str) (lo idx : Nat) (side ch : VMap)
    (ordU : VMap → VMap) (hinv : Config.Inv D U W lo side) (hcl : cleanStep D U W ch = true) (hlo : lo < idx)
    (hst : ∀ c ∈ ch, c.index = idx) (hord : IsPerm ordU) (c : PV) (hc : c ∈ ch) (hcd : c.deleted = true)
    (q : Str) (hq : under q c.path = true) (hnew : VMap.get ch q = none ∨ q = c.path) :
    liveAt (commitValues idx side ch ordU) q = none := by
  rw [C03_commit_refines_partial D U W lo idx side ch ordU hinv hcl hlo hst hord]
  unfold specAt
  rcases hnew with hnew | hnew
  · rw [hnew]
    have : (Spec.deletes ch).any (fun d => under q d) = true :=
      List.any_eq_true.2 ⟨c.path, (mem_deletes ch _).2 ⟨c, hc, hcd, rfl⟩, hq⟩
    simp [this]
  · rw [hnew, get_of_mem ch c (cleanStep_spec D U W ch hcl).nodup hc]
    simp [hcd]

/-- Nothing else changes: a path that is not in the request and not under a deleted path of the
    request reads after a clean commit what it read before — in particular siblings whose names
    merely share a textual prefix with a requested path. -/
theorem C03_untouched_unrelated_partial (D U W : List Str) (lo idx : Nat) (side ch : VMap)
    (ordU : VMap → VMap) (hinv : Config.Inv D U W lo side) (hcl : cleanStep D U W ch = true) (hlo : lo < idx)
    (hst : ∀ c ∈ ch, c.index = idx) (hord : IsPerm ordU) (q : Str) (hq : VMap.get ch q = none)
    (hu : ∀ c ∈ ch, c.deleted = true → under q c.path = false) :
    liveAt (commitValues idx side ch ordU) q = liveAt side q := by
  rw [C03_commit_refines_partial D U W lo idx side ch ordU hinv hcl hlo hst hord]
  unfold specAt
  rw [hq]
  have : (Spec.deletes ch).any (fun d => under q d) = false := by
    rw [List.any_eq_false]
    intro d hd
    obtain ⟨c, hc, hdel, hp⟩ := (mem_deletes ch d).1 hd
    rw [← hp, hu c hc hdel]; decide
  simp [this]

/-! ## Negation witnesses: the full statement is false of the twin (and of the code) -/

private def up (i : Nat) (p v : String) : PV := { path := p.toList, value := v.toList, deleted := false, index := i }
private def del (i : Nat) (p : String) : PV := { path := p.toList, value := [], deleted := true, index := i }
private def kv (p v : String) : List Char × List Char := (p.toList, v.toList)

/-- Witness 1 (textual-prefix cascade and prune).  History: `set /a/b=1,/a/bc=2,/a/b-c=3 ; delete /a/b`.
    gNMI leaves `/a/b-c` and `/a/bc`; the twin (and the code) returns nothing. -/
theorem C03_textual_prefix_full_fails :
    let h1 := [up 1 "/a/b" "1", up 1 "/a/bc" "2", up 1 "/a/b-c" "3"]
    let h2 := [del 2 "/a/b"]
    live (commitValues 2 (commitValues 1 [] h1 id) h2 id) = [] ∧
    Spec.view (Spec.run [] [h1, h2]) = [kv "/a/b-c" "3", kv "/a/bc" "2"] ∧
    Clean [h1, h2] = false := by
  decide

/-- Witness 2 (tombstone leak).  History: `set /s/n/p=1 ; delete /s ; set /s/n/p=2 ; set /foo=x`.
    After the third request the value is readable (as gNMI says), after the unrelated fourth it is
    silently gone: the tombstone `/s` stays in the side map and `store` prunes the value. -/
theorem C03_recreate_under_deleted_full_fails :
    let h := [[up 1 "/s/n/p" "1"], [del 2 "/s"], [up 3 "/s/n/p" "2"], [up 4 "/foo" "x"]]
    let s3 := commitValues 3 (commitValues 2 (commitValues 1 [] [up 1 "/s/n/p" "1"] id) [del 2 "/s"] id)
      [up 3 "/s/n/p" "2"] id
    live s3 = [kv "/s/n/p" "2"] ∧
    live (commitValues 4 s3 [up 4 "/foo" "x"] id) = [kv "/foo" "x"] ∧
    Spec.view (Spec.run [] h) = [kv "/foo" "x", kv "/s/n/p" "2"] ∧
    Clean h = false := by
  decide

/-- Witness 3 (order dependence inside one request).  Stored `/s/n/p=1`; one request with
    `delete /s` and `update /s/n/p=2`: applying the updated change in map order `id` loses the
    update, in the reverse order keeps it; gNMI (deletes first) keeps it. -/
theorem C03_order_dependent_full_fails :
    let s1 := commitValues 1 [] [up 1 "/s/n/p" "1"] id
    let ch := [del 2 "/s", up 2 "/s/n/p" "2"]
    live (commitValues 2 s1 ch id) = [] ∧
    live (commitValues 2 s1 ch List.reverse) = [kv "/s/n/p" "2"] ∧
    Spec.view (Spec.run [] [[up 1 "/s/n/p" "1"], ch]) = [kv "/s/n/p" "2"] ∧
    Clean [[up 1 "/s/n/p" "1"], ch] = false := by
  decide

/-- Witness 5 (found while proving the theorem below; not excluded by the Go `CleanHistory`):
    a stored leaf with stored descendants.  History: `set /s/n=1,/s/n/p=2 ; delete /s`.  When the
    cascaded child `/s/n/p` is applied after `/s/n`, `applyChangeToConfig` removes the (now deleted)
    parent `/s/n` from the in-memory map, `store` never sees it and the side map keeps `/s/n=1`
    alive; in the reverse order everything is deleted.  Hence condition (e) of `cleanStep`. -/
theorem C03_leaf_with_descendants_full_fails :
    let h1 := [up 1 "/s/n" "1", up 1 "/s/n/p" "2"]
    let s1 := commitValues 1 [] h1 id
    live (commitValues 2 s1 [del 2 "/s"] id) = [kv "/s/n" "1"] ∧
    live (commitValues 2 s1 [del 2 "/s"] List.reverse) = [] ∧
    Spec.view (Spec.run [] [h1, [del 2 "/s"]]) = [] ∧
    Clean [h1, [del 2 "/s"]] = false := by
  decide

/-! ## Non-vacuity: a non-trivial clean history -/

/-- sibling names that share textual prefixes with each other but not with a deleted path
    (`/a/c`, `/a/cb`, `/a/c-d`), a list with two keys, a subtree delete (`/a/b`), a list-entry
    delete, an overwrite, a leaf delete and the re-creation of the deleted leaf; non-consecutive
    indices and two iteration orders. -/
def sampleHistory : List Step :=
  [{ idx := 1, ordU := id, change :=
      [up 1 "/a/b/x" "1", up 1 "/a/b/y" "2", up 1 "/a/c" "3", up 1 "/a/cb" "4", up 1 "/a/c-d" "5",
       up 1 "/l[j=2][k=1]/v" "6", up 1 "/l[j=2][k=10]/v" "7"] },
   { idx := 2, ordU := List.reverse, change := [del 2 "/a/b", up 2 "/a/cb" "8"] },
   { idx := 5, ordU := id, change := [del 5 "/l[j=2][k=1]", del 5 "/a/c-d"] },
   { idx := 7, ordU := id, change := [up 7 "/a/c-d" "9", up 7 "/c" "10"] }]

example : Clean (sampleHistory.map (·.change)) = true := by decide
example : indexed 0 sampleHistory = true := by decide
example : live (runTwin [] sampleHistory) =
    [kv "/a/c" "3", kv "/a/c-d" "9", kv "/a/cb" "8", kv "/c" "10", kv "/l[j=2][k=10]/v" "7"] := by decide
example : Spec.view (Spec.run [] (sampleHistory.map (·.change))) =
    [kv "/a/c" "3", kv "/a/c-d" "9", kv "/a/cb" "8", kv "/c" "10", kv "/l[j=2][k=10]/v" "7"] := by decide

end OnosVerif.Props.C03
