/-
C03 (protocol part) — what a commit does to the stored configuration is exactly the value-path
function `Config.commitValues` applied to the configuration as it is at that moment, and commits of
one target happen one after another in log order; so the stored configuration after any history is
the fold of `commitValues` over the committed requests in log order — the object the values part
(`Props/C03.lean`, over the `Config` twin) compares with gNMI semantics.

Model: the v2 protocol twin (OnosVerif/V2), tied to the real reconcilers by the correspondence
check `harness/props/v2proto` (profile `vals`), which compares the whole persistent state including
both side maps after every step.
-/
import OnosVerif.Props.C02

namespace OnosVerif.Props.C03P
open OnosVerif.V2

/-- The values a commit writes are the value-path function of the proposal's change on the
    configuration as read in that invocation (for every iteration order `ordC`, `ordU` of the two Go maps). -/
theorem C03_commit_is_value_path (s : Sys) (p : Proposal) (env : Env) (c : Cfg)
    (ho : p.commit = .opened) (hc : s.cfg? p.target = some c) (hg : c.committed = p.prev)
    (hr : p.isRollback = false) :
    (propCommit s p env).effects =
      [.cfgVals p.target
          (Config.applyAll
            (permute env.ordU (Config.addDeleteChildren p.index (permute env.ordC p.change) [] c.view).1)
            (Config.addDeleteChildren p.index (permute env.ordC p.change) [] c.view).2),
       .cfg p.target c.version (.commit p.index p.index) none c.aview .error,
       .prop (p.target, p.index) p.version .commitDone] := by
  unfold propCommit
  simp [ho, hc, hg, hr]

/-- … and executing that effect stores them with `Config.store` into the committed side map: together
    `Config.commitValues` when the view is the side map itself. -/
theorem C03_store_is_value_path (s : Sys) (t : Tgt) (vals : Config.VMap) (c : Cfg)
    (hc : s.cfg? t = some c) :
    (exec s (.cfgVals t vals)).1 = s.setCfg { c with vals := Config.store c.vals vals } := by
  simp [exec, hc]

/-- A proposal whose predecessor on the target has not been committed merges nothing (the
    `Committed.Index = PrevIndex` guard): changes reach a target's configuration in log order. -/
theorem C03_no_merge_out_of_order (s : Sys) (p : Proposal) (env : Env) (c : Cfg)
    (ho : p.commit = .opened) (hc : s.cfg? p.target = some c) (hg : c.committed ≠ p.prev) :
    (propCommit s p env).effects = [.prop (p.target, p.index) p.version .commitDone] := by
  unfold propCommit
  simp [ho, hc, hg]

/-- In every reachable world the merges of a target happened in strictly increasing log order
    (C02's induction, restated): the stored configuration is a fold over the committed requests in
    log order. -/
theorem C03_merges_in_log_order (w : World) (hr : Reachable w) :
    w.sys.commitLog.Pairwise (fun a b => a.1 = b.1 → a.2 < b.2) :=
  C02.C02_commit_order w hr

end OnosVerif.Props.C03P
