/-
C19 — subscriptions reach exactly the targets they name.

Property theorems only (helper lemmas: OnosVerif/Proofs/Subscribe.lean).  The twin
(OnosVerif/Subscribe/Model.lean) mirrors `splitSubscribeRequest`, `copyPrefix` and the stream
machine of pkg/northbound/gnmi/v2/subscribe.go; which fields a per-target request carries over is
read from the composite literals of the current Go source (`OnosVerif.Generated`), so the
"options copied" parts are re-checked against what the code says now.  Tie to the running code:
`harness/props/c19` (the split through `SplitSubscribeRequestForVerif`, the stream through
`NewServerForVerif` with a fake stream and fake per-target clients).

Vocabulary: `subTarget s` — the target named by an entry's own path ("" if none);
`optsOK` / `topOK` — the option / request-level field maps mention only fields of the gnmi message
types (true of every decoded message); `Dev` — the connected targets and what each sends back.
-/
import OnosVerif.Proofs.Subscribe

namespace OnosVerif.Props.C19
open OnosVerif.Subscribe

/-- Prefix target: the request is forwarded whole — one request, the original, for that target —
    whatever targets the entries' own paths name. -/
theorem C19_prefix_single (top : Fields) (l : SubList) (h : getTarget l.pfx ≠ []) :
    split { body := .subscribe l, top := top } =
      .ok (.ok [(getTarget l.pfx, { body := .subscribe l, top := top })]) := by
  rw [split_closed]; simp [h]

/-- No prefix target — exact partition: there is exactly one per-target request for every non-empty
    target named by some entry and no other request; it holds exactly the entries naming that
    target, unmodified and in their original order; the list-level options and the extensions are
    those of the original; its prefix is the original prefix with that target. -/
theorem C19_partition_exact (top : Fields) (l : SubList) (m : TReqs)
    (hp : getTarget l.pfx = []) (ho : optsOK l.opts = true) (ht : topOK top = true)
    (hs : split { body := .subscribe l, top := top } = .ok (.ok m)) :
    (m.map (·.1)).Nodup ∧
    ∀ t r, (t, r) ∈ m ↔
      (t ≠ [] ∧ (∃ s ∈ l.subs, subTarget s = t) ∧
       r = { body := .subscribe { pfx := some (copyPrefix l.pfx t),
                                  subs := l.subs.filter (fun s => subTarget s = t),
                                  opts := l.opts },
             top := top }) := by
  rw [split_closed] at hs
  simp only [hp, ne_eq, not_true_eq_false, if_false] at hs
  by_cases hn : targetsOf l.subs = []
  · simp [hn] at hs
  · simp only [hn, if_false] at hs
    have hm : m = build { body := .subscribe l, top := top } l l.subs := by
      injection hs with h1; injection h1 with h2; exact h2.symm
    subst hm
    refine ⟨by rw [keys_build]; exact nodup_targetsOf _, ?_⟩
    intro t r
    rw [mem_build, mkReq_facts top l t _ ho ht]
    rfl

/-- The copied prefix: origin and elements of the original prefix, the request's own target
    (the deprecated `element` field of a v0.3 path is not carried). -/
theorem C19_prefix_copied (pfx : Option Fields) (t : Str) (ht : t ≠ []) :
    getTarget (some (copyPrefix pfx t)) = t ∧
    fieldGet (copyPrefix pfx t) "Origin" = (pfx.map (fun f => fieldGet f "Origin")).getD [] ∧
    fieldGet (copyPrefix pfx t) "Elem" = (pfx.map (fun f => fieldGet f "Elem")).getD [] ∧
    fieldGet (copyPrefix pfx t) "Element" = [] := by
  refine ⟨getTarget_copyPrefix pfx t, ?_, ?_, ?_⟩ <;>
  · rw [copyPrefix_facts]
    generalize (pfx.map (fun f => fieldGet f "Origin")).getD [] = o
    generalize (pfx.map (fun f => fieldGet f "Elem")).getD [] = e
    by_cases h1 : o = [] <;> by_cases h2 : e = [] <;> simp [h1, h2, ht, fieldGet, List.find?]

/-- "…and to no other": an entry only ever sits in the request of the target it names. -/
theorem C19_no_other_target (top : Fields) (l : SubList) (m : TReqs)
    (hp : getTarget l.pfx = []) (ho : optsOK l.opts = true) (ht : topOK top = true)
    (hs : split { body := .subscribe l, top := top } = .ok (.ok m))
    (t : Str) (r : Req) (hm : (t, r) ∈ m) (s : Sub) (hsr : s ∈ reqSubs r) : subTarget s = t := by
  obtain ⟨_, h⟩ := C19_partition_exact top l m hp ho ht hs
  obtain ⟨_, _, rfl⟩ := (h t r).mp hm
  simp only [reqSubs, List.mem_filter, decide_eq_true_eq] at hsr
  exact hsr.2

/-- Partition (the part that holds): if every entry names a target, every entry is forwarded in
    the request of the target it names (as often as it occurs in the original). -/
theorem C19_partition_partial (top : Fields) (l : SubList) (m : TReqs)
    (hp : getTarget l.pfx = []) (ho : optsOK l.opts = true) (ht : topOK top = true)
    (hall : l.subs.all (fun s => subTarget s != []) = true)
    (hs : split { body := .subscribe l, top := top } = .ok (.ok m)) :
    ∀ s ∈ l.subs, ∃ r, (subTarget s, r) ∈ m ∧ s ∈ reqSubs r ∧ (reqSubs r).count s = l.subs.count s := by
  obtain ⟨_, h⟩ := C19_partition_exact top l m hp ho ht hs
  intro s hsm
  have hne : subTarget s ≠ [] := by
    have := List.all_eq_true.mp hall s hsm
    simpa using this
  refine ⟨_, (h (subTarget s) _).mpr ⟨hne, ⟨s, hsm, rfl⟩, rfl⟩, ?_, ?_⟩
  · simp [reqSubs, hsm]
  · simp [reqSubs, List.count_filter]

def witnessT1 : Fields := [("Target", "t1".toList)]
def witnessMixed : SubList :=
  { pfx := none,
    subs := [{ path := some witnessT1, rest := "a".toList }, { path := some [("Elem", "x".toList)], rest := "b".toList }],
    opts := [] }

/-- Negation witness for the full partition statement ("every entry is forwarded to the target it
    names, or the request is refused"): in a request where one entry names `t1` and another names
    no target, the request is accepted and the second entry is forwarded nowhere.
    Known finding KF-C19-untargeted-dropped. -/
theorem C19_partition_full_fails :
    ¬ (∀ (top : Fields) (l : SubList) (m : TReqs), getTarget l.pfx = [] →
        split { body := .subscribe l, top := top } = .ok (.ok m) →
        ∀ s ∈ l.subs, ∃ t r, (t, r) ∈ m ∧ s ∈ reqSubs r) := by
  intro hall
  have h := hall [] witnessMixed [("t1".toList, { body := .subscribe { pfx := some witnessT1, subs := [{ path := some witnessT1, rest := "a".toList }], opts := [] }, top := [] })]
    (by decide) (by decide) { path := some [("Elem", "x".toList)], rest := "b".toList } (by decide)
  obtain ⟨t, r, hm, hs⟩ := h
  simp only [List.mem_singleton, Prod.mk.injEq] at hm
  obtain ⟨_, rfl⟩ := hm
  revert hs
  decide

/-- Refusals: a second subscription, a poll before any subscription, a subscription naming no
    target anywhere, and a message that is neither are answered with an error, forward nothing and
    leave no per-target request behind. -/
theorem C19_refusals (dev : Dev) (st : SState) (msg : Req) :
    (isSub msg = true → st.req.isSome = true → process dev st msg = (st, [], some .duplicate)) ∧
    (isPoll msg = true → st.req.isNone = true → process dev st msg = (st, [], some .notYet)) ∧
    (isSub msg = false → isPoll msg = false → process dev st msg = (st, [], some .unknownType)) ∧
    (∀ top l, msg = { body := .subscribe l, top := top } → st.req = none → getTarget l.pfx = [] →
        l.subs.all (fun s => subTarget s == []) = true →
        process dev st msg = ({ req := some msg, treqs := [] }, [], some .noTarget)) := by
  refine ⟨?_, ?_, ?_, ?_⟩
  · intro h1 h2; simp [process_eq, processHand, h1, h2]
  · intro h1 h2
    have : isSub msg = false := by
      cases msg with | mk b t => cases b <;> simp_all [isSub, isPoll]
    simp [process_eq, processHand, h1, h2, this]
  · intro h1 h2; simp [process_eq, processHand, h1, h2]
  · intro top l hmsg hreq hp hall
    subst hmsg
    have hn : targetsOf l.subs = [] := by
      cases htl : targetsOf l.subs with
      | nil => rfl
      | cons t ts =>
        have hmem : t ∈ targetsOf l.subs := by rw [htl]; exact List.mem_cons_self
        obtain ⟨hne, s, hs, hst⟩ := (mem_targetsOf l.subs t).mp hmem
        have := List.all_eq_true.mp hall s hs
        simp only [beq_iff_eq] at this
        exact absurd (hst ▸ this) hne
    simp [process_eq, processHand, isSub, isPoll, hreq, split_closed, hp, hn]

/-- An accepted subscription is forwarded to exactly the connected targets of its split, each
    with its own request, once. -/
theorem C19_forward_exact (dev : Dev) (msg : Req) (m : TReqs) (hsub : isSub msg = true)
    (hs : split msg = .ok (.ok m)) :
    process dev {} msg = ({ req := some msg, treqs := m }, m.flatMap (forward dev), none) := by
  simp [process_eq, processHand, hsub, hs, isPoll_of_isSub msg hsub]

/-- What one target's forwarding consists of: nothing at all when the target has no connection
    (the error is discarded — nobody is told); otherwise the subscription followed by what the
    target sends back in its round 0, relayed in order and unchanged (`C19_relay_rounds`). -/
theorem C19_relay_identity (dev : Dev) (t : Str) (r : Req) (hp : (reqPrefix r).isSome = true) :
    forward dev (t, r) =
      match devLookup dev t with
      | none => []
      | some rounds => .subscribed t r :: relays t (rounds.getD 0 []) := by
  unfold forward
  cases devLookup dev t with
  | none => rfl
  | some rounds =>
    have : (reqPrefix r).isNone = false := by
      cases h : reqPrefix r <;> simp_all
    simp [this, roundRelays]

/-- Updates are relayed as received, round after round: as long as a target has sent nothing but
    SubscribeResponses (updates and `sync_response`s alike) up to and including round `k`, the
    subscriber is sent every message of round `k`, in order, untouched — in particular the
    `sync_response` that ends the second, third, … poll round just like the first. -/
theorem C19_relay_rounds (t : Str) (rounds : List (List DevMsg)) (k : Nat)
    (h : (rounds.take (k + 1)).any (fun r => r.any isOther) = false) :
    roundRelays t rounds k = (rounds.getD k []).map (fun m => Out.relayed t (msgId m)) := by
  have hall : ∀ r ∈ rounds.take (k + 1), r.any isOther = false := by
    intro r hr
    rw [Bool.eq_false_iff]
    intro hc
    rw [Bool.eq_false_iff] at h
    exact h (List.any_eq_true.mpr ⟨r, hr, hc⟩)
  have h1 : (rounds.take k).any (fun r => r.any isOther) = false := by
    rw [Bool.eq_false_iff]
    intro hc
    obtain ⟨r, hr, hro⟩ := List.any_eq_true.mp hc
    have hsub : r ∈ rounds.take (k + 1) := (List.take_subset_take_left rounds (Nat.le_succ k)) hr
    rw [hall r hsub] at hro
    exact Bool.false_ne_true hro
  have h2 : (rounds.getD k []).any isOther = false := by
    by_cases hk : k < rounds.length
    · apply hall
      have hget : rounds.getD k [] = rounds[k] := by simp [List.getD, hk]
      rw [hget]
      exact List.mem_take_iff_getElem.mpr ⟨k, by simp only [Nat.lt_min]; omega, rfl⟩
    · have : rounds.getD k [] = [] := by simp [List.getD, Nat.not_lt.mp hk]
      rw [this]; rfl
  simp only [roundRelays, h1, Bool.false_eq_true, if_false]
  exact relays_all t _ h2

/-- Every `sync_response` counts: a target that answers the subscription and each of two polls with
    an update and a `sync_response` has all three `sync_response`s relayed. -/
theorem C19_every_sync_relayed (t : Str) (u0 u1 u2 : Str) (k : Nat) (hk : k < 3) :
    roundRelays t [[.resp u0, .sync], [.resp u1, .sync], [.resp u2, .sync]] k =
      [Out.relayed t ([u0, u1, u2].getD k []), Out.relayed t syncId] := by
  have : k = 0 ∨ k = 1 ∨ k = 2 := by omega
  rcases this with rfl | rfl | rfl <;> simp [roundRelays, relays, isOther]

/-- A poll on a subscribed stream goes to exactly the connected targets subscribed on that stream,
    once each; nothing of the subscription changes (only the round the targets are in advances). -/
theorem C19_poll_all (dev : Dev) (st : SState) (msg : Req) (hp : isPoll msg = true)
    (hsome : st.req.isSome = true) :
    process dev st msg = ({ st with polls := st.polls + 1 }, st.treqs.flatMap (pollOne dev st.polls), none) ∧
    ∀ t, Out.polled t ∈ st.treqs.flatMap (pollOne dev st.polls) ↔
      (t ∈ st.treqs.map (·.1) ∧ (devLookup dev t).isSome = true) := by
  have hsub : isSub msg = false := by
    cases msg with | mk b t => cases b <;> simp_all [isSub, isPoll]
  have hnone : st.req.isNone = false := by
    cases h : st.req <;> simp_all
  refine ⟨by simp [process_eq, processHand, hp, hsub, hnone], ?_⟩
  intro t
  simp only [List.mem_flatMap, List.mem_map]
  constructor
  · rintro ⟨kr, hkr, hout⟩
    unfold pollOne at hout
    cases hd : devLookup dev kr.1 with
    | none => simp [hd] at hout
    | some rounds =>
      simp only [hd, List.mem_cons] at hout
      rcases hout with hout | hout
      · have : t = kr.1 := by simpa using hout
        subst this
        exact ⟨⟨kr, hkr, rfl⟩, by simp [hd]⟩
      · obtain ⟨id, hid⟩ := roundRelays_mem _ _ _ _ hout
        simp at hid
  · rintro ⟨⟨kr, hkr, rfl⟩, hd⟩
    refine ⟨kr, hkr, ?_⟩
    unfold pollOne
    cases hd' : devLookup dev kr.1 with
    | none => simp [hd'] at hd
    | some rounds => simp

/-- Whole streams: everything a stream ever causes is the forwarding of its first message — if
    that is an acceptable subscription — followed by one poll round per poll message that follows
    it directly (the i-th fetching round i+1 of every connected target); a stream that does not start with an acceptable subscription causes nothing. -/
theorem C19_stream (dev : Dev) (evs : List Event) :
    (run dev {} evs).1 =
      match evs with
      | .msg m0 :: rest =>
        if isSub m0 then
          match split m0 with
          | .ok (.ok m) => m.flatMap (forward dev) ++
              (List.range (leadingPolls rest)).flatMap (fun i => m.flatMap (pollOne dev i))
          | _ => []
        else []
      | _ => [] := by
  cases evs with
  | nil => rfl
  | cons e rest =>
    cases e with
    | eof => rfl
    | recvErr => rfl
    | msg m0 =>
      by_cases hs : isSub m0 = true
      · simp only [hs, if_true]
        have hpl := isPoll_of_isSub m0 hs
        cases hsp : split m0 with
        | error p => simp [run, process_eq, processHand, hs, hsp, hpl]
        | ok res =>
          cases res with
          | error e => simp [run, process_eq, processHand, hs, hsp, hpl]
          | ok m => simp [run, process_eq, processHand, hs, hsp, hpl, run_subscribed]
      · have hs' : isSub m0 = false := by simpa using hs
        by_cases hp : isPoll m0 = true
        · simp [run, process_eq, processHand, hs', hp]
        · have hp' : isPoll m0 = false := by simpa using hp
          simp [run, process_eq, processHand, hs', hp']

/-- every target the request names (the prefix target, else the entries' own) has a connection. -/
def namedConnected (dev : Dev) (l : SubList) : Bool :=
  if getTarget l.pfx ≠ [] then (devLookup dev (getTarget l.pfx)).isSome
  else l.subs.all (fun s => (devLookup dev (subTarget s)).isSome)

/-- Forwarding (the part that holds): when every entry names a target (or the prefix does) and
    every named target is connected, an accepted subscription forwards every entry to the target
    it names. -/
theorem C19_forward_all_partial (dev : Dev) (top : Fields) (l : SubList)
    (ho : optsOK l.opts = true) (ht : topOK top = true)
    (hall : getTarget l.pfx ≠ [] ∨ l.subs.all (fun s => subTarget s != []) = true)
    (hconn : namedConnected dev l = true)
    (st' : SState) (outs : List Out)
    (h : process dev {} { body := .subscribe l, top := top } = (st', outs, none)) :
    ∀ s ∈ l.subs, ∃ r, Out.subscribed (if getTarget l.pfx ≠ [] then getTarget l.pfx else subTarget s) r ∈ outs ∧
      s ∈ reqSubs r := by
  intro s hsm
  have hfw : ∀ t r, (devLookup dev t).isSome = true → (reqPrefix r).isSome = true →
      Out.subscribed t r ∈ forward dev (t, r) := by
    intro t r hc hpr
    rw [C19_relay_identity dev t r hpr]
    cases hd : devLookup dev t with
    | none => simp [hd] at hc
    | some rounds => simp
  have hproc : process dev {} { body := .subscribe l, top := top } =
      match split { body := .subscribe l, top := top } with
      | .ok (.ok m) => ({ req := some { body := .subscribe l, top := top }, treqs := m }, m.flatMap (forward dev), none)
      | .ok (.error e) => ({ req := some { body := .subscribe l, top := top }, treqs := [] }, [], some e)
      | .error _ => ({ req := some { body := .subscribe l, top := top }, treqs := [] }, [], some .noTarget) := by
    simp [process_eq, processHand, isSub, isPoll]
    rfl
  rw [hproc, split_closed] at h
  by_cases hp : getTarget l.pfx = []
  · have hall' : l.subs.all (fun s => subTarget s != []) = true := by
      rcases hall with h1 | h1
      · exact absurd hp h1
      · exact h1
    have hcs : (devLookup dev (subTarget s)).isSome = true := by
      simp only [namedConnected, hp, ne_eq, not_true_eq_false, if_false] at hconn
      exact List.all_eq_true.mp hconn s hsm
    simp only [hp, ne_eq, not_true_eq_false, if_false] at h
    by_cases hn : targetsOf l.subs = []
    · simp [hn] at h
    · simp only [hn, if_false, Prod.mk.injEq] at h
      have houts : outs = (build { body := .subscribe l, top := top } l l.subs).flatMap (forward dev) := h.2.1.symm
      have hsp : split { body := .subscribe l, top := top } =
          .ok (.ok (build { body := .subscribe l, top := top } l l.subs)) := by
        rw [split_closed]; simp [hp, hn]
      obtain ⟨r, hm, hsr, _⟩ := C19_partition_partial top l _ hp ho ht hall' hsp s hsm
      obtain ⟨_, hex⟩ := C19_partition_exact top l _ hp ho ht hsp
      obtain ⟨_, _, hr⟩ := (hex _ r).mp hm
      refine ⟨r, ?_, hsr⟩
      simp only [hp, ne_eq, not_true_eq_false, if_false, houts, List.mem_flatMap]
      exact ⟨(subTarget s, r), hm, hfw _ r hcs (by rw [hr]; rfl)⟩
  · have hcp : (devLookup dev (getTarget l.pfx)).isSome = true := by
      simpa [namedConnected, hp] using hconn
    simp only [hp, ne_eq, not_false_eq_true, if_true, Prod.mk.injEq] at h
    have houts : outs = forward dev (getTarget l.pfx, { body := .subscribe l, top := top }) := by
      have := h.2.1; simpa using this.symm
    refine ⟨{ body := .subscribe l, top := top }, ?_, hsm⟩
    simp only [hp, ne_eq, not_false_eq_true, if_true, houts]
    apply hfw _ _ hcp
    cases hpf : l.pfx with
    | none => simp [getTarget, hpf] at hp
    | some f => simp [reqPrefix, hpf]

/-- Negation witness for full forwarding: a subscription naming a target that has no connection is
    accepted without error and forwarded nowhere.  Known finding KF-C19-unconnected-silent. -/
theorem C19_forward_all_fails_unconnected :
    (process [] {} { body := .subscribe { pfx := some witnessT1, subs := [{ path := none, rest := [] }], opts := [] }, top := [] }).2
      = ([], none) := by decide

/-! ### non-vacuity -/

def sampleList : SubList :=
  { pfx := some [("Origin", "oc".toList), ("Elem", "interfaces".toList)],
    subs := [{ path := some [("Elem", "a".toList), ("Target", "t1".toList)], rest := "0:1000".toList },
             { path := some [("Target", "t2".toList)], rest := "1:0".toList },
             { path := some [("Elem", "b".toList), ("Target", "t1".toList)], rest := "2:5".toList }],
    opts := [("Mode", "1".toList), ("Encoding", "2".toList), ("UpdatesOnly", "1".toList)] }
def sampleTop : Fields := [("Extension", "7".toList)]
def sampleDev : Dev :=
  [("t1".toList, [[.resp "u1".toList, .sync], [.resp "u2".toList, .sync], [.sync, .other "x".toList, .resp "u3".toList]]),
   ("t2".toList, [])]

example : getTarget sampleList.pfx = [] ∧ optsOK sampleList.opts = true ∧ topOK sampleTop = true ∧
    sampleList.subs.all (fun s => subTarget s != []) = true := by decide
example : (match split { body := .subscribe sampleList, top := sampleTop } with
    | .ok (.ok m) => m.map (·.1) | _ => []) = ["t1".toList, "t2".toList] := by decide
example : getTarget (some witnessT1) ≠ [] := by decide
example : isSub { body := .subscribe sampleList, top := sampleTop } = true ∧ isPoll { body := .poll, top := [] } = true := by decide
example : (run sampleDev {} [.msg { body := .subscribe sampleList, top := sampleTop }, .msg { body := .poll, top := [] },
    .msg { body := .poll, top := [] }, .eof]).1.length = 3 + 1 + (3 + 1) + (2 + 1) := by decide
example : (([[.resp "u1".toList, .sync], [.sync]] : List (List DevMsg)).take 2).any (fun r => r.any isOther) = false := by decide
example : namedConnected sampleDev sampleList = true := by decide

end OnosVerif.Props.C19
