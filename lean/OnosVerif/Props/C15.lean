/- C15 — stores never lose an update; watchers never miss the latest state (property theorems). -/
import OnosVerif.Store.Model
import OnosVerif.Store.Watch

namespace OnosVerif.Props.C15

end OnosVerif.Props.C15
