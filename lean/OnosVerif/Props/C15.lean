/-
C15 — stores never lose an update; watchers never miss the latest state.

Property theorems only.  The twin (OnosVerif/Store/Model.lean, Watch.lean) mirrors the five stores
pkg/store/v2/{transaction,proposal,configuration}, pkg/store/v3/{transaction,configuration} over the
atomix map / indexed map, with guards, Revision++, the IfVersion field, the callee order and the shape
of every Watch goroutine REGENERATED from the Go sources (OnosVerif/Generated/Facts.lean); it is tied to
the real stores (atomix in-memory test client) by `harness/props/c15`.

Quantifier: every sequence of operations, by any number of clients, each carrying an arbitrary record
(arbitrary id, version, revision, values — honest, stale, fabricated), from any store state whose
entries' versions do not exceed their primitive's clock (`Store.wfb`, a decidable check; true of the
empty store and preserved by every operation).  A concurrent history of clients of one store is such a
sequence: every wrapper performs exactly one command on the record's primitive and atomix serialises
the commands of a primitive; configuration writes additionally perform one earlier command on the side
map (`C15_refused_write_changes_nothing`).
-/
import OnosVerif.Proofs.Store
import OnosVerif.Proofs.Watch

namespace OnosVerif.Props.C15
open OnosVerif.Store

/-! ## compare-and-set -/

/-- Two writers that both read the same version of a record cannot both succeed: in every run, of all the
    `Update`/`UpdateStatus` calls that carry version `v` of record `(sp, key)`, at most one succeeds —
    for all five stores (the proof uses the regenerated facts "the guards refuse version 0" and
    "IfVersion(obj.Version) is passed", so it fails to check if a store drops either). -/
theorem C15_cas_exclusive (s : Store) (hw : s.wfb = true) (ops : List Op) (sp key : Key) (v : Nat) :
    winners s.kind sp key v (trace s ops) ≤ 1 :=
  winners_le_one s (s.wf_of_wfb hw) ops sp key v

/-- the same from the empty store of any kind. -/
theorem C15_cas_exclusive_from_init (k : Kind) (ops : List Op) (sp key : Key) (v : Nat) :
    winners k sp key v (trace (Store.init k) ops) ≤ 1 := by
  have := winners_le_one (Store.init k) (wf_init k) ops sp key v
  simpa [Store.init] using this

/-- Record versions only grow: over any run no record's version decreases (a record that exists keeps
    existing — the stores have no delete). -/
theorem C15_versions_grow (s : Store) (hw : s.wfb = true) (ops : List Op) (sp key : Key) :
    s.version sp key ≤ (run s ops).version sp key :=
  Prim.version_le_of_le (s.wf_of_wfb hw sp) ((run_le s ops).2 sp) key

/-- … and every successful `Update`/`UpdateStatus` leaves the record with a version strictly above the one
    it had, which is the (non-zero) version the writer carried. -/
theorem C15_write_bumps_version (s : Store) (hw : s.wfb = true) (op : Op) (sp key : Key) (v : Nat)
    (h : isWinner s.kind sp key v (op, step s op) = true) :
    s.version sp key = v ∧ v ≠ 0 ∧ v < (step s op).store.version sp key := by
  obtain ⟨h1, h2, h3⟩ := winner_step s op sp key v h
  refine ⟨h1, h2, ?_⟩
  have : v ≤ (s.space sp).clock := by rw [← h1]; exact s.wf_of_wfb hw sp key
  exact Nat.lt_of_le_of_lt this h3

/-- A successful `Create` hands back a version above everything the log has issued and that version is
    the record's; the key was absent before. -/
theorem C15_create_fresh (s : Store) (o : Obj) (last : Key) (h : (create s o last).err = none) :
    (s.space (spaceOf s.kind (create s o last).obj)).clock < (create s o last).obj.version ∧
    (create s o last).store.version (spaceOf s.kind (create s o last).obj) (createKey s.kind (create s o last).obj)
      = (create s o last).obj.version ∧
    ((s.space (spaceOf s.kind (create s o last).obj)).find (createKey s.kind (create s o last).obj)).isNone = true :=
  (create_ok s o last h).2

/-! ## log indexes -/

/-- the transaction stores (v2 and v3) append to an indexed log (regenerated fact). -/
theorem C15_tx_stores_are_logs : createIndexed .tx2 = true ∧ createIndexed .tx3 = true := by decide

/-- A log index is never reused: in every run on a transaction store, the indexes handed out by the
    successful `Create`s of one log are strictly increasing, and all above the log's last index at the
    start of the run. -/
theorem C15_index_never_reused (s : Store) (hix : createIndexed s.kind = true) (ops : List Op) (sp : Key) :
    (∀ i ∈ createdIndexes s.kind sp (trace s ops), (s.space sp).lastIndex < i) ∧
    (createdIndexes s.kind sp (trace s ops)).Pairwise (· < ·) :=
  created_increasing s hix ops sp

/-- … each is exactly `last index + 1` (no gaps either). -/
theorem C15_index_is_next (s : Store) (hix : createIndexed s.kind = true) (o : Obj) (last : Key)
    (h : (create s o last).err = none) :
    (create s o last).obj.index = (s.space (spaceOf s.kind (create s o last).obj)).lastIndex + 1 :=
  ((create_ok s o last h).1 hix).1

/-- … and a record keeps its index for ever (updates never move it). -/
theorem C15_index_stable (s : Store) (ops : List Op) (sp key : Key) (h : ((s.space sp).find key).isSome = true) :
    (run s ops).indexOf sp key = s.indexOf sp key :=
  ((run_leI s ops sp).2 key h).2


/-! ## a refused write leaves no trace — except in the configuration stores -/

/-- full statement: whatever a refused `Update`/`UpdateStatus` carried, every later read sees what it
    would have seen without it. -/
def RefusedWriteChangesNothing : Prop :=
  ∀ (s : Store) (m : Meth) (o : Obj) (last : Key), s.wfb = true → (write s m o last).err ≠ none →
    ∀ q, readBack (write s m o last).store q = readBack s q

/-- the part that holds: in the transaction and proposal stores, and in the configuration stores when
    the refused write carries no path values, a refused write leaves every entry and every side map
    untouched (only the log position moves). -/
theorem C15_refused_write_changes_nothing_partial (s : Store) (m : Meth) (o : Obj) (last : Key)
    (herr : (write s m o last).err ≠ none) (h : s.kind.isCfg = false ∨ carried m o = none) :
    (write s m o last).store.sides = s.sides ∧
    ∀ sp, ((write s m o last).store.space sp).entries = (s.space sp).entries :=
  write_refused_unchanged s m o last herr h

/-- witness against the full statement (v2 configuration store; the v3 one is built the same way):
    client A creates configuration `t`; client B updates it; A, still holding version 1, sends an
    `Update` carrying `/a` (index 7): it is refused with a conflict — and `/a` is stored. -/
def wCfg : Obj := { id := ['t'], target := ['t'] }
def wS1 : Store := (create (Store.init .cfg2) wCfg).store
def wHeld : Obj := (create (Store.init .cfg2) wCfg).obj
def wS2 : Store := (write wS1 .update { wHeld with payload := 1 }).store
def wStale : Obj := { wHeld with vals := some [(['/', 'a'], 7)] }

theorem C15_refused_write_changes_nothing_full_fails : ¬ RefusedWriteChangesNothing := by
  intro h
  have := h wS2 .update wStale [] (by decide) (by decide) wCfg
  revert this
  decide

/-- the values half really runs before the compare-and-set in both configuration stores (regenerated). -/
theorem C15_cfg_values_first :
    valuesBeforeCas .cfg2 .update = true ∧ valuesBeforeCas .cfg2 .updateStatus = true ∧ valuesBeforeCas .cfg2 .create = true ∧
    valuesBeforeCas .cfg3 .update = true ∧ valuesBeforeCas .cfg3 .updateStatus = true ∧ valuesBeforeCas .cfg3 .create = true := by
  decide

/-! ## what a configuration store keeps of the values it is given -/

/-- Committed and applied values are kept apart (since commit 7dda02f; regenerated: `getCommitted` and
    `getApplied` name different atomix maps in both configuration stores). -/
theorem C15_side_maps_separate : sideMapsShared .cfg2 = false ∧ sideMapsShared .cfg3 = false := by decide

/-- … so a configuration created with committed values and no applied values is read back without applied
    values, and applied values written by `UpdateStatus` do not show up as committed ones. -/
theorem C15_values_sides_separate_witness :
    (readBack (create (Store.init .cfg2) { id := ['t'], target := ['t'], vals := some [(['/', 'a'], 1)] }).store { id := ['t'] }).map
        (fun o => (o.vals, o.avals)) = some (some [(['/', 'a'], 1)], none) ∧
    (readBack (write wS1 .updateStatus { wHeld with avals := some [(['/', 'b'], 2)] }).store wCfg).map
        (fun o => (o.vals, o.avals)) = some (none, some [(['/', 'b'], 2)]) := ⟨by decide, by decide⟩

/-- the regression kept as a variant: were the two names the same again (`sideMapsShared`), the committed value
    would be read back as an applied value too — what the harness's monitor looks for on the real store. -/
theorem C15_shared_side_map_would_leak (s : Store) (o : Obj) (h : sideMapsShared s.kind = true) :
    appliedSideOf s.kind o = sideOf s.kind o := by
  unfold appliedSideOf; rw [if_pos h]

/-- what remains of it: the applied map of configuration `X` and the committed map of a configuration whose id is
    `X-applied` are one atomix map (ids are `<target>-<type>-<version>`; a version text ending in `-applied`). -/
theorem C15_side_map_names_can_collide :
    appliedSideOf .cfg2 { id := "t-y-1".toList } = sideOf .cfg2 { id := "t-y-1-applied".toList } := by decide

/-- full statement "every value of a write is stored under its own path": false of the v3 configuration
    store, whose `store()` hands `&pv` of the range variable to the atomix transaction — after a
    `Create` carrying `/a` (index 1) and `/b` (index 2), iterated in that order, both paths hold index 2. -/
theorem C15_values_stored_exact_full_fails :
    ∃ (o : Obj), o.vals = some [(['/', 'a'], 1), (['/', 'b'], 2)] ∧
      (readBack (create (Store.init .cfg3) o ['/', 'b']).store o).map (·.vals)
        = some (some [(['/', 'a'], 2), (['/', 'b'], 2)]) := by
  refine ⟨{ id := ['t'], ttype := ['y'], tver := ['1'], vals := some [(['/', 'a'], 1), (['/', 'b'], 2)] }, rfl, by decide⟩

/-- … the v2 store keeps each value (same write, v2 store). -/
example :
    (readBack (create (Store.init .cfg2) { id := ['t'], target := ['t'], vals := some [(['/', 'a'], 1), (['/', 'b'], 2)] }).store
        { id := ['t'] }).map (·.vals) = some (some [(['/', 'a'], 1), (['/', 'b'], 2)]) := by decide

/-- full statement "List returns every record": false of the v3 transaction store, whose `List` returns
    at the first target log's end — two targets with one transaction each, one listed. -/
def wTx (t : Char) : Obj := { id := [t], ttype := ['y'], tver := ['1'], key := ['k'] }
def wTwoLogs : Store := (create (create (Store.init .tx3) (wTx 'a')).store (wTx 'b')).store

theorem C15_list_complete_full_fails :
    (create (Store.init .tx3) (wTx 'a')).err = none ∧ (create (create (Store.init .tx3) (wTx 'a')).store (wTx 'b')).err = none ∧
    (list wTwoLogs).length = 1 ∧ (list wTwoLogs "b-y-1".toList).length = 1 := by
  decide

/-- … every other store lists its whole primitive. -/
theorem C15_list_complete_partial (s : Store) (h : s.kind ≠ .tx3) (first : Key) :
    (list s first).length = (s.space []).entries.length := by
  unfold list
  cases hk : s.kind <;> simp_all

/-! non-vacuity of the preconditions -/

example : (Store.init .tx2).wfb = true := by decide
example : wS2.wfb = true := by decide
example : wS2.kind.isCfg = true ∧ carried .update wStale ≠ none := by decide
example : (write wS2 .update wStale).err = some .conflict := by decide
example : isWinner .cfg2 [] ['t'] 1 (.update { wHeld with payload := 1 } [], step wS1 (.update { wHeld with payload := 1 } [])) = true := by decide
example : createdIndexes .tx3 "a-y-1".toList (trace (Store.init .tx3) [.create (wTx 'a') [], .create { wTx 'a' with key := ['j'] } []]) = [1, 2] := by decide


/-! ## watchers

The machine (OnosVerif/Store/Watch.lean): the primitive's event log, the dispatcher goroutine with its
copy of the listeners, one goroutine per `Watch` (registered → replay read → replay sends → forward loop),
unbuffered rendezvous, consumers that read / stop / cancel; every interleaving of the steps of all
goroutines and all clients is a run.  `codeCfg k` is the shape of `Watch` in store `k` as the translator
finds it in the sources now. -/

open OnosVerif.Store.Watch

/-- regenerated: in each of the five stores the listener is registered before any replay read. -/
theorem C15_register_before_replay (k : Kind) : (codeCfg k).registerFirst = true := by
  cases k <;> decide

/-- A watcher is shown the latest state: in every reachable state of every store's machine in which the
    dispatcher has caught up (nothing in flight, every event taken) and the per-watch goroutine sits in
    its forward loop with nothing queued, the LAST version the consumer was shown of every record it
    covers is the record's current version — with replay for every record that exists (written before or
    after the Watch call), without replay for every record written since the Watch call.  For all records
    or for one, for any number of watchers and writers, for every interleaving; what other watchers do
    (stop reading, cancel, leave) is irrelevant to it. -/
theorem C15_watch_sees_latest (kind : Kind) (s : St) (hr : Reachable (codeCfg kind) s)
    (hd : s.disp = .idle) (hp : s.dpos = s.evs.length)
    (i : Nat) (w : Watcher) (hw : s.ws[i]? = some w) (hloop : w.phase = .loop) (hq : w.queue = [])
    (k : Key) (hc : covers w k = true) :
    (w.replay = true → lastFor k w.delivered = lastFor k s.evs) ∧
    (w.replay = false → lastFor k (s.evs.drop w.regAt) = none ∨ lastFor k w.delivered = lastFor k s.evs) :=
  sees_latest_of_inv _ s (inv_reachable _ (C15_register_before_replay kind) s hr) hd hp i w hw hloop hq k hc

/-- the same for any shape of `Watch` that registers first (the code before the fix, the ideal one, …). -/
theorem C15_watch_sees_latest_any (cfg : Cfg) (hrf : cfg.registerFirst = true) (s : St) (hr : Reachable cfg s)
    (hd : s.disp = .idle) (hp : s.dpos = s.evs.length)
    (i : Nat) (w : Watcher) (hw : s.ws[i]? = some w) (hloop : w.phase = .loop) (hq : w.queue = [])
    (k : Key) (hc : covers w k = true) (hrep : w.replay = true) :
    lastFor k w.delivered = lastFor k s.evs :=
  (sees_latest_of_inv _ s (inv_reachable _ hrf s hr) hd hp i w hw hloop hq k hc).1 hrep

/-- … and registering first is what it rests on: with the registration moved behind the replay (all else
    equal) a write that lands between the replay read and the registration is never shown — record `k`
    exists, Watch with replay, the snapshot is read, `k` is written again, the dispatcher finds no
    listener, the replayed version 1 is delivered; at quiescence the watcher's last version is 1, the
    store's is 2. -/
def lateRegister : Cfg := { idealCfg with registerFirst := false }

/-- the last version of record `k` that watcher `i`'s consumer was shown. -/
def lastShown (s : St) (i : Nat) (k : Key) : Option Nat := (s.ws[i]?).bind (fun w => lastFor k w.delivered)

/-- watcher `i`'s goroutine is in its forward loop with nothing queued. -/
def inLoop (s : St) (i : Nat) : Bool :=
  match s.ws[i]? with
  | some w => w.phase == .loop && w.queue.isEmpty
  | none => false

theorem C15_watch_needs_register_first :
    ∃ s, Watch.run lateRegister {} [.write ['k'], .pick, .watch none true, .replayRead 0, .write ['k'], .pick, .deliver 0] = some s ∧
      s.disp = .idle ∧ s.dpos = s.evs.length ∧ inLoop s 0 = true ∧
      lastShown s 0 ['k'] = some 1 ∧ lastFor ['k'] s.evs = some 2 := by
  refine ⟨_, rfl, ?_⟩
  decide

/-! ### cancelling a watch -/

/-- a state in which the store's goroutines have work left (an event in the dispatcher's hands or not yet
    taken) but none of them can move, although every consumer that stopped reading has cancelled and the
    process is alive: the dispatcher waits for ever, every watcher of the store is cut off. -/
def Stalled (cfg : Cfg) (s : St) : Prop :=
  s.crashed = false ∧ (∀ (i : Nat) (w : Watcher), s.ws[i]? = some w → w.reading = true ∨ w.cancelled = true) ∧
  (s.disp ≠ .idle ∨ s.dpos < s.evs.length) ∧ ∀ st : Step, st.isEnv = false → Watch.step cfg s st = none

/-- Cancelling a watch never stalls the store (full statement): for a `Watch` whose sends to the consumer are
    all guarded by `ctx.Done()`, whose every way out starts the drain of its internal channel (or that has
    no way out during replay) and that registers first, no reachable state is stalled — whatever the
    consumers did (stop reading and cancel at any moment, during replay, with events pending). -/
theorem C15_cancel_isolated (cfg : Cfg) (hg : cfg.guardedSends = true)
    (hd : cfg.earlyExitsDrain = true ∨ cfg.hasEarlyExit = false) (hrf : cfg.registerFirst = true)
    (s : St) (hr : Reachable cfg s) : ¬ Stalled cfg s := by
  intro ⟨hc, hall, hwork, hstuck⟩
  have hi := inv_reachable cfg hrf s hr
  obtain ⟨st, he, hs⟩ := no_deadlock cfg hg s hi hc hall (hi.nogone hd) hwork
  rw [hstuck st he] at hs
  cases hs

/-- the v2 proposal store (own event stream per watcher, no shared dispatcher) satisfies it as it is. -/
theorem C15_cancel_isolated_proposal_store (s : St) (hr : Reachable (codeCfg .prop2) s) : ¬ Stalled (codeCfg .prop2) s := by
  intro ⟨hc, hall, hwork, hstuck⟩
  have hi := inv_reachable _ (C15_register_before_replay .prop2) s hr
  have hidle : s.disp = .idle := hi.own (by decide)
  have hlt : s.dpos < s.evs.length := by
    rcases hwork with h | h
    · exact absurd hidle h
    · exact h
  have : Watch.step (codeCfg .prop2) s .pick = none := hstuck .pick rfl
  rw [step_not_crashed _ s _ hc] at this
  simp only [stepPick, hidle, List.getElem?_eq_getElem hlt] at this
  split at this <;> cases this

/-- The four dispatcher stores as they are now (after commit 0003cc9): the part that holds — no reachable
    state is stalled unless some watcher has left through one of the replay-time exits that do not start the
    drain (`if ctx.Err() != nil { close(ch); return }`, a failed `List(ctx)`), i.e. unless a Watch with
    replay was cancelled before its replay had finished. -/
theorem C15_cancel_isolated_partial (kind : Kind) (hg : (codeCfg kind).guardedSends = true)
    (s : St) (hr : Reachable (codeCfg kind) s)
    (hgone : ∀ (i : Nat) (w : Watcher), s.ws[i]? = some w → w.phase ≠ .gone) : ¬ Stalled (codeCfg kind) s := by
  intro ⟨hc, hall, hwork, hstuck⟩
  have hi := inv_reachable _ (C15_register_before_replay kind) s hr
  obtain ⟨st, he, hs⟩ := no_deadlock _ hg s hi hc hall hgone hwork
  rw [hstuck st he] at hs
  cases hs

/-- regenerated: every send of the per-watch goroutines of the four dispatcher stores is now guarded. -/
theorem C15_sends_guarded :
    (codeCfg .tx2).guardedSends = true ∧ (codeCfg .cfg2).guardedSends = true ∧
    (codeCfg .tx3).guardedSends = true ∧ (codeCfg .cfg3).guardedSends = true := by decide

/-- regenerated: what the machine's `.exit` step stands on.  A watcher that leaves through a
    `case <-ctx.Done():` branch (it was cancelled in its forward loop, or while handing an event or a
    replayed record to its consumer) may still be in a snapshot of the listeners the dispatcher is
    serving; in the machine such a watcher is `drained` for ever.  In the four dispatcher stores every
    return taken in such a branch first starts `go func(){ for range eventCh {} }()` - the drain that
    never ends (a one-shot, non-blocking drain, or none, lets the dispatcher block on the departed
    watcher's channel: seeded changes C15-m3, C15-m5, C08-m5). -/
theorem C15_cancel_exits_drain_for_ever :
    let f := OnosVerif.Generated.StoreFacts.v2TxWatchCancelReturns
    (OnosVerif.Generated.StoreFacts.v2TxWatchCancelReturnsDrained = f ∧ 0 < f) ∧
    (OnosVerif.Generated.StoreFacts.v2CfgWatchCancelReturnsDrained = OnosVerif.Generated.StoreFacts.v2CfgWatchCancelReturns ∧
      0 < OnosVerif.Generated.StoreFacts.v2CfgWatchCancelReturns) ∧
    (OnosVerif.Generated.StoreFacts.v3TxWatchCancelReturnsDrained = OnosVerif.Generated.StoreFacts.v3TxWatchCancelReturns ∧
      0 < OnosVerif.Generated.StoreFacts.v3TxWatchCancelReturns) ∧
    (OnosVerif.Generated.StoreFacts.v3CfgWatchCancelReturnsDrained = OnosVerif.Generated.StoreFacts.v3CfgWatchCancelReturns ∧
      0 < OnosVerif.Generated.StoreFacts.v3CfgWatchCancelReturns) := by decide

/-- regenerated: the configuration stores' `store` (the write-back of `Values` / `Applied.Values` into the
    side maps, below `Create`, `Update` and `UpdateStatus`) rewrites an existing entry exactly when the
    write carries another index than the stored one - in either direction and whatever the content: a
    write that was acknowledged is what every later `Get`, `List`, event and replay shows.  (`>` instead
    of `!=`, or a further conjunct that skips "equal" content, makes an acknowledged write invisible:
    seeded changes C15-m4, C17-m3.) -/
theorem C15_fact_store_rewrites_every_other_index (g : OnosVerif.Generated.V2G) :
    OnosVerif.Generated.StoreFacts.v2CfgStoreRewriteGuard g = (g.n "pv.Index" != g.n "entry.Value.Index") ∧
    OnosVerif.Generated.StoreFacts.v3CfgStoreRewriteGuard g = (g.n "pv.Index" != g.n "entry.Value.Index") :=
  ⟨rfl, rfl⟩

/-- … but the replay-time exits still leave without the drain goroutine (regenerated), so the full
    statement does not apply to them: -/
theorem C15_early_exits_do_not_drain :
    (codeCfg .tx2).earlyExitsDrain = false ∧ (codeCfg .cfg2).earlyExitsDrain = false ∧
    (codeCfg .tx3).earlyExitsDrain = false ∧ (codeCfg .cfg3).earlyExitsDrain = false ∧
    (codeCfg .tx2).hasEarlyExit = true := by decide

/-- negation witness for the code as it is (v2 transaction store; the other three have the same shape):
    a Watch with replay, a write, the dispatcher copies the listener, the watch is cancelled, its goroutine
    notices `ctx.Err() != nil` and returns without the drain — the dispatcher blocks for ever on a channel
    nobody reads. -/
def stalledNow : List Step := [.watch none true, .write ['k'], .pick, .cancel 0, .exitEarly 0]

instance (cfg : Cfg) (s : St) : Decidable (Stalled cfg s) := by
  unfold Stalled
  have h1 : Decidable (∀ (i : Nat) (w : Watcher), s.ws[i]? = some w → w.reading = true ∨ w.cancelled = true) :=
    decidable_of_iff (∀ w ∈ s.ws, w.reading = true ∨ w.cancelled = true)
      ⟨fun h i w hw => h w (List.mem_of_getElem? hw), fun h w hw => by
        obtain ⟨i, hi, rfl⟩ := List.getElem_of_mem hw
        exact h i _ (List.getElem?_eq_getElem hi)⟩
  have h2 : Decidable (∀ st : Step, st.isEnv = false → Watch.step cfg s st = none) :=
    decidable_of_iff ((Watch.step cfg s .pick = none ∧ Watch.step cfg s .send = none) ∧
        ∀ i ∈ List.range (s.ws.length + 1), Watch.step cfg s (.pull i) = none ∧ Watch.step cfg s (.replayRead i) = none ∧
          Watch.step cfg s (.deliver i) = none ∧ Watch.step cfg s (.exit i) = none ∧ Watch.step cfg s (.exitEarly i) = none)
      ⟨fun ⟨⟨hp, hs⟩, hall⟩ st he => by
        have key : ∀ i, s.ws.length + 1 ≤ i → s.ws[i]? = none := fun i hi => List.getElem?_eq_none (by omega)
        by_cases hcr : s.crashed = true
        · simp [Watch.step, hcr]
        · have hcr' : s.crashed = false := by cases h : s.crashed <;> simp_all
          cases st with
          | write k => cases he
          | watch a b => cases he
          | stopReading i => cases he
          | resumeReading i => cases he
          | cancel i => cases he
          | pick => exact hp
          | send => exact hs
          | pull i =>
            by_cases hi : i < s.ws.length + 1
            · exact (hall i (List.mem_range.mpr hi)).1
            · rw [step_not_crashed _ s _ hcr']; simp [stepPull, key i (by omega)]
          | replayRead i =>
            by_cases hi : i < s.ws.length + 1
            · exact (hall i (List.mem_range.mpr hi)).2.1
            · rw [step_not_crashed _ s _ hcr']; simp [stepReplayRead, key i (by omega)]
          | deliver i =>
            by_cases hi : i < s.ws.length + 1
            · exact (hall i (List.mem_range.mpr hi)).2.2.1
            · rw [step_not_crashed _ s _ hcr']; simp [stepDeliver, key i (by omega)]
          | exit i =>
            by_cases hi : i < s.ws.length + 1
            · exact (hall i (List.mem_range.mpr hi)).2.2.2.1
            · rw [step_not_crashed _ s _ hcr']; simp [stepExit, key i (by omega)]
          | exitEarly i =>
            by_cases hi : i < s.ws.length + 1
            · exact (hall i (List.mem_range.mpr hi)).2.2.2.2
            · rw [step_not_crashed _ s _ hcr']; simp [stepExitEarly, key i (by omega)],
       fun h => ⟨⟨h .pick rfl, h .send rfl⟩, fun i _ =>
         ⟨h (.pull i) rfl, h (.replayRead i) rfl, h (.deliver i) rfl, h (.exit i) rfl, h (.exitEarly i) rfl⟩⟩⟩
  exact inferInstance

theorem C15_cancel_isolated_full_fails :
    ∃ s, Watch.run (codeCfg .tx2) {} stalledNow = some s ∧ Stalled (codeCfg .tx2) s := by
  refine ⟨_, rfl, ?_⟩
  decide

/-- the regression that commit 0003cc9 repaired, kept as a variant of the machine: with the bare
    `ch <- event` a consumer that stops reading and cancels (every Set handler after it has answered) leaves its
    goroutine blocked in the send; the next event stalls the dispatcher. -/
def stalledBeforeFix : List Step :=
  [.watch none false, .write ['k'], .pick, .send, .stopReading 0, .cancel 0, .write ['k'], .pick]

theorem C15_cancel_isolated_failed_before_fix :
    ∃ s, Watch.run preFixCfg {} stalledBeforeFix = some s ∧ Stalled preFixCfg s := by
  refine ⟨_, rfl, ?_⟩
  decide

/-- … and the same history on the code as it is ends with the watcher drained and the dispatcher free. -/
example : ∃ s, Watch.run (codeCfg .tx2) {} (stalledBeforeFix ++ [.exit 0, .send]) = some s ∧ s.disp = .idle ∧ ¬ Stalled (codeCfg .tx2) s := by
  refine ⟨_, rfl, ?_⟩
  decide

/-- Cancelling a watch never takes the process down (full statement): holds of every `Watch` that closes the
    consumer channel once. -/
theorem C15_cancel_never_crashes (cfg : Cfg) (hdc : cfg.doubleClose = false) (hrf : cfg.registerFirst = true)
    (s : St) (hr : Reachable cfg s) : s.crashed = false :=
  (inv_reachable cfg hrf s hr).nocrash hdc

/-- regenerated: three of the dispatcher stores close once; the v3 transaction store has `defer close(ch)`
    AND `close(ch)` in its ctx.Done branches. -/
theorem C15_close_once :
    (codeCfg .tx2).doubleClose = false ∧ (codeCfg .cfg2).doubleClose = false ∧ (codeCfg .cfg3).doubleClose = false ∧
    (codeCfg .prop2).doubleClose = false ∧ (codeCfg .tx3).doubleClose = true := by decide

/-- negation witness for the v3 transaction store: Watch, cancel, the goroutine takes the ctx.Done branch —
    close of a closed channel, the process is gone. -/
theorem C15_cancel_never_crashes_v3tx_fails :
    ∃ s, Watch.run (codeCfg .tx3) {} [.watch none false, .cancel 0, .exit 0] = some s ∧ s.crashed = true := by
  refine ⟨_, rfl, ?_⟩
  decide

/-! non-vacuity -/

/-- a reachable quiescent state with a live replay watcher that has seen two versions of one record and one of
    another, and a per-record watcher. -/
def sampleRun : List Step :=
  [.write ['a'], .pick, .watch none true, .write ['a'], .replayRead 0, .deliver 0, .pick, .send, .deliver 0,
   .watch (some ['b']) false, .write ['b'], .pick, .send, .deliver 0, .send, .deliver 1]

example : ∃ s, Watch.run (codeCfg .tx2) {} sampleRun = some s ∧ s.disp = .idle ∧ s.dpos = s.evs.length ∧
    inLoop s 0 = true ∧ inLoop s 1 = true ∧ lastShown s 0 ['a'] = some 2 ∧ lastShown s 0 ['b'] = some 1 ∧
    lastShown s 1 ['b'] = some 1 ∧ lastShown s 1 ['a'] = none := by
  refine ⟨_, rfl, ?_⟩
  decide

example : idealCfg.guardedSends = true ∧ (idealCfg.earlyExitsDrain = true ∨ idealCfg.hasEarlyExit = false) ∧
    idealCfg.registerFirst = true ∧ idealCfg.doubleClose = false := by decide

end OnosVerif.Props.C15
