/-
C15 — stores never lose an update; watchers never miss the latest state.

Property theorems only.  The twin (OnosVerif/Store/Model.lean, Watch.lean) mirrors the five stores
pkg/store/v2/{transaction,proposal,configuration}, pkg/store/v3/{transaction,configuration} over the
atomix map / indexed map, with guards, Revision++, the IfVersion field, the callee order and the shape
of every Watch goroutine REGENERATED from the Go sources (OnosVerif/Generated/Facts.lean); it is tied to
the real stores (atomix in-memory test client) by `harness/props/c15`.

Quantifier: every sequence of operations, by any number of clients, each carrying an arbitrary record
(arbitrary id, version, revision, values — honest, stale, fabricated), from any store state whose
entries' versions do not exceed their primitive's clock (`Store.wfb`, a decidable check; true of the
empty store and preserved by every operation).  A concurrent history of clients of one store is such a
sequence: every wrapper performs exactly one command on the record's primitive and atomix serialises
the commands of a primitive; configuration writes additionally perform one earlier command on the side
map (`C15_refused_write_changes_nothing`).
-/
import OnosVerif.Proofs.Store

namespace OnosVerif.Props.C15
open OnosVerif.Store

/-! ## compare-and-set -/

/-- Two writers that both read the same version of a record cannot both succeed: in every run, of all the
    `Update`/`UpdateStatus` calls that carry version `v` of record `(sp, key)`, at most one succeeds —
    for all five stores (the proof uses the regenerated facts "the guards refuse version 0" and
    "IfVersion(obj.Version) is passed", so it fails to check if a store drops either). -/
theorem C15_cas_exclusive (s : Store) (hw : s.wfb = true) (ops : List Op) (sp key : Key) (v : Nat) :
    winners s.kind sp key v (trace s ops) ≤ 1 :=
  winners_le_one s (s.wf_of_wfb hw) ops sp key v

/-- the same from the empty store of any kind. -/
theorem C15_cas_exclusive_from_init (k : Kind) (ops : List Op) (sp key : Key) (v : Nat) :
    winners k sp key v (trace (Store.init k) ops) ≤ 1 := by
  have := winners_le_one (Store.init k) (wf_init k) ops sp key v
  simpa [Store.init] using this

/-- Record versions only grow: over any run no record's version decreases (a record that exists keeps
    existing — the stores have no delete). -/
theorem C15_versions_grow (s : Store) (hw : s.wfb = true) (ops : List Op) (sp key : Key) :
    s.version sp key ≤ (run s ops).version sp key :=
  Prim.version_le_of_le (s.wf_of_wfb hw sp) ((run_le s ops).2 sp) key

/-- … and every successful `Update`/`UpdateStatus` leaves the record with a version strictly above the one
    it had, which is the (non-zero) version the writer carried. -/
theorem C15_write_bumps_version (s : Store) (hw : s.wfb = true) (op : Op) (sp key : Key) (v : Nat)
    (h : isWinner s.kind sp key v (op, step s op) = true) :
    s.version sp key = v ∧ v ≠ 0 ∧ v < (step s op).store.version sp key := by
  obtain ⟨h1, h2, h3⟩ := winner_step s op sp key v h
  refine ⟨h1, h2, ?_⟩
  have : v ≤ (s.space sp).clock := by rw [← h1]; exact s.wf_of_wfb hw sp key
  exact Nat.lt_of_le_of_lt this h3

/-- A successful `Create` hands back a version above everything the log has issued and that version is
    the record's; the key was absent before. -/
theorem C15_create_fresh (s : Store) (o : Obj) (last : Key) (h : (create s o last).err = none) :
    (s.space (spaceOf s.kind (create s o last).obj)).clock < (create s o last).obj.version ∧
    (create s o last).store.version (spaceOf s.kind (create s o last).obj) (createKey s.kind (create s o last).obj)
      = (create s o last).obj.version ∧
    ((s.space (spaceOf s.kind (create s o last).obj)).find (createKey s.kind (create s o last).obj)).isNone = true :=
  (create_ok s o last h).2

/-! ## log indexes -/

/-- the transaction stores (v2 and v3) append to an indexed log (regenerated fact). -/
theorem C15_tx_stores_are_logs : createIndexed .tx2 = true ∧ createIndexed .tx3 = true := by decide

/-- A log index is never reused: in every run on a transaction store, the indexes handed out by the
    successful `Create`s of one log are strictly increasing, and all above the log's last index at the
    start of the run. -/
theorem C15_index_never_reused (s : Store) (hix : createIndexed s.kind = true) (ops : List Op) (sp : Key) :
    (∀ i ∈ createdIndexes s.kind sp (trace s ops), (s.space sp).lastIndex < i) ∧
    (createdIndexes s.kind sp (trace s ops)).Pairwise (· < ·) :=
  created_increasing s hix ops sp

/-- … each is exactly `last index + 1` (no gaps either). -/
theorem C15_index_is_next (s : Store) (hix : createIndexed s.kind = true) (o : Obj) (last : Key)
    (h : (create s o last).err = none) :
    (create s o last).obj.index = (s.space (spaceOf s.kind (create s o last).obj)).lastIndex + 1 :=
  ((create_ok s o last h).1 hix).1

/-- … and a record keeps its index for ever (updates never move it). -/
theorem C15_index_stable (s : Store) (ops : List Op) (sp key : Key) (h : ((s.space sp).find key).isSome = true) :
    (run s ops).indexOf sp key = s.indexOf sp key :=
  ((run_leI s ops sp).2 key h).2


/-! ## a refused write leaves no trace — except in the configuration stores -/

/-- full statement: whatever a refused `Update`/`UpdateStatus` carried, every later read sees what it
    would have seen without it. -/
def RefusedWriteChangesNothing : Prop :=
  ∀ (s : Store) (m : Meth) (o : Obj) (last : Key), s.wfb = true → (write s m o last).err ≠ none →
    ∀ q, readBack (write s m o last).store q = readBack s q

/-- the part that holds: in the transaction and proposal stores, and in the configuration stores when
    the refused write carries no path values, a refused write leaves every entry and every side map
    untouched (only the log position moves). -/
theorem C15_refused_write_changes_nothing_partial (s : Store) (m : Meth) (o : Obj) (last : Key)
    (herr : (write s m o last).err ≠ none) (h : s.kind.isCfg = false ∨ carried m o = none) :
    (write s m o last).store.sides = s.sides ∧
    ∀ sp, ((write s m o last).store.space sp).entries = (s.space sp).entries :=
  write_refused_unchanged s m o last herr h

/-- witness against the full statement (v2 configuration store; the v3 one is built the same way):
    client A creates configuration `t`; client B updates it; A, still holding version 1, sends an
    `Update` carrying `/a` (index 7): it is refused with a conflict — and `/a` is stored. -/
def wCfg : Obj := { id := ['t'], target := ['t'] }
def wS1 : Store := (create (Store.init .cfg2) wCfg).store
def wHeld : Obj := (create (Store.init .cfg2) wCfg).obj
def wS2 : Store := (write wS1 .update { wHeld with payload := 1 }).store
def wStale : Obj := { wHeld with vals := some [(['/', 'a'], 7)] }

theorem C15_refused_write_changes_nothing_full_fails : ¬ RefusedWriteChangesNothing := by
  intro h
  have := h wS2 .update wStale [] (by decide) (by decide) wCfg
  revert this
  decide

/-- the values half really runs before the compare-and-set in both configuration stores (regenerated). -/
theorem C15_cfg_values_first :
    valuesBeforeCas .cfg2 .update = true ∧ valuesBeforeCas .cfg2 .updateStatus = true ∧ valuesBeforeCas .cfg2 .create = true ∧
    valuesBeforeCas .cfg3 .update = true ∧ valuesBeforeCas .cfg3 .updateStatus = true ∧ valuesBeforeCas .cfg3 .create = true := by
  decide

/-! ## what a configuration store keeps of the values it is given -/

/-- full statement "committed and applied values are kept apart": a configuration created with committed
    values and no applied values is read back without applied values.  False of the twin and of the
    code (one atomix map `configurations-<id>` serves both sides): -/
theorem C15_values_sides_separate_full_fails :
    ∃ (o : Obj), o.avals = none ∧ (create (Store.init .cfg2) o).err = none ∧
      (readBack (create (Store.init .cfg2) o).store o).map (·.avals) ≠ some none := by
  refine ⟨{ id := ['t'], target := ['t'], vals := some [(['/', 'a'], 1)] }, rfl, by decide, by decide⟩

/-- full statement "every value of a write is stored under its own path": false of the v3 configuration
    store, whose `store()` hands `&pv` of the range variable to the atomix transaction — after a
    `Create` carrying `/a` (index 1) and `/b` (index 2), iterated in that order, both paths hold index 2. -/
theorem C15_values_stored_exact_full_fails :
    ∃ (o : Obj), o.vals = some [(['/', 'a'], 1), (['/', 'b'], 2)] ∧
      (readBack (create (Store.init .cfg3) o ['/', 'b']).store o).map (·.vals)
        = some (some [(['/', 'a'], 2), (['/', 'b'], 2)]) := by
  refine ⟨{ id := ['t'], ttype := ['y'], tver := ['1'], vals := some [(['/', 'a'], 1), (['/', 'b'], 2)] }, rfl, by decide⟩

/-- … the v2 store keeps each value (same write, v2 store). -/
example :
    (readBack (create (Store.init .cfg2) { id := ['t'], target := ['t'], vals := some [(['/', 'a'], 1), (['/', 'b'], 2)] }).store
        { id := ['t'] }).map (·.vals) = some (some [(['/', 'a'], 1), (['/', 'b'], 2)]) := by decide

/-- full statement "List returns every record": false of the v3 transaction store, whose `List` returns
    at the first target log's end — two targets with one transaction each, one listed. -/
def wTx (t : Char) : Obj := { id := [t], ttype := ['y'], tver := ['1'], key := ['k'] }
def wTwoLogs : Store := (create (create (Store.init .tx3) (wTx 'a')).store (wTx 'b')).store

theorem C15_list_complete_full_fails :
    (create (Store.init .tx3) (wTx 'a')).err = none ∧ (create (create (Store.init .tx3) (wTx 'a')).store (wTx 'b')).err = none ∧
    (list wTwoLogs).length = 1 ∧ (list wTwoLogs "b-y-1".toList).length = 1 := by
  decide

/-- … every other store lists its whole primitive. -/
theorem C15_list_complete_partial (s : Store) (h : s.kind ≠ .tx3) (first : Key) :
    (list s first).length = (s.space []).entries.length := by
  unfold list
  cases hk : s.kind <;> simp_all

/-! non-vacuity of the preconditions -/

example : (Store.init .tx2).wfb = true := by decide
example : wS2.wfb = true := by decide
example : wS2.kind.isCfg = true ∧ carried .update wStale ≠ none := by decide
example : (write wS2 .update wStale).err = some .conflict := by decide
example : isWinner .cfg2 [] ['t'] 1 (.update { wHeld with payload := 1 } [], step wS1 (.update { wHeld with payload := 1 } [])) = true := by decide
example : createdIndexes .tx3 "a-y-1".toList (trace (Store.init .tx3) [.create (wTx 'a') [], .create { wTx 'a' with key := ['j'] } []]) = [1, 2] := by decide

end OnosVerif.Props.C15
