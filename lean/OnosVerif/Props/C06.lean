/-
C06 (values part) — rolling back the most recent change restores the stored configuration.

Property theorems only (helper lemmas: OnosVerif/Proofs/Config*.lean).  `rollbackValues side ch`
is what validation captures as the rollback of `ch`; the rollback's commit is
`commitValues j side' (rollbackValues side ch) ord` (OnosVerif/Config/Model.lean).
-/
import OnosVerif.Config.Spec

namespace OnosVerif.Props.C06
open OnosVerif.Config

private def up (i : Nat) (p v : String) : PV := { path := p.toList, value := v.toList, deleted := false, index := i }
private def del (i : Nat) (p : String) : PV := { path := p.toList, value := [], deleted := true, index := i }
private def kv (p v : String) : List Char × List Char := (p.toList, v.toList)

/-- Witness 4 (rollback of a subtree delete).  History: `set /s/n/p=1,/foo=x ; delete /s ; rollback`.
    The rollback values hold only a placeholder tombstone for `/s` (the cascaded child was never
    captured), and the rollback's own commit cascades again: `/s/n/p` is not restored. -/
theorem C06_rollback_subtree_full_fails :
    let s1 := commitValues 1 [] [up 1 "/s/n/p" "1", up 1 "/foo" "x"] id
    let ch := [del 2 "/s"]
    let s2 := commitValues 2 s1 ch id
    live s1 = [kv "/foo" "x", kv "/s/n/p" "1"] ∧
    rollbackValues s1 ch = [{ path := "/s".toList, value := [], deleted := true, index := 0 }] ∧
    live (commitValues 3 s2 (rollbackValues s1 ch) id) = [kv "/foo" "x"] := by
  decide

end OnosVerif.Props.C06
