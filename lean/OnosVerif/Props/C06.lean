/-
C06 (values part) — rolling back the most recent change restores the stored configuration.

Property theorems only (helper lemmas: OnosVerif/Proofs/Config*.lean).  `rollbackValues side ch`
is what validation captures as the rollback of `ch`; the rollback's commit is
`commitValues j side' (rollbackValues side ch) ord` (OnosVerif/Config/Model.lean).
-/
import OnosVerif.Proofs.ConfigRollback

namespace OnosVerif.Props.C06
open OnosVerif.Config
open OnosVerif.Path (Str)

private def up (i : Nat) (p v : String) : PV := { path := p.toList, value := v.toList, deleted := false, index := i }
private def del (i : Nat) (p : String) : PV := { path := p.toList, value := [], deleted := true, index := i }
private def kv (p v : String) : List Char × List Char := (p.toList, v.toList)

/-- **Rollback restores (the part that holds).**  From any state satisfying the invariant `Inv`
    of clean histories, for a clean change `ch` committed at index `i` that is `rollbackSafe` — no
    delete of a path with stored descendants, no created path with stored textual extensions (leaf
    updates, leaf deletes, overwrites, creation of new leaves) — committing the rollback values
    captured by validation at a later index `j` returns, for every pair of iteration orders, what
    Get returned immediately before the change. -/
theorem C06_rollback_restores_partial (D U W : List Str) (lo i j : Nat) (side ch : VMap)
    (o1 o2 : VMap → VMap) (hinv : Config.Inv D U W lo side) (hcl : cleanStep D U W ch = true)
    (hlo : lo < i) (hij : i < j) (hst : ∀ c ∈ ch, c.index = i) (h1 : IsPerm o1) (h2 : IsPerm o2)
    (hsafe : rollbackSafe side ch = true) :
    live (commitValues j (commitValues i side ch o1) (rollbackValues side ch) o2) = live side :=
  rollback_restores hinv (cleanStep_spec D U W ch hcl) hlo hst o1 h1
    (rollbackSafe_spec side ch hinv.nodup hsafe) o2 h2 j hij

/-- What validation captures as rollback values, for a clean change from an `Inv` state: for every
    path of the change the stored entry (with its old index), or a tombstone with index 0 when the
    path did not exist — and nothing else (in particular no cascaded child). -/
theorem C06_rollback_values_partial (D U W : List Str) (lo i : Nat) (side ch : VMap)
    (hinv : Config.Inv D U W lo side) (hcl : cleanStep D U W ch = true) (hlo : lo < i)
    (hst : ∀ c ∈ ch, c.index = i) (p : Str) :
    VMap.get (rollbackValues side ch) p =
      match VMap.get ch p with
      | some _ => some (rbEntry side p)
      | none => none :=
  rollback_get hinv (cleanStep_spec D U W ch hcl) hlo hst p

/-- Witness 4 (rollback of a subtree delete).  History: `set /s/n/p=1,/foo=x ; delete /s ; rollback`.
    The rollback values hold only a placeholder tombstone for `/s` (the cascaded child was never
    captured), and the rollback's own commit cascades again: `/s/n/p` is not restored. -/
theorem C06_rollback_subtree_full_fails :
    let s1 := commitValues 1 [] [up 1 "/s/n/p" "1", up 1 "/foo" "x"] id
    let ch := [del 2 "/s"]
    let s2 := commitValues 2 s1 ch id
    live s1 = [kv "/foo" "x", kv "/s/n/p" "1"] ∧
    rollbackValues s1 ch = [{ path := "/s".toList, value := [], deleted := true, index := 0 }] ∧
    live (commitValues 3 s2 (rollbackValues s1 ch) id) = [kv "/foo" "x"] := by
  decide

/-- Witness 6 (found while proving the theorem above): rollback of a *created* leaf.  History:
    `set /a/bc=1 ; set /a/b=2 ; rollback`.  The rollback value of the new `/a/b` is a tombstone, its
    commit cascades textually and deletes the sibling `/a/bc`, which the change never touched. -/
theorem C06_rollback_created_leaf_sibling_full_fails :
    let s1 := commitValues 1 [] [up 1 "/a/bc" "1"] id
    let ch := [up 2 "/a/b" "2"]
    let s2 := commitValues 2 s1 ch id
    live s1 = [kv "/a/bc" "1"] ∧ Clean [[up 1 "/a/bc" "1"], ch] = true ∧
    rollbackSafe s1 ch = false ∧
    live (commitValues 3 s2 (rollbackValues s1 ch) id) = [] := by
  decide

/-! ## Non-vacuity -/

private def h1 : VMap := [up 1 "/x" "1", up 1 "/y" "2", up 1 "/l[k=1]/v" "3"]
private def side1 : VMap := commitValues 1 [] h1 id
/-- an overwrite, a leaf delete, a new leaf and a new list entry in one change -/
private def ch2 : VMap := [up 2 "/x" "9", del 2 "/y", up 2 "/z" "4", up 2 "/l[k=2]/v" "5"]

example : cleanStep [] [] [] h1 = true := by decide
example : cleanStep ([] ++ Spec.deletes h1) ([] ++ paths h1) ([] ++ written h1) ch2 = true := by decide
example : rollbackSafe side1 ch2 = true := by decide
example : live (commitValues 2 side1 ch2 id) =
    [kv "/l[k=1]/v" "3", kv "/l[k=2]/v" "5", kv "/x" "9", kv "/z" "4"] := by decide

/-- the theorem applied to that state and change (the invariant comes from C03's preservation
    theorem), and the same fact by evaluation. -/
example : live (commitValues 3 (commitValues 2 side1 ch2 id) (rollbackValues side1 ch2) List.reverse) = live side1 :=
  C06_rollback_restores_partial _ _ _ 1 2 3 side1 ch2 id List.reverse
    (inv_commit [] [] [] 0 1 [] h1 id inv_empty (cleanStep_spec _ _ _ _ (by decide)) (by decide)
      (by decide) (fun _ => List.Perm.refl _))
    (by decide) (by decide) (by decide) (by decide) (fun _ => List.Perm.refl _)
    (fun m => List.reverse_perm m) (by decide)

example : live (commitValues 3 (commitValues 2 side1 ch2 id) (rollbackValues side1 ch2) List.reverse) =
    [kv "/l[k=1]/v" "3", kv "/x" "1", kv "/y" "2"] := by decide

end OnosVerif.Props.C06
