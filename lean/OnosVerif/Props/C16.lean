/-
C16 — textual paths and gNMI paths are one and the same.

Property theorems only (helper lemmas live in OnosVerif/Proofs/Path.lean).  The twin
(OnosVerif/Path/Model.lean) mirrors StrPathElem / SplitPath / ParseGNMIElements / GetParentPath and
is tied to the Go code by the correspondence check `harness/props/c16`.

Quantifier: all paths.  `pathAccepted` is the property's own domain (YANG-identifier names,
optionally module-prefixed, identifier key names, non-empty key values over ANY characters —
the accepted alphabet plus / ] [ \ = and everything else); `pathWF` is the weaker condition the
proofs need (`C16_accepted_is_wf`), so every theorem holds on a superset of the property's domain.
-/
import OnosVerif.Proofs.Path

namespace OnosVerif.Props.C16
open OnosVerif.Path

/-- every path in the property's domain is well-formed in the sense the proofs use. -/
theorem C16_accepted_is_wf (p : GPath) (h : pathAccepted p = true) : pathWF p = true :=
  pathAccepted_wf p h

/-- Round trip: converting a gNMI path to text and back yields the same elements and keys. -/
theorem C16_roundtrip (p : GPath) (h : pathWF p = true) : parsePath (strPathElem p) = .ok p := by
  unfold parsePath
  rw [splitPath_strPathElem p h]
  exact parseElements_bodies p h

/-- Injectivity: two different paths never share a textual form. -/
theorem C16_injective (p q : GPath) (hp : pathWF p = true) (hq : pathWF q = true)
    (h : strPathElem p = strPathElem q) : p = q := by
  have h1 := C16_roundtrip p hp
  have h2 := C16_roundtrip q hq
  rw [h] at h1
  rw [h1] at h2
  exact Except.ok.inj h2

/-- Splitting respects brackets and escapes: the tokens are exactly the elements' own texts,
    however many `/`, `]`, `[`, `\`, `=` their key values contain. -/
theorem C16_split_respects_brackets (p : GPath) (h : pathWF p = true) :
    splitPath (strPathElem p) = p.map (fun e => (strElem e).tail) := by
  rw [splitPath_strPathElem p h]
  apply List.map_congr_left
  intro e he
  have hwe : elemWF e = true := by
    simp only [pathWF, List.all_eq_true] at h; exact h e he
  rw [strElem_eq e (elemWF_sorted e hwe)]
  rfl

/-- `StrPath` (the form used by Set/Get) of a non-empty path is that same text. -/
theorem C16_strPath_nonempty (p : GPath) (h : p ≠ []) : strPath p = strPathElem p := by
  cases p with
  | nil => exact absurd rfl h
  | cons _ _ => rfl

/-- Parent (the part that holds): the parent of a path is that path without its last element,
    provided the last element carries no `/` in its name or key values.
    The full statement (any accepted key value) is false of code and twin alike:
    `C16_parent_full_fails`, known finding KF-C16-parent-slash. -/
theorem C16_parent_partial (p : GPath) (e : Elem) (hs : keysSorted e.keys = true)
    (hns : elemNoSlash e = true) :
    getParentPath (strPathElem (p ++ [e])) = strPathElem p :=
  getParentPath_append p e hs hns

def witnessParent : GPath :=
  [{ name := ['a'], keys := [] }, { name := ['l'], keys := [(['k'], ['x', '/', 'y'])] }]

/-- negation witness for the full parent statement: `/a/l[k=x/y]`. -/
theorem C16_parent_full_fails :
    pathAccepted witnessParent = true ∧
    getParentPath (strPathElem witnessParent) ≠ strPathElem witnessParent.dropLast := by
  decide

/-! non-vacuity: concrete non-trivial paths satisfy the hypotheses -/

def sample : GPath :=
  [{ name := "m:a".toList, keys := [] },
   { name := "list".toList, keys := [("j".toList, "x/y]z\\".toList), ("k".toList, "[1=2]".toList)] },
   { name := "b-c".toList, keys := [] }]

example : pathAccepted sample = true := by decide
example : pathWF sample = true := by decide
example : parsePath (strPathElem sample) = .ok sample := C16_roundtrip sample (by decide)
example : elemNoSlash { name := "b-c".toList, keys := [] } = true := by decide

end OnosVerif.Props.C16
