import OnosVerif.Path.Model
namespace OnosVerif.Props.C16
open OnosVerif.Path

theorem placeholder : strPathElem [] = [] := rfl

end OnosVerif.Props.C16
