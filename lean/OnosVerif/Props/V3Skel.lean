/-
Tie of the v3 twin (`OnosVerif/V3/Model.lean`, the model every protocol theorem of C20 is about) to the
current source of pkg/controller/v3/transaction/controller.go: every function of the v3 transaction
reconciler is regenerated on every run as a Lean function `Generated.v3sk_*` (translator
`harness/cmd/extract/skelsym.go`: the trace of one invocation - tracked assignments, store writes and the
southbound request, the return - as a function of the abstract state at the START of the invocation),
and the twin's outcome for the same function is proved equal to it, for every state in which the twin
does not report a panic of the real code and in which the ordinals the code subtracts one from are not
zero (a uint64 that would wrap; the skeleton subtracts in ℕ):

    proj (v3sk_f (gV3Of state env)) = outcomeTrace (twin_f state env)

A guard that changes (`==` to `<=`, a dropped conjunct, another cursor), a write that is dropped, added or
re-ordered, a status or cursor assigned another value, a re-queue that is dropped or names another
transaction, a device answer classified differently: each changes the regenerated function and the theorem
below for that function no longer checks.  Not seen (left to the correspondence stream): the values moved by
the `plumbing` assignments, the code
below the calls (stores, `applyValues`' guards up to `conn.Set`, the device).
-/
import OnosVerif.Proofs.V3SkelCommit

namespace OnosVerif.Props.V3Skel
open OnosVerif.Generated OnosVerif.V3 OnosVerif.V3.Skel

/-- commitChange: wait for the previous change, claim `Committed.Target`, record the rollback index, validate,
    fail or commit, advance the cursors, re-queue the next transaction -/
theorem C20_skel_commitChange (s : Sys) (i : Nat) (t : Tx) (v : View) (verdict : Verdict)
    (hnp : ∀ p, commitChange s i t v verdict ≠ .panic p) :
    proj (v3sk_commitChange (gV3Of i t v.c (getTx s v.c.cIndex).isNone ((getTx s v.c.cIndex).getD default)
        (xCommit (treeFails ((validationValues v.cVals t.values).map (·.2))) verdict))) =
      outcomeTrace i v.c (commitChange s i t v verdict) :=
  skel_v3_commitChange s i t v verdict hnp

/-- applyChange: wait for the applied ordinal, abort below the rollback index, claim `Applied.Target`, send,
    classify the device's answer (retry / superseded / failed with its failure type), advance the cursors -/
theorem C20_skel_applyChange (s : Sys) (i : Nat) (t : Tx) (v : View) (ans : DevAns)
    (hnp : ∀ p, applyChange s i t v ans ≠ .panic p) (hord : t.cord ≠ 0) :
    proj (v3sk_applyChange (gV3Of i t v.c (getTx s v.c.aIndex).isNone ((getTx s v.c.aIndex).getD default)
        (xApply s v.c (addDeleteChildren i t.values v.cVals) ans (classify ans)))) =
      outcomeTraceA (t.ca == .aborted || t.ca == .failed) v.c (applyChange s i t v ans) :=
  skel_v3_applyChange s i t v ans hnp hord

/-- commitRollback -/
theorem C20_skel_commitRollback (s : Sys) (i : Nat) (t : Tx) (v : View) (x : SkX)
    (hnp : ∀ p, commitRollback s i t v ≠ .panic p) :
    proj (v3sk_commitRollback (gV3Of i t v.c (getTx s v.c.cIndex).isNone ((getTx s v.c.cIndex).getD default) x)) =
      outcomeTrace i v.c (commitRollback s i t v) :=
  skel_v3_commitRollback s i t v x hnp

/-- applyRollback: finish (abort / cancel / skip) the change's own apply phase first, then the rollback
    apply proper -/
theorem C20_skel_applyRollback (s : Sys) (i : Nat) (t : Tx) (v : View) (ans : DevAns)
    (hnp : ∀ p, applyRollback s i t v ans ≠ .panic p) (hord : t.cord ≠ 0) (hrord : t.rord ≠ 0) :
    proj (v3sk_applyRollback (gV3Of i t v.c (getTx s v.c.aIndex).isNone ((getTx s v.c.aIndex).getD default)
        (xApply s v.c (addDeleteChildren i t.rvals v.cVals) ans (classifyRb ans)))) =
      outcomeTraceA false v.c (applyRollback s i t v ans) :=
  skel_v3_applyRollback s i t v ans hnp hord hrord

/-- reconcileChange / reconcileRollback: the second function runs only if the first fell through; an error
    of either is passed on; ok returns that function's result -/
theorem C20_skel_reconcileChange (i : Nat) (t : Tx) (c : Cfg) (pn : Bool) (p : Tx) (first second : Outcome) :
    proj (v3sk_change (gV3Of i t c pn p (xChain first second))) =
      if t.phase = .change then chainTrace first second else [.ret "controller.Result{}, false, nil" []] :=
  skel_v3_change i t c pn p first second

theorem C20_skel_reconcileRollback (i : Nat) (t : Tx) (c : Cfg) (pn : Bool) (p : Tx) (first second : Outcome) :
    proj (v3sk_rollback (gV3Of i t c pn p (xChain first second))) =
      if t.phase = .rollback then chainTrace first second else [.ret "controller.Result{}, false, nil" []] :=
  skel_v3_rollback i t c pn p first second

/-- … and that chain is the twin's `orElse`, which is how `planTx` composes the four functions -/
theorem C20_skel_chain_is_orElse (first second : Outcome) (h : commitLike first = true)
    (hp : ∀ q, first ≠ .panic q) : chainTrace first second = resultTrace (first.orElse second) :=
  orElse_trace first second h hp

theorem C20_skel_planTx (s : Sys) (i : Nat) (t : Tx) (verdict : Verdict) (ans : DevAns) (ht : getTx s i = some t) :
    planTx s i verdict ans =
      match t.phase with
      | .change => (commitChange s i t (view s) verdict).orElse (applyChange s i t (view s) ans)
      | .rollback => (commitRollback s i t (view s)).orElse (applyRollback s i t (view s) ans) :=
  planTx_chain s i t verdict ans ht

/-- reconcileTransaction -/
theorem C20_skel_reconcileTransaction (i : Nat) (t : Tx) (c : Cfg) (pn : Bool) (p : Tx) (o : Outcome) :
    proj (v3sk_dispatch (gV3Of i t c pn p (xChain o .fall))) =
      if retErr o then [.ret "controller.Result{}, err" []]
      else if retOk o then [.ret "result, nil" []]
      else [.ret "controller.Result{}, nil" []] :=
  skel_v3_dispatch i t c pn p o

/-- regenerated: WHICH transaction every function waits for - the twin's `prevBusy…` tests look up
    `Committed.Index` in the commit functions and `Applied.Index` in the apply functions, and so does
    the source (the skeleton theorems above take the looked-up transaction as a parameter: this fact is
    what says which one it is) -/
theorem C20_fact_prev_lookups :
    v3PrevLookups = [("commitChange", "configuration.Committed.Index"), ("applyChange", "configuration.Applied.Index"),
      ("commitRollback", "configuration.Committed.Index"), ("applyRollback", "configuration.Applied.Index"),
      ("applyRollback", "configuration.Applied.Index")] := by decide

/-! Non-vacuity: states in which the hypotheses hold and the functions do something. -/

example : ∃ p, applyChange {} 1 { cc := .complete, ca := .pending, cord := 1 } { c := { aTarget := 1 }, cVals := [], aVals := [] } .ok
    = .plan p ∧ p.acts = [.tApplyBegin 1] := ⟨_, rfl, rfl⟩

example : commitChange {} 1 { } { c := { }, cVals := [], aVals := [] } .valid =
    .plan { acts := [.cTarget 1, .tCommitBegin 1 0 []] } := rfl

end OnosVerif.Props.V3Skel
