/-
C06 (protocol part) — only the most recent change of a target may be rolled back; a refused
rollback alters nothing; an accepted one replays the values captured when the change was validated
and puts the configuration's `Index` back to the index that change displaced.

The values part (what replaying the captured values does to the stored leaves) is in
`Props/C06.lean` over the `Config` twin; this file is about the v2 protocol twin (OnosVerif/V2,
tied to the real reconcilers by the correspondence check `harness/props/v2proto`, profile `rb`).

Quantifier: every state, proposal, environment (plan-level statements) and every reachable world
(`C06_refused_never_merges`, by C01's induction): any interleaving of the store writes of any
number of in-flight invocations, lost writes, crashes, faults.
-/
import OnosVerif.Props.C01

namespace OnosVerif.Props.C06P
open OnosVerif.V2

/-- the validation of a proposal takes place at all (it is in VALIDATING, its configuration exists,
    its predecessor on the target has been committed and the model plugin is registered) -/
structure Validating (s : Sys) (p : Proposal) (env : Env) (c : Cfg) (verdict : Bool) : Prop where
  opened : p.validate = .opened
  cfg : s.cfg? p.target = some c
  predCommitted : ¬ (p.prev ≠ 0 ∧ c.committed ≠ p.prev)
  plugin : env.plugin = some verdict

/-- A rollback request for anything other than the change the configuration currently reflects
    (`Configuration.Index`) is refused with FORBIDDEN — whatever the plugin would say, and nothing but
    the proposal's own status is written. -/
theorem C06_not_latest_refused (s : Sys) (p : Proposal) (env : Env) (c : Cfg) (verdict : Bool)
    (h : Validating s p env c verdict) (hr : p.isRollback = true) (hne : c.index ≠ p.rollbackOf) :
    propValidate s p env =
      { effects := [.prop (p.target, p.index) p.version (.validateFailed .forbidden)] } := by
  unfold propValidate
  simp only [h.opened, h.cfg, h.plugin, h.predCommitted, hr]
  simp [hne]

/-- … for an index whose proposal does not exist: NOT_FOUND. -/
theorem C06_missing_refused (s : Sys) (p : Proposal) (env : Env) (c : Cfg) (verdict : Bool)
    (h : Validating s p env c verdict) (hr : p.isRollback = true) (he : c.index = p.rollbackOf)
    (hm : s.prop? (p.target, p.rollbackOf) = none) :
    propValidate s p env =
      { effects := [.prop (p.target, p.index) p.version (.validateFailed .notFound)] } := by
  unfold propValidate
  simp only [h.opened, h.cfg, h.plugin, h.predCommitted, hr]
  simp [he, hm]

/-- … for a rollback itself: FORBIDDEN. -/
theorem C06_rollback_of_rollback_refused (s : Sys) (p : Proposal) (env : Env) (c : Cfg) (verdict : Bool)
    (h : Validating s p env c verdict) (hr : p.isRollback = true) (he : c.index = p.rollbackOf)
    (tp : Proposal) (hm : s.prop? (p.target, p.rollbackOf) = some tp) (htr : tp.isRollback = true) :
    propValidate s p env =
      { effects := [.prop (p.target, p.index) p.version (.validateFailed .forbidden)] } := by
  unfold propValidate
  simp only [h.opened, h.cfg, h.plugin, h.predCommitted, hr]
  simp [he, hm, htr]

/-- The only rollback that can be validated names the change the configuration reflects, and that
    proposal is a change: it is handed exactly the values and the index captured when that change
    was validated. -/
theorem C06_validated_rollback_is_latest_change (s : Sys) (p : Proposal) (env : Env) (c : Cfg)
    (verdict : Bool) (h : Validating s p env c verdict) (hr : p.isRollback = true)
    (i : Nat) (rb : Config.VMap) (e : Effect)
    (he : e ∈ (propValidate s p env).effects)
    (hd : e = .prop (p.target, p.index) p.version (.validateDone i rb)) :
    c.index = p.rollbackOf ∧
    ∃ tp, s.prop? (p.target, p.rollbackOf) = some tp ∧ tp.isRollback = false ∧
      i = tp.rbIndex ∧ rb = tp.rbValues := by
  subst hd
  unfold propValidate at he
  simp only [h.opened, h.cfg, h.plugin, h.predCommitted, hr] at he
  by_cases hne : c.index = p.rollbackOf
  · refine ⟨hne, ?_⟩
    cases hm : s.prop? (p.target, p.rollbackOf) with
    | none => simp [hne, hm] at he
    | some tp =>
      cases htr : tp.isRollback with
      | true => simp [hne, hm, htr] at he
      | false =>
        refine ⟨tp, rfl, htr, ?_⟩
        cases verdict <;> simp [hne, hm, htr] at he
        exact ⟨he.1, he.2⟩
  · simp [hne] at he

/-- A validation, of a change or of a rollback, writes nothing but the proposal's own status: no
    configuration, no side map, no device. -/
theorem C06_validation_touches_only_the_proposal (s : Sys) (p : Proposal) (env : Env) (e : Effect)
    (he : e ∈ (propValidate s p env).effects) :
    ∃ u, e = .prop (p.target, p.index) p.version u := by
  unfold propValidate at he
  repeat' split at he
  all_goals first
    | (simp [Plan.nop] at he; done)
    | (simp at he; exact ⟨_, he⟩)

/-- A refused rollback never merges anything, in any continuation: once one of the proposals of
    the rollback transaction is validate-FAILED, no target's configuration is ever changed by that
    transaction (C01's all-or-nothing, instantiated). -/
theorem C06_refused_never_merges (w : World) (hr : Reachable w) (i : Nat) (t : Tx)
    (ht : w.sys.tx? i = some t) (ps : List PropId) (hps : t.proposals = some ps)
    (pid : PropId) (hpid : pid ∈ ps) (p : Proposal) (hp : w.sys.prop? pid = some p)
    (hf : p.validate = .failed) (steps : List Step) :
    ∀ tgt, (tgt, i) ∉ (run w steps).sys.commitLog :=
  C01.C01_failed_validation_never_merges w hr i t ht ps hps pid hpid p hp hf steps

/-- The commit of a validated rollback replays the captured values and puts `Configuration.Index`
    back to the captured index (so the change that one displaced is the next legal rollback). -/
theorem C06_rollback_commit_replays_captured (s : Sys) (p : Proposal) (env : Env) (c : Cfg)
    (ho : p.commit = .opened) (hc : s.cfg? p.target = some c) (hg : c.committed = p.prev)
    (hr : p.isRollback = true) :
    (propCommit s p env).effects =
      [.cfgVals p.target
          (Config.applyAll
            (permute env.ordU (Config.addDeleteChildren p.index (permute env.ordC p.rbValues) [] c.view).1)
            (Config.addDeleteChildren p.index (permute env.ordC p.rbValues) [] c.view).2),
       .cfg p.target c.version (.commit p.index p.rbIndex) none c.aview .error,
       .prop (p.target, p.index) p.version .commitDone] := by
  unfold propCommit
  simp only [ho, hc, hg, hr, if_true]

/-! ### non-vacuity: a concrete reachable history with every kind of rollback request -/

def pv (p v : String) : Config.PV := { path := p.toList, value := v.toList, deleted := false, index := 0 }
def txA : Tx := { index := 0, changes := [(1, [pv "/a" "1"])] }
def txB : Tx := { index := 0, changes := [(1, [pv "/a" "2"])] }
def rb (k : Nat) : Tx := { index := 0, isRollback := true, rollbackIndex := k }
def drive (w : World) : World := run w (autoSteps 20 w (fun _ => {}))
def w1 : World := drive (run {} [.fault (.relUp { id := 1, target := 1, conn := true }), .nbSet txA])
def w2 : World := drive (run w1 [.nbSet txB])
def w3 : World := drive (run w2 [.nbSet (rb 1)])   -- transaction 3: not the latest change
def w4 : World := drive (run w3 [.nbSet (rb 2)])   -- transaction 4: the latest change
def w5 : World := drive (run w4 [.nbSet (rb 4)])   -- transaction 5: a rollback
def w6 : World := drive (run w5 [.nbSet (rb 9)])   -- transaction 6: no such transaction
def w7 : World := drive (run w6 [.nbSet (rb 1)])   -- transaction 7: change 1 is the latest again

theorem w1_reachable : Reachable w1 := reachable_run _ (reachable_run _ reachable_init _) _
theorem w2_reachable : Reachable w2 := reachable_run _ (reachable_run _ w1_reachable _) _
theorem w3_reachable : Reachable w3 := reachable_run _ (reachable_run _ w2_reachable _) _
theorem w4_reachable : Reachable w4 := reachable_run _ (reachable_run _ w3_reachable _) _
theorem w5_reachable : Reachable w5 := reachable_run _ (reachable_run _ w4_reachable _) _
theorem w6_reachable : Reachable w6 := reachable_run _ (reachable_run _ w5_reachable _) _
theorem w7_reachable : Reachable w7 := reachable_run _ (reachable_run _ w6_reachable _) _

/- `set /a=1; set /a=2; rollback 1` (refused, FORBIDDEN) `; rollback 2` (accepted, /a=1 again)
    `; rollback 4` (a rollback: FORBIDDEN) `; rollback 9` (NOT_FOUND) `; rollback 1` (accepted: the
    configuration and the device are empty again, `Index` is back to 0); the refused ones merged nothing. -/
set_option maxRecDepth 100000 in
example : w7.sys.txs.map (fun t => (t.index, t.state, t.failure)) =
      [(1, .applied, none), (2, .applied, none), (3, .failed, some .forbidden), (4, .applied, none),
       (5, .failed, some .forbidden), (6, .failed, some .notFound), (7, .applied, none)] := by decide +kernel
set_option maxRecDepth 100000 in
example : w4.sys.cfgs.map (fun c => (c.index, Config.live c.view)) = [(1, [(['/', 'a'], ['1'])])] := by decide +kernel
set_option maxRecDepth 100000 in
example : w4.sys.devs.map (fun d => Config.live d.2) = [[(['/', 'a'], ['1'])]] := by decide +kernel
set_option maxRecDepth 100000 in
example : w7.sys.cfgs.map (fun c => (c.index, c.committed, c.applied)) = [(0, 7, 7)] := by decide +kernel
set_option maxRecDepth 100000 in
example : w7.sys.cfgs.map (fun c => Config.live c.view) = [[]] := by decide +kernel
set_option maxRecDepth 100000 in
example : w7.sys.devs.map (fun d => Config.live d.2) = [[]] := by decide +kernel
set_option maxRecDepth 100000 in
example : w7.sys.commitLog = [(1, 1), (1, 2), (1, 4), (1, 7)] := by decide +kernel

end OnosVerif.Props.C06P
