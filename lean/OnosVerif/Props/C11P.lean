/-
C11 (protocol part) — a device refusing a change fails that change only, and only real refusals.
The classification tables are in Props/C11.lean (regenerated from the switch in reconcileApply);
here: what the proposal reconciler does with each class, over the v2 twin.
-/
import OnosVerif.Proofs.V2Plans

namespace OnosVerif.Props.C11P
open OnosVerif.V2

/-- Unavailable / cancelled / deadline exceeded (`retry`) and a superseded master (`wait`) never
    produce a southbound effect or any record write that depends on the device: whenever a request
    is part of a plan, the device accepted it or really refused it. -/
theorem C11_transient_sends_nothing (s : Sys) (id : PropId) (env : Env) (r : DevReq)
    (hd : env.dev = .retry ∨ env.dev = .wait) :
    .dev r ∉ (propReconcile s id env).effects := by
  intro h
  obtain ⟨_, _, _, _, _, _, _, _, _, _, _, _, _, _, _, _, _, hcls⟩ := prop_dev_guard s id env r h
  rcases hcls with ⟨_, h1⟩ | ⟨_, f, h1⟩ <;> rcases hd with h2 | h2 <;> rw [h1] at h2 <;> cases h2

/-- A transient answer changes no record: in the apply branch that reached the device the plan is
    empty (`retry`: the error re-queues the same proposal; `wait`: nothing) — for bursts of any
    length, since each attempt starts from the unchanged state. -/
theorem C11_transient_no_effect (s : Sys) (p : Proposal) (c : Cfg) (rel : Rel) (env : Env)
    (hc : s.cfg? p.target = some c) (hap : p.apply = .opened)
    (h1 : ¬ c.applied ≥ p.index) (h2 : ¬ (p.prev ≠ 0 ∧ c.applied ≠ p.prev))
    (h3 : c.state ≠ .synchronizing) (h4 : ¬ c.appliedTerm < c.term) (h5 : c.master ≠ 0)
    (h6 : s.rel? c.master = some rel) (h7 : rel.conn = true) :
    (env.dev = .retry → propApply s p env = { err := true }) ∧
    (env.dev = .wait → propApply s p env = .nop) := by
  constructor <;> intro hd <;> unfold propApply <;>
    simp only [hap, hc, h1, h2, h3, h4, h5, h6, h7, hd, if_false, Bool.not_true, Bool.false_eq_true,
      ne_eq, not_false_eq_true, not_true_eq_false, and_self, and_true, and_false, ge_iff_le] <;>
    simp_all

/-- A refusal is local: every effect of any proposal invocation concerns its own target only
    (its proposal, its chain neighbour, its configuration, its device) and never a transaction
    record — other targets and later transactions are not touched. -/
theorem C11_failure_local (s : Sys) (id : PropId) (env : Env) :
    ∀ e ∈ (propReconcile s id env).effects, e.tgt = some id.1 :=
  prop_plan_local s id env

/-- A refused request is recorded as refused (the device keeps its configuration, see `exec`), in
    the term and over the connection of the master. -/
theorem C11_refusal_recorded (s : Sys) (id : PropId) (env : Env) (r : DevReq)
    (h : .dev r ∈ (propReconcile s id env).effects) (f : Failure) (hd : env.dev = .fail f) :
    r.accepted = false := by
  obtain ⟨_, _, _, _, _, _, _, _, _, _, _, _, _, _, _, _, _, hcls⟩ := prop_dev_guard s id env r h
  rcases hcls with ⟨_, h1⟩ | ⟨h0, _⟩
  · rw [h1] at hd; cases hd
  · exact h0

/-- … and a refused request leaves the device exactly as it was. -/
theorem C11_refused_device_unchanged (s : Sys) (r : DevReq) (h : r.accepted = false) (t : Tgt) :
    (exec s (.dev r)).1.dev t = s.dev t := by
  simp [exec, h, Sys.dev]

end OnosVerif.Props.C11P
