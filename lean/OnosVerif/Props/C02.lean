/-
C02 — changes reach a target's configuration and device in transaction-log order.

Over the v2 twin (OnosVerif/V2; tied to the real reconcilers by `harness/props/v2proto`).
`commitLog` is the ghost list of (target, index) in the order the entry compare-and-set of a commit
succeeded; `devLog` the list of southbound requests.
-/
import OnosVerif.Proofs.V2CursorInd
import OnosVerif.V2.Auto

namespace OnosVerif.Props.C02
open OnosVerif.V2

/-- Merge order: for every target, the changes of accepted transactions are merged into its stored
    configuration in strictly increasing log-index order — in every reachable world (any
    interleaving of individual writes, lost/failed writes, crashes, faults). -/
theorem C02_commit_order (w : World) (hr : Reachable w) :
    w.sys.commitLog.Pairwise (fun a b => a.1 = b.1 → a.2 < b.2) :=
  (winvC_reachable w hr).inv.log_sorted

/-- The commit cursor of a target covers everything merged so far and never goes back. -/
theorem C02_committed_cursor (w : World) (hr : Reachable w) (steps : List Step) (t : Tgt) (c : Cfg)
    (hc : w.sys.cfg? t = some c) :
    (∀ i, (t, i) ∈ w.sys.commitLog → i ≤ c.committed) ∧
    ∃ c', (run w steps).sys.cfg? t = some c' ∧ c.committed ≤ c'.committed := by
  have hw := winvC_reachable w hr
  constructor
  · intro i hi
    obtain ⟨c0, h0, hle⟩ := hw.inv.log_bound (t, i) hi
    rw [hc] at h0
    simp only [Option.some.injEq] at h0
    subst h0; exact hle
  · obtain ⟨c', h1, _, _, h4⟩ := (run_evolvesC w hw steps).cfg t c hc
    exact ⟨c', h1, h4⟩

/-- The per-target chain of proposals is ordered by index: a proposal's predecessor has a smaller
    index. -/
theorem C02_chain_increasing (w : World) (hr : Reachable w) (id : PropId) (p : Proposal)
    (hp : w.sys.prop? id = some p) : p.prev < p.index :=
  (winvC_reachable w hr).inv.prop_prev id p hp

/-- Apply order: a change is sent to the device only in a state where the applied cursor stands
    exactly at the proposal's predecessor in the chain (every earlier chained proposal has finished
    applying, failed with a recorded failure, or was aborted) and below its own index — for EVERY
    state an invocation may be started in. -/
theorem C02_apply_after_predecessors (s : Sys) (id : PropId) (env : Env) (r : DevReq)
    (h : .dev r ∈ (propReconcile s id env).effects) :
    ∃ p c, s.prop? id = some p ∧ s.cfg? p.target = some c ∧ r.kind = .apply p.index ∧
      c.applied < p.index ∧ (p.prev = 0 ∨ c.applied = p.prev) := by
  obtain ⟨p, c, _, h1, h2, _, _, _, _, h7, _, _, _, _, _, h13, h14, _⟩ := prop_dev_guard s id env r h
  exact ⟨p, c, h1, h2, h7, h13, h14⟩

/-! non-vacuity: two transactions on one target are merged in order -/

def pv (p : String) (v : String) : Config.PV := { path := p.toList, value := v.toList, deleted := false, index := 0 }
def w0 : World := run {} [.fault (.relUp { id := 1, target := 1 }),
  .nbSet { index := 0, changes := [(1, [pv "/a" "1"])] }, .nbSet { index := 0, changes := [(1, [pv "/a" "2"])] }]
def w1 : World := run w0 (autoSteps 26 w0 (fun _ => {}))

example : w1.sys.commitLog = [(1, 1), (1, 2)] ∧
    w1.sys.devLog.map (fun r => r.kind) = [.apply 1, .apply 2] ∧
    (w1.sys.prop? (1, 2)).map (·.prev) = some 1 := by decide +kernel

end OnosVerif.Props.C02
