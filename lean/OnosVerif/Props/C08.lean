/-
C08 — every Set and rollback request is answered, and the answer is truthful.

Property theorems only.  The twin (OnosVerif/NB/Wait.lean) is the wait loop of `Set` and
`RollbackTransaction` over the comparison tables and the `Failure.Type` switch REGENERATED from the Go
sources, applied to what the v2 transaction store's watch shows of a status path (C15).

Quantifier: every status path (any sequence of status writes, with or without a recorded failure, of any
length), every placement of the handler's subscription in it — replay read after `j` writes, dispatcher at
`k ≤ j` when the listener registered: none, some or all phases completed between "create" and "subscribe",
older events and duplicates following the replayed one —, synchronous and asynchronous, both handlers.
-/
import OnosVerif.Proofs.Wait
import OnosVerif.Proofs.Watch

namespace OnosVerif.Props.C08
open OnosVerif.NB.Wait
open OnosVerif.Generated.WaitFacts

/-- Success is truthful: if the handler answers OK, some status of the transaction had reached the stage the
    caller asked to wait for (committed or applied for an asynchronous request, applied for a synchronous
    one; a rollback is always synchronous). -/
theorem C08_success_sound (h : Handler) (sync : TxSync) (path : List Status) (k j : Nat)
    (hok : waitLoop h sync (shown path k j) = .ok) : ∃ s ∈ path, awaited sync s.state = true := by
  obtain ⟨e, he, hc⟩ := waitLoopT_ok _ _ _ _ _ hok
  refine ⟨e, shown_subset path k j e he, ?_⟩
  exact success_awaited h (sync, e.state) (List.contains_iff_mem.mp hc)

/-- It always answers: whenever the latest status of the transaction is one after which nothing the caller
    waits for can still happen (the awaited stage, or FAILED), the handler returns — wherever in the path it
    subscribed, including after the last write ("all phases done before subscribing") — after reading at
    most the events shown; it never keeps waiting for a transaction that has already finished. -/
theorem C08_always_answers (h : Handler) (sync : TxSync) (path : List Status) (k j : Nat)
    (hkj : k ≤ j) (hj : j < path.length) (l : Status) (hl : path.getLast? = some l)
    (hfin : finished sync l.state = true) : waitLoop h sync (shown path k j) ≠ .ctxDone :=
  waitLoopT_answers _ _ _ _ _ l (last_shown path k j hkj hj l hl) (finished_covered h sync l.state hfin)

/-- The error is truthful: if the handler answers with an error of kind `e` (other than the context's), some
    status of the transaction was FAILED and `e` is the class of the failure recorded with it (Unknown when
    none was recorded). -/
theorem C08_failure_class (h : Handler) (sync : TxSync) (path : List Status) (k j : Nat) (e : ErrKind)
    (herr : waitLoop h sync (shown path k j) = .err e) :
    ∃ s ∈ path, s.state = .failed ∧ e = ownKind s.failure := by
  obtain ⟨s, hs, hc, hk⟩ := waitLoopT_err _ _ _ _ _ e herr
  refine ⟨s, shown_subset path k j s hs, ?_, ?_⟩
  · exact failed_is_failed h (sync, s.state) (List.contains_iff_mem.mp hc)
  · rw [hk]; exact failure_table_exact h s.failure

/-- the regenerated `Failure.Type` switches of both handlers are total and map every failure type to the
    error kind of its own class. -/
theorem C08_failure_tables_exact (h : Handler) (f : Option FailType) : failureKind h f = ownKind f :=
  failure_table_exact h f

/-- the regenerated comparison expressions of both handlers: success exactly on the awaited stage, failure
    exactly on FAILED. -/
theorem C08_tables (h : Handler) (sync : TxSync) (st : TxState) :
    ((successTable h).contains (sync, st) = awaited sync st) ∧
    ((failedTable h).contains (sync, st) = (st == .failed)) := by
  cases h <;> cases sync <;> cases st <;> decide

/-- A successful Set response lists exactly the target/path pairs of the change it stored, each marked DELETE
    iff the path value is a delete — no pair missing, none invented, none repeated beyond the map's entries —
    and carries the index `Create` handed back (C15_index_is_next: the position under which the change is
    stored in the transaction log). -/
theorem C08_response_exact (requested : TxSync) (path : List Status) (k j : Nat) (c : Change) (index : Nat)
    (hok : (answer .set requested path k j c index).outcome = .ok) :
    (∀ t p d, (t, p, d) ∈ (answer .set requested path k j c index).results ↔ ∃ pvs, (t, pvs) ∈ c ∧ (p, d) ∈ pvs) ∧
    (answer .set requested path k j c index).results.length = (c.map (fun tp => tp.2.length)).sum ∧
    (answer .set requested path k j c index).index = index := by
  unfold answer at hok ⊢
  simp only at hok ⊢
  cases ho : waitLoop Handler.set (effectiveSync Handler.set requested) (shown path k j) with
  | ok => exact ⟨fun t p d => mem_results c t p d, length_results c, rfl⟩
  | err e => rw [ho] at hok; cases hok
  | ctxDone => rw [ho] at hok; cases hok

/-- … and a response that is not a success lists nothing. -/
theorem C08_no_results_without_success (h : Handler) (requested : TxSync) (path : List Status) (k j : Nat) (c : Change)
    (index : Nat) (hno : (answer h requested path k j c index).outcome ≠ .ok) :
    (answer h requested path k j c index).results = [] := by
  unfold answer at hno ⊢
  simp only at hno ⊢
  cases ho : waitLoop h (effectiveSync h requested) (shown path k j) with
  | ok => rw [ho] at hno; cases h <;> exact absurd rfl hno
  | err e => cases h <;> rfl
  | ctxDone => cases h <;> rfl

/-! ## the subscribe step loses no final event

The theorems above are about what the handler is SHOWN; that the latest status is among it (`last_shown`) is the
watch semantics of the store the handlers subscribe to — the v2 transaction store — and rests on the shape of its
`Watch`, regenerated on every run. -/

/-- regenerated: `Watch` of the v2 transaction store puts the listener into the dispatcher's maps before it returns, on
    every path (with `WithReplay()` too), and before the replay reads the current state. -/
theorem C08_subscribe_registers_first : (OnosVerif.Store.Watch.codeCfg .tx2).registerFirst = true := by decide

/-- regenerated: a handler that gives up (its context is cancelled) leaves its watch through a
    `case <-ctx.Done():` branch; every such return of the v2 transaction store's per-watch goroutine first
    starts the endless drain of its internal channel, so a departed handler never blocks the dispatcher that
    every other waiting handler depends on ("it never keeps waiting for a transaction that has already
    finished" needs the dispatcher alive). -/
theorem C08_fact_departed_handler_is_drained :
    OnosVerif.Generated.StoreFacts.v2TxWatchCancelReturnsDrained = OnosVerif.Generated.StoreFacts.v2TxWatchCancelReturns ∧
    0 < OnosVerif.Generated.StoreFacts.v2TxWatchCancelReturns := by decide

/-- The subscribe step loses no final event: in every reachable state of the v2 transaction store's watch machine (any
    interleaving of the controllers' writes with the handler's `Watch(WithReplay, WithTransactionID id)`, its replay
    read and its deliveries, other watchers doing whatever they do), once the dispatcher has caught up and the
    handler's goroutine sits in its forward loop, the last status the handler was shown of its transaction is the
    stored one — so a transaction that has finished has been shown finished, and `C08_always_answers` applies. -/
theorem C08_subscribe_loses_no_final_event (s : OnosVerif.Store.Watch.St)
    (hr : OnosVerif.Store.Watch.Reachable (OnosVerif.Store.Watch.codeCfg .tx2) s)
    (hd : s.disp = .idle) (hp : s.dpos = s.evs.length)
    (i : Nat) (w : OnosVerif.Store.Watch.Watcher) (hw : s.ws[i]? = some w) (hloop : w.phase = .loop) (hq : w.queue = [])
    (id : OnosVerif.Store.Key) (hkey : w.key = some id) (hrep : w.replay = true) :
    OnosVerif.Store.Watch.lastFor id w.delivered = OnosVerif.Store.Watch.lastFor id s.evs := by
  have hi := OnosVerif.Store.Watch.inv_reachable _ C08_subscribe_registers_first s hr
  have hc : OnosVerif.Store.Watch.covers w id = true := by
    unfold OnosVerif.Store.Watch.covers; rw [hkey]; simp
  exact (OnosVerif.Store.Watch.sees_latest_of_inv _ s hi hd hp i w hw hloop hq id hc).1 hrep

/-- … and with the registration behind the replay (the same machine, `registerFirst := false`) a finishing write that
    lands between the replay read and the registration is never shown: the handler's last status stays the replayed one. -/
example : ∃ s, OnosVerif.Store.Watch.run { OnosVerif.Store.Watch.idealCfg with registerFirst := false } {}
      [.write ['t'], .pick, .watch (some ['t']) true, .replayRead 0, .write ['t'], .pick, .deliver 0] = some s ∧
    s.disp = .idle ∧ s.dpos = s.evs.length ∧
    (s.ws[0]?).map (fun w => OnosVerif.Store.Watch.lastFor ['t'] w.delivered) = some (some 1) ∧
    OnosVerif.Store.Watch.lastFor ['t'] s.evs = some 2 := by
  refine ⟨_, rfl, ?_⟩
  decide

/-- a rollback is created synchronous (regenerated), so it is answered on APPLIED or FAILED only. -/
theorem C08_rollback_is_synchronous (requested : TxSync) : effectiveSync .rollback requested = .synchronous := by
  cases requested <;> decide

/-! ## the regression repaired by commit 9f3a01d, kept as a variant -/

def applied4 : List Status := [{ state := .pending }, { state := .validated }, { state := .committed }, { state := .applied }]

/-- with the success table as it was (asynchronous: COMMITTED only), an asynchronous request whose transaction is
    already APPLIED when the handler subscribes is shown APPLIED alone and waits until its context expires. -/
theorem C08_always_answers_failed_before_fix :
    finished .asynchronous .applied = true ∧
    waitLoopT preFixSuccess setWaitFailed (failureKind .set) .asynchronous (shown applied4 3 3) = .ctxDone := by
  decide

/-- … the handler as it is answers OK on the same placement, and on every other one. -/
example : ∀ j ∈ List.range 4, ∀ k ∈ List.range (j + 1), waitLoop .set .asynchronous (shown applied4 k j) = .ok := by decide

/-! ## non-vacuity -/

def failedAtApply : List Status :=
  [{ state := .pending }, { state := .validated }, { state := .committed }, { state := .failed, failure := some .unavailable }]

example : waitLoop .set .synchronous (shown failedAtApply 1 2) = .err .unavailable := by decide
example : waitLoop .set .asynchronous (shown failedAtApply 0 1) = .ok := by decide
example : waitLoop .rollback .synchronous (shown failedAtApply 3 3) = .err .unavailable := by decide
example : failedAtApply.getLast? = some { state := .failed, failure := some .unavailable } ∧
    finished .synchronous .failed = true := by decide
example : waitLoop .set .synchronous (shown [{ state := .pending }, { state := .committed }] 0 1) = .ctxDone := by decide
example : (answer .set .asynchronous applied4 0 0 [("t1".toList, [("/a".toList, false), ("/b".toList, true)])] 7).results
    = [("t1".toList, "/a".toList, false), ("t1".toList, "/b".toList, true)] := by decide

end OnosVerif.Props.C08
