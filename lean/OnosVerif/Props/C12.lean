/-
C12 — no request can crash the server.

Property theorems only (helper lemmas: OnosVerif/Proofs/NBTotal.lean, NBRegex.lean; twin:
OnosVerif/NB/Model.lean, Text.lean).  In the twin every Go operation that can panic on request
data — a slice expression with computed bounds, a field read through a possibly-nil message
pointer, a write to a possibly-nil map, `regexp.MustCompile` on request text — is a primitive that
returns `Except … (panic site)`; the theorems say which handler programs can reach such a value.

Quantifier: every wire-decodable request — the request types are structures with `Option` for
every message-typed field, repeated fields are lists of present members, a decoded map may lack a
value — any environment, any value conversion and plugin (`abs`).  The twin is tied to the real
handlers by `harness/props/c12` (every request through the real handler under recover(), created
transactions through the real transaction and proposal reconcilers under recover()).
-/
import OnosVerif.Proofs.NBTotal

namespace OnosVerif.Props.C12
open OnosVerif OnosVerif.Path OnosVerif.NB

/-! ## translator facts the totality theorems stand on -/

/-- the regular expressions of path.go are the ones the hand-written matchers implement -/
theorem C12_regexes_supported :
    Generated.matchOnIndex = supportedMatchOnIndex ∧ indexAllowedClass.isSome = true ∧ validPathClass.isSome = true := by
  decide

/-- `MatchWildcardRegexp` quotes the query (`regexp.QuoteMeta`) before it builds the expression, and
    the class it substitutes for `*` is the one the proofs were done for -/
theorem C12_wildcard_quotes_meta :
    Generated.wildcardQuotesMeta = true ∧ starClass = "[a-zA-Z0-9_:,\\-\\.]*?".toList := by decide

/-- the Subscribe handler reads no field through the message-typed fields Prefix / Path /
    Subscribe (it uses the nil-safe getters) -/
theorem C12_subscribe_uses_getters : Generated.subscribeDerefChains = [] := by decide

/-! ## the text primitives -/

/-- `ExtractIndexNames` is total on every string (its two slice expressions stay in bounds),
    and returns as many values as names (so `indexValues[i]` in `CheckKeyValue` is in range). -/
theorem C12_extract_index_names_total (path : Str) :
    ∃ ns vs, extractIndexNames path = .ok (ns, vs) ∧ ns.length = vs.length :=
  extractIndexNames_ok path

/-- `FindPathFromModel` never panics, exact or not, on any path text and any model table. -/
theorem C12_find_path_total (path : Str) (rw : List (Str × RWPath)) (exact : Bool) :
    NoPanic (findPathFromModel path rw exact) :=
  findPathFromModel_noPanic path rw exact

/-- `MatchWildcardRegexp` never makes `regexp.MustCompile` panic: for every query string and both
    modes the text handed over is an expression of the recognised class (escaped punctuation,
    the class for `*`, `.*` for `...`, plain characters, anchors). -/
theorem C12_match_wildcard_total (query : Str) (exact : Bool) :
    ∃ t, matchWildcardRegexp query exact = .ok t :=
  matchWildcardRegexp_total query exact

/-! ## Set -/

/-- Set: no wire-decodable request makes the pre-store phase panic — whatever its paths, keys,
    values, extensions or omissions (an overrides entry without value counts as absent). -/
theorem C12_set_total (abs : Abs) (env : Env) (req : SetReq) : NoPanic (setPre abs env req) :=
  setPre_noPanic C12_regexes_supported.2.1 C12_regexes_supported.2.2 abs env req

def wEnv : Env :=
  ⟨0, [("t1".toList, some ⟨"m1".toList, "1".toList, false⟩)],
   [(("m1".toList, "1".toList), ⟨"m1".toList, "1".toList, [("/foo".toList, ⟨false, "foo".toList⟩)]⟩)]⟩

def wPath : PathMsg := ⟨"t1".toList, [⟨"foo".toList, []⟩], []⟩

/-- `update t1:/foo = "a"` with an overrides extension whose entry for t1 has no value
    (the request that used to crash `getTargetInfo`: corpus/C12/fixed-nil-override.script) -/
def wNilOv : SetReq :=
  ⟨none, [], [], [⟨some wPath, some (.str "a".toList)⟩], [.registered 112 none (some [("t1".toList, none)])]⟩

/-- What `Set` stores can be processed downstream: every path of an accepted change matches
    `validPathRegexp` and parses back into gNMI elements — `computeChange` refuses instead of storing
    the nil value of a failed `NewChangeValue` (the value the transaction controller used to
    dereference). -/
theorem C12_downstream_no_nil_value (abs : Abs) (env : Env) (req : SetReq) (tx : TxRecord)
    (hok : setPre abs env req = .ok tx) :
    ∀ tp ∈ tx.pairs, isPathValid tp.2 = .ok true ∧ ∃ g, parsePath tp.2 = .ok g := by
  obtain ⟨_, acc⟩ := setPre_accepted abs env req tx hok
  exact acc.valid

/-! ## Get -/

/-- Get: no wire-decodable request makes `Get` panic before the stored values are read — whatever
    its paths, keys, wildcards, metacharacters or extensions. -/
theorem C12_get_total (st : NBState) (req : GetReq) : NoPanic (handleGet st req) :=
  handleGet_noPanic st req

def wState : NBState :=
  { NBState.init wEnv with configs := [(configID "t1".toList "m1".toList "1".toList, .values),
                                       (configID "c2".toList "m1".toList "1".toList, .empty)] }

def wGetNilOv : GetReq := ⟨none, [wPath], 2, 0, [.registered 112 none (some [("t1".toList, none)])]⟩

/-! ## Subscribe -/

/-- Subscribe: no message — no prefix, entries without path, poll before subscribe, a second
    subscription, no request at all — makes `processSubscribeRequest` / `splitSubscribeRequest` panic. -/
theorem C12_subscribe_total (st : NBState) (ms : List SubMsg) : ∀ o ∈ handleSubStream st ms, NoPanic o :=
  handleSubStream_noPanic ms st

/-! ## admin, Capabilities -/

/-- RollbackTransaction is total for every index: it appends one record to the log. -/
theorem C12_admin_rollback_total (st : NBState) (index : Nat) :
    (handleRollback st index).log.length = st.log.length + 1 := by
  simp [handleRollback]

/-- LeafSelectionQuery: no request panics, whatever the state of the addressed configuration
    (the value map is allocated before a change context is merged into it). -/
theorem C12_admin_leafsel_total (abs : Abs) (st : NBState) (req : LeafSelReq) :
    NoPanic (handleLeafSel abs st req) :=
  handleLeafSel_noPanic C12_regexes_supported.2.1 C12_regexes_supported.2.2 abs st req

def wEnv2 : Env :=
  { wEnv with topo := wEnv.topo ++ [("c2".toList, some ⟨"m1".toList, "1".toList, false⟩)] }

/-- a change context against the configuration of c2, which exists without committed values
    (the request that used to write to a nil map: corpus/C12/fixed-leafsel-nil-map.script) -/
def wLeafSel : LeafSelReq :=
  ⟨"c2".toList, "m1".toList, "1".toList, "/foo".toList,
   some ⟨none, [], [], [⟨some ⟨"c2".toList, [⟨"foo".toList, []⟩], []⟩, some (.str "a".toList)⟩], []⟩⟩

/-- GetTransaction answers every index. -/
theorem C12_admin_gettx_total (st : NBState) (index : Nat) : NoPanic (handleGetTx st index) := by
  unfold handleGetTx
  split
  · exact noPanic_ok _
  · exact noPanic_refused _ _

/-- Capabilities takes nothing from the request; it reports at most one model per plugin. -/
theorem C12_capabilities_total (st : NBState) : handleCapabilities st ≤ st.env.plugins.length := by
  unfold handleCapabilities
  have : ∀ (l : List ((Str × Str) × Plugin)) (acc : List Str),
      (l.foldl capStep acc).length ≤ acc.length + l.length := by
    intro l
    induction l with
    | nil => intro acc; simp
    | cons a r ih =>
      intro acc
      simp only [List.foldl_cons, List.length_cons]
      have h1 : (capStep acc a).length ≤ acc.length + 1 := by
        unfold capStep
        split <;> simp
      have := ih (capStep acc a)
      omega
  simpa using this st.env.plugins []

/-! non-vacuity: requests that satisfy the preconditions and go all the way -/

/-! the requests that used to crash are now answered -/

set_option maxRecDepth 1000000 in
example : (match setPre concreteAbs wEnv wNilOv with
    | .ok tx => tx.pairs == [("t1".toList, "/foo".toList)]
    | .error _ => false) = true := by decide

set_option maxRecDepth 1000000 in
example : (match handleGet wState wGetNilOv with
    | .ok .reached => true
    | _ => false) = true := by decide

set_option maxRecDepth 1000000 in
example : (match handleLeafSel concreteAbs { wState with env := wEnv2 } wLeafSel with
    | .ok .reached => true
    | _ => false) = true := by decide

set_option maxRecDepth 1000000 in
example : (match setPre concreteAbs wEnv { wNilOv with exts := [] } with
    | .ok tx => tx.pairs == [("t1".toList, "/foo".toList)]
    | .error _ => false) = true := by decide

set_option maxRecDepth 1000000 in
example : (match handleGet wState ⟨none, [⟨"t1".toList, [⟨"l".toList, [("k".toList, "(".toList)]⟩, ⟨"...".toList, []⟩], []⟩], 2, 0, []⟩ with
    | .ok .reached => true
    | _ => false) = true := by decide

set_option maxRecDepth 1000000 in
example : (match handleLeafSel concreteAbs { wState with env := wEnv2 } { wLeafSel with target := "t1".toList } with
    | .ok .reached => true
    | _ => false) = true := by decide


end OnosVerif.Props.C12
