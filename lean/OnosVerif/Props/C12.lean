/-
C12 — no request can crash the server.

Property theorems only (helper lemmas: OnosVerif/Proofs/NBTotal.lean, NBRegex.lean; twin:
OnosVerif/NB/Model.lean, Text.lean).  In the twin every Go operation that can panic on request
data — a slice expression with computed bounds, a field read through a possibly-nil message
pointer, a write to a possibly-nil map, `regexp.MustCompile` on request text — is a primitive that
returns `Except … (panic site)`; the theorems say which handler programs can reach such a value.

Quantifier: every wire-decodable request — the request types are structures with `Option` for
every message-typed field, repeated fields are lists of present members, a decoded map may lack a
value — any environment, any value conversion and plugin (`abs`).  The twin is tied to the real
handlers by `harness/props/c12` (every request through the real handler under recover(), created
transactions through the real transaction and proposal reconcilers under recover()).
-/
import OnosVerif.Proofs.NBTotal

namespace OnosVerif.Props.C12
open OnosVerif OnosVerif.Path OnosVerif.NB

/-- no entry of a decoded TargetVersionOverrides extension lacks its value -/
def overridesComplete (exts : List Ext) : Prop :=
  ∀ ov, findOverrides exts = some ov → ∀ e ∈ ov, e.2 ≠ none

/-! ## translator facts the totality theorems stand on -/

/-- the regular expressions of path.go are the ones the hand-written matchers implement -/
theorem C12_regexes_supported :
    Generated.matchOnIndex = supportedMatchOnIndex ∧ indexAllowedClass.isSome = true ∧ validPathClass.isSome = true := by
  decide

/-- `MatchWildcardRegexp` quotes the query (`regexp.QuoteMeta`) before it builds the expression, and
    the class it substitutes for `*` is the one the proofs were done for -/
theorem C12_wildcard_quotes_meta :
    Generated.wildcardQuotesMeta = true ∧ starClass = "[a-zA-Z0-9_:,\\-\\.]*?".toList := by decide

/-- the Subscribe handler reads no field through the message-typed fields Prefix / Path /
    Subscribe (it uses the nil-safe getters) -/
theorem C12_subscribe_uses_getters : Generated.subscribeDerefChains = [] := by decide

/-! ## the text primitives -/

/-- `ExtractIndexNames` is total on every string (its two slice expressions stay in bounds),
    and returns as many values as names (so `indexValues[i]` in `CheckKeyValue` is in range). -/
theorem C12_extract_index_names_total (path : Str) :
    ∃ ns vs, extractIndexNames path = .ok (ns, vs) ∧ ns.length = vs.length :=
  extractIndexNames_ok path

/-- `FindPathFromModel` never panics, exact or not, on any path text and any model table. -/
theorem C12_find_path_total (path : Str) (rw : List (Str × RWPath)) (exact : Bool) :
    NoPanic (findPathFromModel path rw exact) :=
  findPathFromModel_noPanic path rw exact

/-- `MatchWildcardRegexp` never makes `regexp.MustCompile` panic: for every query string and both
    modes the text handed over is an expression of the recognised class (escaped punctuation,
    the class for `*`, `.*` for `...`, plain characters, anchors). -/
theorem C12_match_wildcard_total (query : Str) (exact : Bool) :
    ∃ t, matchWildcardRegexp query exact = .ok t :=
  matchWildcardRegexp_total query exact

/-! ## Set -/

/-- Set (the part that holds): no request makes the pre-store phase panic, provided the decoded
    overrides extension holds no map entry without value.  The full statement is false of code and
    twin alike: `C12_set_total_full_fails` (known finding KF-C12-nil-override). -/
theorem C12_set_total_partial (abs : Abs) (env : Env) (req : SetReq) (h : overridesComplete req.exts) :
    NoPanic (setPre abs env req) :=
  setPre_noPanic C12_regexes_supported.2.1 C12_regexes_supported.2.2 abs env req h

def wEnv : Env :=
  ⟨0, [("t1".toList, some ⟨"m1".toList, "1".toList, false⟩)],
   [(("m1".toList, "1".toList), ⟨"m1".toList, "1".toList, [("/foo".toList, ⟨false, "foo".toList⟩)]⟩)]⟩

def wPath : PathMsg := ⟨"t1".toList, [⟨"foo".toList, []⟩], []⟩

/-- `update t1:/foo = "a"` with an overrides extension whose entry for t1 has no value -/
def wNilOv : SetReq :=
  ⟨none, [], [], [⟨some wPath, some (.str "a".toList)⟩], [.registered 112 none (some [("t1".toList, none)])]⟩

/-- The full Set totality statement fails: a wire-decodable overrides entry without value is
    dereferenced in `getTargetInfo`. -/
theorem C12_set_total_full_fails :
    (match setPre concreteAbs wEnv wNilOv with
     | .error (.panic .nilDeref) => true
     | _ => false) = true := by
  set_option maxRecDepth 1000000 in decide

/-- What `Set` stores can be processed downstream: every path of an accepted change matches
    `validPathRegexp` — `computeChange` refuses instead of storing the nil value of a failed
    `NewChangeValue` (the value the transaction controller used to dereference). -/
theorem C12_downstream_no_nil_value (abs : Abs) (env : Env) (req : SetReq) (tx : TxRecord)
    (hok : setPre abs env req = .ok tx) : ∀ tp ∈ tx.pairs, isPathValid tp.2 = .ok true := by
  obtain ⟨_, acc⟩ := setPre_accepted abs env req tx hok
  exact acc.valid

/-- prefix `t1:/c[k]=1]` (an element `c` whose key name is `k]`), JSON update of the root with member `/d` -/
def wTreeSet : SetReq :=
  ⟨some ⟨"t1".toList, [⟨"c".toList, [("k]".toList, "1".toList)]⟩], []⟩, [], [],
   [⟨some ⟨[], [], []⟩, some (.json (.flat [("/d".toList, "jv".toList)]))⟩], []⟩

/-- The full downstream statement ("whatever Set stores, the controllers can process") fails: the
    JSON-valued update lands on `/c[k]=1]/d`, a valid path text that is accepted and logged, and
    `tree.addPathToTree` slices `keyString[eqIdx+1:brktIdx2]` with `]` before `=`
    (known finding KF-C12-tree-slice). -/
theorem C12_downstream_tree_full_fails :
    (match setPre concreteAbs wEnv wTreeSet with
     | .ok tx => tx.pairs == [("t1".toList, "/c[k]=1]/d".toList)] && !downstreamOK tx
     | .error _ => false) = true := by
  set_option maxRecDepth 1000000 in decide

/-! ## Get -/

/-- Get (the part that holds): no request makes `Get` panic before the stored values are read —
    whatever its paths, keys, wildcards or metacharacters — provided the decoded overrides
    extension holds no map entry without value.  Full statement: `C12_get_total_full_fails`. -/
theorem C12_get_total_partial (st : NBState) (req : GetReq) (h : overridesComplete req.exts) :
    NoPanic (handleGet st req) :=
  handleGet_noPanic st req h

def wState : NBState :=
  { NBState.init wEnv with configs := [(configID "t1".toList "m1".toList "1".toList, .values),
                                       (configID "c2".toList "m1".toList "1".toList, .empty)] }

def wGetNilOv : GetReq := ⟨none, [wPath], 2, 0, [.registered 112 none (some [("t1".toList, none)])]⟩

/-- The full Get totality statement fails the same way, in `addTarget`. -/
theorem C12_get_total_full_fails :
    (match handleGet wState wGetNilOv with
     | .error (.panic .nilDeref) => true
     | _ => false) = true := by
  set_option maxRecDepth 1000000 in decide

/-! ## Subscribe -/

/-- Subscribe: no message — no prefix, entries without path, poll before subscribe, a second
    subscription, no request at all — makes `processSubscribeRequest` / `splitSubscribeRequest` panic. -/
theorem C12_subscribe_total (st : NBState) (ms : List SubMsg) : ∀ o ∈ handleSubStream st ms, NoPanic o :=
  handleSubStream_noPanic ms st

/-! ## admin, Capabilities -/

/-- RollbackTransaction is total for every index: it appends one record to the log. -/
theorem C12_admin_rollback_total (st : NBState) (index : Nat) :
    (handleRollback st index).log.length = st.log.length + 1 := by
  simp [handleRollback]

/-- LeafSelectionQuery (the part that holds): no request panics, provided the addressed
    configuration is not one that exists without committed values.  Full statement:
    `C12_admin_leafsel_full_fails` (known finding KF-C12-leafsel-nil-map). -/
theorem C12_admin_leafsel_total_partial (abs : Abs) (st : NBState) (req : LeafSelReq)
    (h : mapGet (configID req.target req.type req.version) st.configs ≠ some .empty) :
    NoPanic (handleLeafSel abs st req) :=
  handleLeafSel_noPanic C12_regexes_supported.2.1 C12_regexes_supported.2.2 abs st req h

def wEnv2 : Env :=
  { wEnv with topo := wEnv.topo ++ [("c2".toList, some ⟨"m1".toList, "1".toList, false⟩)] }

def wLeafSel : LeafSelReq :=
  ⟨"c2".toList, "m1".toList, "1".toList, "/foo".toList,
   some ⟨none, [], [], [⟨some ⟨"c2".toList, [⟨"foo".toList, []⟩], []⟩, some (.str "a".toList)⟩], []⟩⟩

/-- The full LeafSelectionQuery totality statement fails: merging a change context into a
    configuration whose `Values` is a nil map is an assignment to an entry of a nil map. -/
theorem C12_admin_leafsel_full_fails :
    (match handleLeafSel concreteAbs { wState with env := wEnv2 } wLeafSel with
     | .error (.panic .nilMapWrite) => true
     | _ => false) = true := by
  set_option maxRecDepth 1000000 in decide

/-- GetTransaction answers every index. -/
theorem C12_admin_gettx_total (st : NBState) (index : Nat) : NoPanic (handleGetTx st index) := by
  unfold handleGetTx
  split
  · exact noPanic_ok _
  · exact noPanic_refused _ _

/-- Capabilities takes nothing from the request; it reports at most one model per plugin. -/
theorem C12_capabilities_total (st : NBState) : handleCapabilities st ≤ st.env.plugins.length := by
  unfold handleCapabilities
  have : ∀ (l : List ((Str × Str) × Plugin)) (acc : List Str),
      (l.foldl capStep acc).length ≤ acc.length + l.length := by
    intro l
    induction l with
    | nil => intro acc; simp
    | cons a r ih =>
      intro acc
      simp only [List.foldl_cons, List.length_cons]
      have h1 : (capStep acc a).length ≤ acc.length + 1 := by
        unfold capStep
        split <;> simp
      have := ih (capStep acc a)
      omega
  simpa using this st.env.plugins []

/-! non-vacuity: requests that satisfy the preconditions and go all the way -/

example : overridesComplete ([] : List Ext) := by
  intro ov h e he
  simp only [findOverrides, Option.some.injEq] at h
  subst h
  cases he

example : overridesComplete [.registered 112 none (some [("t1".toList, some ⟨"m1".toList, "1".toList⟩)])] := by
  intro ov h e he
  simp only [findOverrides, extIdOverrides, if_true, Option.some.injEq] at h
  subst h
  simp only [List.mem_singleton] at he
  subst he
  simp

set_option maxRecDepth 1000000 in
example : (match setPre concreteAbs wEnv { wNilOv with exts := [] } with
    | .ok tx => tx.pairs == [("t1".toList, "/foo".toList)]
    | .error _ => false) = true := by decide

set_option maxRecDepth 1000000 in
example : (match handleGet wState ⟨none, [⟨"t1".toList, [⟨"l".toList, [("k".toList, "(".toList)]⟩, ⟨"...".toList, []⟩], []⟩], 2, 0, []⟩ with
    | .ok .reached => true
    | _ => false) = true := by decide

set_option maxRecDepth 1000000 in
example : (match handleLeafSel concreteAbs { wState with env := wEnv2 } { wLeafSel with target := "t1".toList } with
    | .ok .reached => true
    | _ => false) = true := by decide

set_option maxRecDepth 1000000 in
example : mapGet (configID "t1".toList "m1".toList "1".toList) wState.configs ≠ some .empty := by decide

end OnosVerif.Props.C12
