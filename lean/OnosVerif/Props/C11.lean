/-
C11 (tables part) — a device refusing a change fails that change only, and only real refusals.

The protocol part of C11 (`failure_local`, `transient_no_effect`: what a retry / wait / fail step
does to the records) is proved in the V2 protocol model by another engineer.  This file holds the
*classification*: which device answers are refusals, which are merely "unreachable or slow", with
which class a refusal is recorded and with which status it is reported — all `decide`d over the
whole finite tables, which are regenerated from the current Go switches on every run
(`OnosVerif.Generated`: v2ApplyOuter/Failure, v2CodeSource, v3…, clientSetWrapsFromGRPC,
reportedSet/Admin).  The dependency tables (`errors.FromGRPC`, `errors.Status`, `status.Code`) are
hand-written in OnosVerif/ErrTable/Model.lean and tied by correspondence over all 17 codes.
-/
import OnosVerif.ErrTable.Model

namespace OnosVerif.Props.C11
open OnosVerif.ErrTable

/-- the class of a device refusal (specification): the failure type that names the same condition
    as the gRPC code; codes without a counterpart are `UNKNOWN`. -/
def classOf : Code → FailureType
  | .notFound => .notFound | .alreadyExists => .alreadyExists | .unauthenticated => .unauthorized
  | .failedPrecondition => .conflict | .invalidArgument => .invalid | .unimplemented => .notSupported
  | .internal => .internal | .canceled => .canceled | .permissionDenied => .forbidden
  | .unavailable => .unavailable | .deadlineExceeded => .timeout
  | _ => .unknown

/-- "merely unreachable or slow". -/
def transient (c : Code) : Bool := c == .unavailable || c == .canceled || c == .deadlineExceeded

/-- The table: a code is retried exactly when it is Unavailable, Canceled or DeadlineExceeded; it is
    waited out exactly when it is PermissionDenied (mastership superseded); every other code fails
    the change with the class of that code. -/
theorem C11_table (c : Code) :
    (v2Table c = .retry ↔ transient c = true) ∧
    (v2Table c = .wait ↔ c = .permissionDenied) ∧
    (transient c = false → c ≠ .permissionDenied → v2Table c = .fail (classOf c)) := by
  cases c <;> decide

/-- End to end: for every code a device can answer a Set with, what the running system does — the
    southbound client's conversion, then `errorCode`, then the switches — is what the table says
    for that code.  (False before fix 29b9466: `status.Code` of the converted error is Unknown.) -/
theorem C11_end_to_end (c : Code) (h : c ≠ .ok) : v2DeviceAction c = v2Table c := by
  cases c <;> first | exact absurd rfl h | decide

/-- Only real refusals fail a change: an unreachable or slow device (Unavailable, Canceled,
    DeadlineExceeded) is retried, a superseded master waits; neither records a failure. -/
theorem C11_transient_never_fails (c : Code) (h : transient c = true ∨ c = .permissionDenied) :
    v2DeviceAction c = .retry ∨ v2DeviceAction c = .wait := by
  cases c <;> first | (exfalso; revert h; decide) | decide

/-- A real refusal is recorded with the device's error class. -/
theorem C11_refusal_class (c : Code) (h1 : c ≠ .ok) (h2 : transient c = false) (h3 : c ≠ .permissionDenied) :
    v2DeviceAction c = .fail (classOf c) := by
  cases c <;> first | exact absurd rfl h1 | exact absurd rfl h3 | (exfalso; revert h2; decide) | decide

/-- The classification is total: no device answer falls outside retry / wait / fail. -/
theorem C11_total (c : Code) : v2DeviceAction c ≠ .unknown := by
  cases c <;> decide

/-- A non-status error from the southbound client (connection torn down inside the client, a plain
    `error`) is recorded as a failure of class UNKNOWN — it is not retried. -/
theorem C11_plain_error : v2Action .plain = .fail .unknown ∧ v2Action (.typed .unknown) = .fail .unknown := by
  decide

/-- v3 (`applyChange`, `applyRollback`) classifies every device answer exactly as v2 does. -/
theorem C11_v3_same (c : Code) :
    v3ChangeDeviceAction c = v2DeviceAction c ∧ v3RollbackDeviceAction c = v2DeviceAction c := by
  cases c <;> decide

/-! ### reported to the caller -/

/-- the status that names a failure class (specification). -/
def codeOfClass : FailureType → Code
  | .unknown => .unknown | .canceled => .canceled | .notFound => .notFound
  | .alreadyExists => .alreadyExists | .unauthorized => .unauthenticated | .forbidden => .permissionDenied
  | .conflict => .failedPrecondition | .invalid => .invalidArgument | .unavailable => .unavailable
  | .notSupported => .unimplemented | .timeout => .deadlineExceeded | .internal => .internal

/-- `Set` reports every failure class with the status of that class. -/
theorem C11_reported_set (f : FailureType) : setReported (some (some f)) = some (codeOfClass f) := by
  cases f <;> decide

/-- Totality of the report: a failed transaction is never answered OK — not for a known class,
    not for a class outside the enumeration, not when the record carries no failure at all. -/
theorem C11_reported_total :
    (∀ f, setReported (some (some f)) ≠ some .ok ∧ setReported (some (some f)) ≠ none) ∧
    setReported (some none) = some .unknown ∧ setReported none = some .unknown := by
  refine ⟨fun f => by cases f <;> decide, by decide, by decide⟩

/-- Distinct failure classes are reported with distinct statuses. -/
theorem C11_reported_injective (f g : FailureType) (h : setReported (some (some f)) = setReported (some (some g))) :
    f = g := by
  cases f <;> cases g <;> first | rfl | (revert h; decide)

/-- admin `RollbackTransaction` reports exactly like `Set`. -/
theorem C11_reported_admin_same (f : Option (Option FailureType)) : adminReported f = setReported f := by
  match f with
  | none => decide
  | some none => decide
  | some (some ft) => cases ft <;> decide

/-- With the apply table: the caller of a synchronous Set whose device refused with code `c` sees
    `c` itself whenever `c` has a failure class of its own, and Unknown otherwise. -/
theorem C11_reported_device_class (c : Code) (f : FailureType) (h : v2DeviceAction c = .fail f) :
    setReported (some (some f)) = some (if classOf c = .unknown then .unknown else c) := by
  cases c <;> cases f <;> first | (revert h; decide)

/-! ### non-vacuity -/

example : transient .unavailable = true ∧ transient .notFound = false := by decide
example : v2DeviceAction .unavailable = .retry := by decide
example : v2DeviceAction .permissionDenied = .wait := by decide
example : v2DeviceAction .invalidArgument = .fail .invalid := by decide
example : v2DeviceAction .resourceExhausted = .fail .unknown := by decide
example : ∃ c f, v2DeviceAction c = .fail f ∧ classOf c ≠ .unknown := ⟨.notFound, .notFound, by decide, by decide⟩
example : grpcStatusCode (fromGRPC (statusError .unavailable)) = .unknown := by decide

end OnosVerif.Props.C11
