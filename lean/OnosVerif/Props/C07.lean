/-
C07 — a crash between any two store writes loses nothing and repeats nothing.

In the v2 twin a crash is a step of the world (`Step.crash`): every in-flight invocation — with the
writes it has not yet issued — and every queued work item is dropped; restart re-enqueues every
record (what `WithReplay` does).  A write that fails with a non-conflict error (`Step.failNext`) or
loses its compare-and-set unwinds one invocation the same way.  Because these are ordinary steps,
every theorem stated for `Reachable` worlds holds for every placement of any number of crashes.
-/
import OnosVerif.Proofs.V2CursorInd
import OnosVerif.V2.Auto

namespace OnosVerif.Props.C07
open OnosVerif.V2

/-- A crash keeps every invariant (they speak about persistent state and about writes still in
    flight only; a crash removes the latter). -/
theorem C07_inv_crash (w : World) (hr : Reachable w) :
    WInv (step w .crash) ∧ WInvC (step w .crash) :=
  ⟨winv_step w (winv_reachable w hr) .crash, winvC_step w (winvC_reachable w hr) .crash⟩

/-- … and so does the loss of any single in-flight invocation at any position between two of its
    persisted effects. -/
theorem C07_inv_partial (w : World) (hr : Reachable w) (k : Nat) :
    WInv (step w (.failNext k)) ∧ WInvC (step w (.failNext k)) :=
  ⟨winv_step w (winv_reachable w hr) _, winvC_step w (winvC_reachable w hr) _⟩

/-- No change is merged twice: a (target, index) pair occurs at most once in the merge log,
    whatever crashes and retries happened. -/
theorem C07_no_double_merge (w : World) (hr : Reachable w) : w.sys.commitLog.Nodup := by
  have h := (winvC_reachable w hr).inv.log_sorted
  refine List.Pairwise.imp ?_ h
  intro a b hab heq
  subst heq
  exact absurd (hab rfl) (Nat.lt_irrefl _)

/-- No change is merged out of turn after a crash: merges stay in strictly increasing index order
    per target across any number of crashes. -/
theorem C07_merge_order_across_crashes (w : World) (hr : Reachable w) (steps : List Step) :
    (run (step w .crash) steps).sys.commitLog.Pairwise (fun a b => a.1 = b.1 → a.2 < b.2) :=
  (winvC_run _ (winvC_step w (winvC_reachable w hr) .crash) steps).inv.log_sorted

/-- Nothing is lost: records persist across crashes with versions and cursors that never go back. -/
theorem C07_nothing_lost (w : World) (hr : Reachable w) (steps : List Step) :
    Evolves w.sys (run (step w .crash) steps).sys ∧ EvolvesC w.sys (run (step w .crash) steps).sys := by
  have h1 := winv_reachable w hr
  have h2 := winvC_reachable w hr
  exact ⟨Evolves.trans _ _ _ (step_evolves w h1 .crash) (run_evolves _ (winv_step w h1 .crash) steps),
    EvolvesC.trans _ _ _ (step_evolvesC w h2 .crash) (run_evolvesC _ (winvC_step w h2 .crash) steps)⟩

/-! non-vacuity: crash after the side-map half of a commit, before the entry half; the work resumes
    and the change is merged exactly once -/

def pv (p : String) (v : String) : Config.PV := { path := p.toList, value := v.toList, deleted := false, index := 0 }
def w0 : World := run {} [.nbSet { index := 0, changes := [(1, [pv "/a" "1"])] }]
/-- drive until the proposal is COMMITTING, start its commit, execute only the values half, crash -/
def wCrash : World :=
  let w := run w0 (autoSteps 10 w0 (fun _ => {}))
  run w [.begin (.tx 1) {}, .adv 0, .begin (.prop (1, 1)) {}, .adv 0, .crash]
def wEnd : World := run wCrash (autoSteps 8 wCrash (fun _ => {}))

example : (wCrash.sys.cfg? 1).map (fun c => (c.committed, c.vals.length)) = some (0, 1) ∧
    wCrash.pend = [] ∧ wEnd.sys.commitLog = [(1, 1)] ∧
    (wEnd.sys.cfg? 1).map (fun c => (c.committed, c.vals.length)) = some (1, 1) := by decide +kernel

end OnosVerif.Props.C07
