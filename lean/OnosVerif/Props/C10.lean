/-
C10 — only the current master writes, in its term, after re-synchronising.

Property theorems over the v2 twin (OnosVerif/V2; tied to the real mastership, configuration and
proposal reconcilers by `harness/props/v2proto`).  "Current" is relative to the configuration
version an invocation read: a request already planned when the term changes is outside any model of
one process (DESIGN.md §6 C10); every *store* write of that invocation is then refused by the
version check.
-/
import OnosVerif.Proofs.V2Term
import OnosVerif.V2.Auto

namespace OnosVerif.Props.C10
open OnosVerif.V2

/-- The mastership term of a target never decreases — along every run: any interleaving of
    effects, lost and failed writes, crashes, connection faults, device restarts. -/
theorem C10_term_mono (w : World) (steps : List Step) (t : Tgt) (c : Cfg)
    (h : w.sys.cfg? t = some c) :
    ∃ c', (run w steps).sys.cfg? t = some c' ∧ c.term ≤ c'.term :=
  run_termLe w steps t c h

/-- The mastership reconciler installs as master only a live relation of this node to that target
    (and only when the recorded master is not one), or resigns when none is left. -/
theorem C10_master_live_or_none (s : Sys) (t : Tgt) (env : Env) (e : Effect)
    (he : e ∈ (mastReconcile s t env).effects) :
    (∃ v, e = .cfgAVals t v) ∨
    ∃ c, s.cfg? t = some c ∧
      ((c.master ≠ 0 ∧ (∀ r ∈ s.rels, r.target = t → False) ∧ ∃ sh, e = .cfg t c.version .resign sh [] .swallow) ∨
       (∃ r ∈ s.rels, r.target = t ∧ (∀ r' ∈ s.rels, r'.target = t → r'.id ≠ c.master) ∧
          ∃ sh, e = .cfg t c.version (.elect r.id) sh [] .swallow)) :=
  mast_effects s t env e he

/-- A new assignment begins a new term (exactly +1); a resignation keeps the term and clears the
    master.  Both are compare-and-set writes on the version the reconciler read, so a concurrent
    change of the configuration makes them no-ops. -/
theorem C10_new_term_on_reassign (c : Cfg) (m : Nat) :
    (applyCfgUpd c (.elect m)).term = c.term + 1 ∧ (applyCfgUpd c (.elect m)).master = m ∧
    (applyCfgUpd c .resign).term = c.term ∧ (applyCfgUpd c .resign).master = 0 :=
  ⟨rfl, rfl, rfl, rfl⟩

/-- Every change a proposal invocation sends carries the term and travels over the master
    connection of the configuration it read, the master being set and its connection live; and it
    is sent only when the previously applied configuration has been re-sent in that term (applied
    term = term, not SYNCHRONIZING). -/
theorem C10_writes_in_term (s : Sys) (id : PropId) (env : Env) (r : DevReq)
    (h : .dev r ∈ (propReconcile s id env).effects) :
    ∃ p c rel, s.prop? id = some p ∧ s.cfg? p.target = some c ∧
      r.term = c.term ∧ r.conn = c.master ∧ c.master ≠ 0 ∧
      s.rel? c.master = some rel ∧ rel.conn = true ∧
      c.state ≠ .synchronizing ∧ ¬ c.appliedTerm < c.term := by
  obtain ⟨p, c, rel, h1, h2, _, _, h5, h6, _, h8, h9, h10, h11, h12, _⟩ := prop_dev_guard s id env r h
  exact ⟨p, c, rel, h1, h2, h5, h6, h8, h9, h10, h11, h12⟩

/-- The re-synchronisation itself is sent in the current term over the master's connection, while
    the configuration is SYNCHRONIZING, and consists of applied values only. -/
theorem C10_resync_in_term (s : Sys) (t : Tgt) (env : Env) (r : DevReq)
    (h : .dev r ∈ (cfgReconcile s t env).effects) :
    ∃ c rel, s.cfg? t = some c ∧ c.state = .synchronizing ∧ r.term = c.term ∧ r.conn = c.master ∧
      c.master ≠ 0 ∧ s.rel? c.master = some rel ∧ rel.conn = true ∧ ∀ e ∈ r.payload, e ∈ c.aview := by
  obtain ⟨c, rel, h1, h2, _, _, h5, h6, h7, h8, h9, _, h11⟩ := cfg_dev_guard s t env r h
  exact ⟨c, rel, h1, h2, h5, h6, h7, h8, h9, h11⟩

/-! non-vacuity: a connected target gets a master in term 1 and the change is sent in that term -/

def w0 : World := run {} [.fault (.relUp { id := 7, target := 1 }),
  .nbSet { index := 0, changes := [(1, [{ path := ['/', 'a'], value := ['1'], deleted := false, index := 0 }])] }]
def w1 : World := run w0 (autoSteps 16 w0 (fun _ => {}))

example : (w1.sys.cfg? 1).map (fun c => (c.master, c.term, c.appliedTerm)) = some (7, 1, 1) ∧
    w1.sys.devLog.map (fun r => (r.conn, r.term)) = [(7, 1)] := by decide +kernel

end OnosVerif.Props.C10
