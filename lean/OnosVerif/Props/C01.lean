/-
C01 — a multi-target Set is committed on all of its targets or on none.

Property theorems only; the model is the v2 twin (OnosVerif/V2, tied to the real transaction,
proposal, configuration and mastership reconcilers by the correspondence check
`harness/props/v2proto`), the proofs are in OnosVerif/Proofs/V2Phase*.lean.

Quantifier: every reachable world — any number of transactions of any shape over any targets,
any interleaving of the individual store writes of any number of in-flight reconcile invocations
(each compare-and-set executes against the record as it is at that moment), lost and failed
writes, crashes (`Step.crash` drops every in-flight invocation), connection and device faults.
`commitLog` is the ghost list of (target, transaction index) pairs in the order the entry
compare-and-set of a commit succeeded — "the change was merged into the stored configuration".
-/
import OnosVerif.Proofs.V2PhaseInd
import OnosVerif.V2.Auto

namespace OnosVerif.Props.C01
open OnosVerif.V2

/-- A transaction enters its commit phase only when every one of its proposals — every target the
    request names — has been validated by the model plugin. -/
theorem C01_commit_only_if_all_validated (w : World) (hr : Reachable w) (i : Nat) (t : Tx)
    (ht : w.sys.tx? i = some t) (hc : t.commit ≠ .none) :
    t.validate = .done ∧ AllValidated w.sys t := by
  have hw := winv_reachable w hr
  have hv := (hw.inv.txinv i t ht).commit_validate hc
  exact ⟨hv, hw.inv.validated i t ht hv⟩

/-- A change is merged into a target's stored configuration only for a transaction all of whose
    proposals were validated: one rejected share keeps every share out. -/
theorem C01_merge_only_if_all_validated (w : World) (hr : Reachable w) (tgt : Tgt) (i : Nat)
    (hm : (tgt, i) ∈ w.sys.commitLog) :
    ∃ t, w.sys.tx? i = some t ∧ t.commit ≠ .none ∧ AllValidated w.sys t := by
  have hw := winv_reachable w hr
  obtain ⟨p, hp, hpc⟩ := hw.inv.merged (tgt, i) hm
  obtain ⟨t, ht, htc⟩ := hw.inv.prop_commit (tgt, i) p hp hpc
  have hk := prop?_key w.sys (tgt, i) p hp
  have hpi : p.index = i := by
    have : (p.target, p.index).2 = (tgt, i).2 := by rw [hk]
    exact this
  rw [hpi] at ht
  exact ⟨t, ht, htc, (C01_commit_only_if_all_validated w hr i t ht htc).2⟩

/-- If the model of any one target rejected its share (a listed proposal is validate-FAILED), no
    target of that transaction has been merged … -/
theorem C01_failed_validation_not_merged (w : World) (hr : Reachable w) (i : Nat) (t : Tx)
    (ht : w.sys.tx? i = some t) (ps : List PropId) (hps : t.proposals = some ps)
    (pid : PropId) (hpid : pid ∈ ps) (p : Proposal) (hp : w.sys.prop? pid = some p)
    (hf : p.validate = .failed) :
    ∀ tgt, (tgt, i) ∉ w.sys.commitLog := by
  intro tgt hm
  obtain ⟨t', ht', _, ps', hps', hall⟩ := C01_merge_only_if_all_validated w hr tgt i hm
  rw [ht] at ht'
  simp only [Option.some.injEq] at ht'
  subst ht'
  rw [hps] at hps'
  simp only [Option.some.injEq] at hps'
  subst hps'
  obtain ⟨p', hp', hv⟩ := hall pid hpid
  rw [hp] at hp'
  simp only [Option.some.injEq] at hp'
  subst hp'
  rw [hf] at hv
  cases hv

/-- … and none ever will be, whatever happens afterwards (any further steps, crashes included):
    every named target keeps its previous configuration. -/
theorem C01_failed_validation_never_merges (w : World) (hr : Reachable w) (i : Nat) (t : Tx)
    (ht : w.sys.tx? i = some t) (ps : List PropId) (hps : t.proposals = some ps)
    (pid : PropId) (hpid : pid ∈ ps) (p : Proposal) (hp : w.sys.prop? pid = some p)
    (hf : p.validate = .failed) (steps : List Step) :
    ∀ tgt, (tgt, i) ∉ (run w steps).sys.commitLog := by
  intro tgt hm
  have hw := winv_reachable w hr
  have hr' : Reachable (run w steps) := by
    obtain ⟨s0, hs0⟩ := hr
    exact ⟨s0 ++ steps, by rw [hs0]; simp [run, List.foldl_append]⟩
  have hev := run_evolves w hw steps
  obtain ⟨p', hp', _, _, _, _, _, hf'⟩ := hev.prop pid p hp
  obtain ⟨t', ht', _, ps', hps', hall⟩ := C01_merge_only_if_all_validated _ hr' tgt i hm
  -- the transaction's proposal list is fixed once written: the later record still lists `pid`
  obtain ⟨t2, ht2, _, _, _, _, hfix⟩ := hev.tx i t ht
  rw [ht2] at ht'
  simp only [Option.some.injEq] at ht'
  subst ht'
  have hsame : t2.proposals = some ps := by rw [hfix (by rw [hps]; simp), hps]
  rw [hsame] at hps'
  simp only [Option.some.injEq] at hps'
  subst hps'
  obtain ⟨p'', hp'', hv⟩ := hall pid hpid
  rw [hp'] at hp''
  simp only [Option.some.injEq] at hp''
  subst hp''
  rw [hf' hf] at hv
  cases hv

/-- A transaction whose validation failed is reported failed. -/
theorem C01_failed_validation_reported (w : World) (hr : Reachable w) (i : Nat) (t : Tx)
    (ht : w.sys.tx? i = some t) (hf : t.validate = .failed) :
    t.state = .failed ∧ t.commit = .none := by
  have hw := winv_reachable w hr
  have hi := hw.inv.txinv i t ht
  refine ⟨hi.vfailed_state hf, ?_⟩
  exact (hi.abort_excl (hi.vfailed_abort hf)).1

/-- The invariant does not mention work queues or in-flight invocations: a crash at any point
    (between any two store writes of any invocation) leaves it intact. -/
theorem C01_crash_keeps_invariant (w : World) (hr : Reachable w) :
    WInv (step w .crash) :=
  winv_step w (winv_reachable w hr) .crash

/-! ### non-vacuity: concrete reachable worlds meeting the hypotheses -/

/-- a Set naming targets 1 and 2 -/
def tx2 : Tx := { index := 0, changes := [(1, []), (2, [])] }
def w0 : World := run {} [.nbSet tx2]
/-- every plugin accepts -/
def wOk : World := run w0 (autoSteps 14 w0 (fun _ => {}))
/-- the plugin of target 2 rejects its share -/
def wBad : World := run w0 (autoSteps 14 w0 (fun id => match id with
  | .prop (2, _) => { plugin := some false }
  | _ => {}))

theorem wOk_reachable : Reachable wOk := reachable_run _ (reachable_run _ reachable_init _) _
theorem wBad_reachable : Reachable wBad := reachable_run _ (reachable_run _ reachable_init _) _

/-- all accepted: both targets merged, transaction COMMITTED -/
example : wOk.sys.commitLog = [(1, 1), (2, 1)] ∧
    (wOk.sys.tx? 1).map (fun t => (t.commit, t.state)) = some (.done, .committed) := by decide +kernel

/-- one rejected: hypotheses of `C01_failed_validation_never_merges` hold (proposal (2,1) listed and
    validate-FAILED), nothing merged, transaction FAILED, aborted -/
example : (wBad.sys.tx? 1).map (fun t => (t.proposals, t.validate, t.state, t.abort)) =
      some (some [(1, 1), (2, 1)], .failed, .failed, .done) ∧
    (wBad.sys.prop? (2, 1)).map (·.validate) = some .failed ∧
    (wBad.sys.prop? (1, 1)).map (fun p => (p.validate, p.commit, p.abort)) = some (.done, .none, .done) ∧
    wBad.sys.commitLog = [] := by decide +kernel

end OnosVerif.Props.C01
