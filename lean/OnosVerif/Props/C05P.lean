/-
C05 (protocol part) — nothing becomes configuration without passing the target's model: a proposal
is validated only on the committed result of its predecessor on the target, a proposal the plugin
rejects (or for which no plugin is registered) is marked validate-FAILED and nothing else is
written, and a change is merged only while every proposal of its transaction is validated.

The chunked transfer of the document is `Props/C05.lean`; this file is about the v2 protocol twin
(OnosVerif/V2, tied to the real reconcilers by the correspondence check `harness/props/v2proto`,
profile `docP`, whose fake plugin records every document it is handed: the monitor compares it leaf
for leaf with what becomes readable when the proposal is merged).
-/
import OnosVerif.Props.C01

namespace OnosVerif.Props.C05P
open OnosVerif.V2

/-- Validation waits until the predecessor proposal of the target has been committed (or its abort
    has advanced the committed index): before that nothing is written and nothing is sent to the plugin;
    the predecessor is re-queued. -/
theorem C05_validation_waits_for_predecessor (s : Sys) (p : Proposal) (env : Env) (c : Cfg)
    (ho : p.validate = .opened) (hc : s.cfg? p.target = some c)
    (hw : p.prev ≠ 0 ∧ c.committed ≠ p.prev) :
    propValidate s p env = { requeue := some (.prop (p.target, p.prev)) } := by
  unfold propValidate
  simp [ho, hc, hw]

/-- When a change is validated the candidate is built on the configuration read in that very
    invocation, whose committed index is the predecessor's: the captured rollback index is that
    configuration's `Index` and the rollback values are captured from its view. -/
theorem C05_validated_on_predecessor (s : Sys) (p : Proposal) (env : Env) (c : Cfg)
    (ho : p.validate = .opened) (hc : s.cfg? p.target = some c) (hr : p.isRollback = false)
    (i : Nat) (rb : Config.VMap)
    (he : Effect.prop (p.target, p.index) p.version (.validateDone i rb) ∈ (propValidate s p env).effects) :
    (p.prev = 0 ∨ c.committed = p.prev) ∧ env.plugin = some true ∧ i = c.index ∧
      rb = Config.rollbackValues c.view (permute env.ordC p.change) := by
  unfold propValidate at he
  simp only [ho, hc] at he
  by_cases hw : p.prev ≠ 0 ∧ c.committed ≠ p.prev
  · simp [hw] at he
  · simp only [hw, if_false] at he
    have hg : p.prev = 0 ∨ c.committed = p.prev := by
      by_cases h0 : p.prev = 0
      · exact Or.inl h0
      · right
        by_cases h1 : c.committed = p.prev
        · exact h1
        · exact absurd ⟨h0, h1⟩ hw
    cases hpl : env.plugin with
    | none => simp [hpl] at he
    | some verdict =>
      cases verdict with
      | false => simp [hpl, hr] at he
      | true =>
        simp [hpl, hr] at he
        exact ⟨hg, rfl, he.1, he.2⟩

/-- A change the plugin rejects — or for which no plugin is registered — is marked validate-FAILED
    (INVALID) and nothing else is written: no configuration, no side map, no device. -/
theorem C05_rejected_changes_nothing (s : Sys) (p : Proposal) (env : Env) (c : Cfg)
    (ho : p.validate = .opened) (hc : s.cfg? p.target = some c)
    (hw : ¬ (p.prev ≠ 0 ∧ c.committed ≠ p.prev)) (hr : p.isRollback = false)
    (hrej : env.plugin = none ∨ env.plugin = some false) :
    propValidate s p env =
      { effects := [.prop (p.target, p.index) p.version (.validateFailed .invalid)] } := by
  unfold propValidate
  rcases hrej with h | h <;> simp [ho, hc, hw, hr, h]

/-- A merge into any target's configuration happens only while every proposal of that transaction
    is validated — in every reachable world (C01's induction, restated for this property): a Set the
    plugin rejected on any of its targets leaves every configuration unchanged. -/
theorem C05_merge_only_if_all_validated (w : World) (hr : Reachable w) (tgt : Tgt) (i : Nat)
    (hm : (tgt, i) ∈ w.sys.commitLog) :
    ∃ t, w.sys.tx? i = some t ∧ t.commit ≠ .none ∧ AllValidated w.sys t :=
  C01.C01_merge_only_if_all_validated w hr tgt i hm

/-- … and once a proposal of the transaction is validate-FAILED nothing of it is ever merged, in
    any continuation. -/
theorem C05_rejected_never_merged (w : World) (hr : Reachable w) (i : Nat) (t : Tx)
    (ht : w.sys.tx? i = some t) (ps : List PropId) (hps : t.proposals = some ps)
    (pid : PropId) (hpid : pid ∈ ps) (p : Proposal) (hp : w.sys.prop? pid = some p)
    (hf : p.validate = .failed) (steps : List Step) :
    ∀ tgt, (tgt, i) ∉ (run w steps).sys.commitLog :=
  C01.C01_failed_validation_never_merges w hr i t ht ps hps pid hpid p hp hf steps

/-! non-vacuity: the rejecting world of C01 (target 2's plugin says no) meets the hypotheses -/
example : (C01.wBad.sys.prop? (2, 1)).map (·.validate) = some .failed ∧ C01.wBad.sys.commitLog = [] := by
  decide +kernel

end OnosVerif.Props.C05P
