/- Line-protocol handlers for the tree twin (I/O glue, not part of the model). -/
import OnosVerif.Base.Wire
import OnosVerif.Tree.Model
import OnosVerif.Tree.Flatten
import OnosVerif.Tree.Elems
import OnosVerif.Tree.Spec
import OnosVerif.Tree.Chunks

namespace OnosVerif.Tree
open OnosVerif.Wire

def encVal : Val → String
  | .empty => "e"
  | .str s => "s." ++ encStr s
  | .int n w => "i." ++ toString n ++ "." ++ (if w then "1" else "0")
  | .uint n w => "u." ++ toString n ++ "." ++ (if w then "1" else "0")
  | .bool b => "b." ++ (if b then "1" else "0")

def decFlag (s : String) : Option Bool :=
  if s == "1" then some true else if s == "0" then some false else none

def decVal (tok : String) : Option Val :=
  match tok.splitOn "." with
  | ["e"] => some .empty
  | ["s", h] => do pure (.str (← decStr h))
  | ["i", n, w] => do pure (.int (← decInt n) (← decFlag w))
  | ["u", n, w] => do pure (.uint (← decNat n) (← decFlag w))
  | ["b", b] => do pure (.bool (← decFlag b))
  | _ => none

/-- `<L|D>:<hex path>:<value>` -/
def decPV (tok : String) : Option PV :=
  match tok.splitOn ":" with
  | [d, p, v] => do
    let del ← if d == "D" then some true else if d == "L" then some false else none
    pure { path := (← decStr p), val := (← decVal v), deleted := del }
  | _ => none

def encPV (pv : PV) : String :=
  (if pv.deleted then "D:" else "L:") ++ encStr pv.path ++ ":" ++ encVal pv.val

mutual
def encJson : Json → String
  | .str s => "s" ++ encStr s
  | .num n => "n" ++ toString n
  | .bool b => if b then "t" else "f"
  | .obj kvs => "{" ++ encMembers kvs ++ "}"
  | .arr items => "[" ++ encItems items ++ "]"
def encMembers : List (Str × Json) → String
  | [] => ""
  | [(k, v)] => encStr k ++ ":" ++ encJson v
  | (k, v) :: r => encStr k ++ ":" ++ encJson v ++ "," ++ encMembers r
def encItems : List Json → String
  | [] => ""
  | [v] => encJson v
  | v :: r => encJson v ++ "," ++ encItems r
end

def encErr : Err → String
  | .notMap => "err notMap"
  | .listConv => "err listConv"
  | .itemConv => "err itemConv"
  | .panic => "panic"
  | .malformed => "err malformed"
  | .fuel => "twin-out-of-fuel"

def joinToks (l : List String) : String := " ".intercalate l

def encFlat (l : List (Path.GPath × Json)) : String :=
  joinToks (l.map fun pj => encStr (Path.strPathElem pj.1) ++ "=" ++ encJson pj.2)

/-- handlers for `tree.*` operations; the suffix 2/3 selects pkg/utils/v2 or v3 on the Go side,
    one twin serves both. -/
def handle (op : String) (args : List String) : Option String :=
  match op, args with
  | "build2", rfc :: pvs | "build3", rfc :: pvs => do
    let rfc ← decFlag rfc
    let pvs ← pvs.mapM decPV
    match buildTree rfc id pvs with
    | .ok j => pure ("ok " ++ encJson j)
    | .error e => pure (encErr e)
  | "buildrev2", rfc :: pvs => do
    -- the same, ranging over every key map in the reverse order (the outcome must not depend on it)
    let rfc ← decFlag rfc
    let pvs ← pvs.mapM decPV
    match buildTree rfc List.reverse pvs with
    | .ok j => pure ("ok " ++ encJson j)
    | .error e => pure (encErr e)
  | "buildelems2", rfc :: pvs | "buildelems3", rfc :: pvs => do
    -- the element-level twin (well-formed path text only)
    let rfc ← decFlag rfc
    let pvs ← pvs.mapM decPV
    match buildTreeE rfc id pvs with
    | none => pure "unparseable"
    | some (.ok j) => pure ("ok " ++ encJson j)
    | some (.error e) => pure (encErr e)
  | "domain", rfc :: pvs => do
    -- are the preconditions of C18_flatten_build met? (cross-checked against a Go re-implementation)
    let rfc ← decFlag rfc
    let pvs ← pvs.mapM decPV
    let live := prunePathValues pvs false
    let parsed := live.mapM (fun pv =>
      match Path.parsePath pv.path with
      | .ok p => some ((p, pv.val) : Entry)
      | .error _ => none)
    match parsed with
    | none => pure "out"
    | some S =>
      let ok := pathsDistinct pvs && consistent rfc S && uniformKeys (S.map (·.1)) &&
        (S.map Entry.toPV == live)
      pure (if ok then "in" else "out")
  | "prune2", lt :: pvs | "prune3", lt :: pvs => do
    let lt ← decFlag lt
    let pvs ← pvs.mapM decPV
    pure (joinToks ("ok" :: (prunePathValues pvs lt).map encPV))
  | "prunemap2", lt :: pvs | "prunemap3", lt :: pvs => do
    let lt ← decFlag lt
    let pvs ← pvs.mapM decPV
    pure (joinToks ("ok" :: (prunePathMap pvs lt).map encPV))
  | "flat2", rfc :: pvs | "flat3", rfc :: pvs => do
    let rfc ← decFlag rfc
    let pvs ← pvs.mapM decPV
    match buildTree rfc id pvs with
    | .ok j => pure (joinToks (("ok" :: [encFlat (flattenDoc (schemaOfPVs pvs) j)]).filter (· ≠ "")))
    | .error e => pure (encErr e)
  | "chunks", [n, len] => do
    let n ← decNat n
    let len ← decNat len
    pure (joinToks ("ok" :: (chunks n (List.replicate len (0 : UInt8))).map fun c => toString c.length))
  | "validate", [len, beh] => do
    let len ← decNat len
    let b ← match beh.splitOn "." with
      | ["open"] => some PluginBehaviour.openErr
      | ["recv"] => some PluginBehaviour.recvErr
      | ["valid"] => some (PluginBehaviour.answer true)
      | ["invalid"] => some (PluginBehaviour.answer false)
      | ["send", k] => do pure (PluginBehaviour.sendErr (← decNat k))
      | _ => none
    -- with chunkSize = 0 the Go loop never advances (C05_chunkSize_pos no longer checks either)
    if chunkSize == 0 then return "twin: chunkSize = 0, the send loop does not terminate"
    let (res, got) := validate chunkSize (List.replicate len (0 : UInt8)) b
    let r := match res with | .ok => "ok" | .invalid => "invalid" | .err => "err"
    pure (joinToks (r :: got.map fun c => toString c.length))
  | "chunksize", [] => pure ("ok " ++ toString chunkSize)
  | _, _ => none

def handleIO (op : String) (args : List String) : IO (Option String) := pure (handle op args)

end OnosVerif.Tree
