/-
Specification-side definitions for C18 (decidable predicates and declarative descriptions the
theorems compare the twin with).  Nothing here mirrors Go code.
-/
import OnosVerif.Tree.Model
import OnosVerif.Tree.Flatten

namespace OnosVerif.Tree
open OnosVerif.Path (Str strLt)

/-- `d` is `p` itself or an ancestor of `p` at an element boundary: the text of `p` continues
    after `d` with the next element (`/`) or with the keys of the list `d` names (`[`). -/
def boundaryPrefix (p d : Str) : Bool :=
  hasPrefix p d && (match p.drop d.length with
    | [] => true
    | c :: _ => c = '/' || c = '[')

/-- some *other*, non-empty, deleted path of `l` is related to `p` by `rel` (`rel p d`: "d is
    above p"). -/
def coveredIn (rel : Str → Str → Bool) (l : List PV) (p : PV) : Bool :=
  l.any fun d => d.deleted && !d.path.isEmpty && d.path != p.path && rel p.path d.path

/-- `p` is itself a (non-empty) deleted path. -/
def isTombstone (p : PV) : Bool := p.deleted && !p.path.isEmpty

/-- declarative pruning: in path order, drop what lies under a deleted path; drop the deleted
    paths themselves unless `leaveTop`. -/
def pruneSpec (rel : Str → Str → Bool) (leaveTop : Bool) (pvs : List PV) : List PV :=
  (sortPVs pvs).filter fun p => !coveredIn rel pvs p && (leaveTop || !isTombstone p)

/-- the paths of the set are pairwise different (they are keys of a Go map). -/
def pathsDistinct : List PV → Bool
  | [] => true
  | p :: r => r.all (fun q => q.path != p.path) && pathsDistinct r

/-- no deleted path is a textual prefix of another path without being its ancestor
    (no tombstone `/a/b` next to `/a/bc`, `/a/b-c`, …). -/
def noSiblingPrefix (pvs : List PV) : Bool :=
  pvs.all fun d => !d.deleted || pvs.all fun p => !hasPrefix p.path d.path || boundaryPrefix p.path d.path

def noEmptyPath (pvs : List PV) : Bool := pvs.all fun p => !p.path.isEmpty

end OnosVerif.Tree
