/-
Specification-side definitions for C18 (decidable predicates and declarative descriptions the
theorems compare the twin with).  Nothing here mirrors Go code.
-/
import OnosVerif.Tree.Model
import OnosVerif.Tree.Flatten
import OnosVerif.Tree.Elems
import OnosVerif.Path.WF

namespace OnosVerif.Tree
open OnosVerif.Path (Str strLt)

/-- `d` is `p` itself or an ancestor of `p` at an element boundary: the text of `p` continues
    after `d` with the next element (`/`) or with the keys of the list `d` names (`[`). -/
def boundaryPrefix (p d : Str) : Bool :=
  hasPrefix p d && (match p.drop d.length with
    | [] => true
    | c :: _ => c = '/' || c = '[')

/-- some *other*, non-empty, deleted path of `l` is related to `p` by `rel` (`rel p d`: "d is
    above p"). -/
def coveredIn (rel : Str → Str → Bool) (l : List PV) (p : PV) : Bool :=
  l.any fun d => d.deleted && !d.path.isEmpty && d.path != p.path && rel p.path d.path

/-- `p` is itself a (non-empty) deleted path. -/
def isTombstone (p : PV) : Bool := p.deleted && !p.path.isEmpty

/-- declarative pruning: in path order, drop what lies under a deleted path; drop the deleted
    paths themselves unless `leaveTop`. -/
def pruneSpec (rel : Str → Str → Bool) (leaveTop : Bool) (pvs : List PV) : List PV :=
  (sortPVs pvs).filter fun p => !coveredIn rel pvs p && (leaveTop || !isTombstone p)

/-- the paths of the set are pairwise different (they are keys of a Go map). -/
def pathsDistinct : List PV → Bool
  | [] => true
  | p :: r => r.all (fun q => q.path != p.path) && pathsDistinct r

/-- no deleted path is a textual prefix of another path without being its ancestor
    (no tombstone `/a/b` next to `/a/bc`, `/a/b-c`, …). -/
def noSiblingPrefix (pvs : List PV) : Bool :=
  pvs.all fun d => !d.deleted || pvs.all fun p => !hasPrefix p.path d.path || boundaryPrefix p.path d.path

def noEmptyPath (pvs : List PV) : Bool := pvs.all fun p => !p.path.isEmpty

end OnosVerif.Tree

/-! ## Element level: the domain of "the document is the configuration" -/

namespace OnosVerif.Tree
open OnosVerif.Path (Str GPath Elem)

/-- a name without the characters the path text treats specially. -/
def nameSimple (n : Str) : Bool :=
  !n.isEmpty && n.all (fun c => c ≠ '/' && c ≠ '\\' && c ≠ '[' && c ≠ ']' && c ≠ '=')

/-- a key value the textual key parser of `addPathToTree` reads back unchanged (it knows no
    escapes: the value ends at the first `]`), and without `/` (so that the text of an element
    holds no `/`). -/
def keyValSimple (v : Str) : Bool := !v.isEmpty && v.all (fun c => c ≠ ']' && c ≠ '\\' && c ≠ '/')

def elemOK (e : Elem) : Bool :=
  nameSimple e.name && Path.keysSorted e.keys && e.keys.all (fun kv => nameSimple kv.1 && keyValSimple kv.2)

def lastNoKeys : GPath → Bool
  | [] => false
  | [e] => e.keys.isEmpty
  | _ :: r => lastNoKeys r

/-- a non-empty path of simple elements whose last element (the leaf) carries no keys. -/
def pathOK (p : GPath) : Bool := p.all elemOK && lastNoKeys p

def lookupKey : List (Str × Str) → Str → Option Str
  | [], _ => none
  | (k, t) :: r, n => if n = k then some t else lookupKey r n

/-- the value reads as the key text `t` (or is EMPTY, which `handleLeafValue` ignores). -/
def valMatches (rfc : Bool) (v : Val) (t : Str) : Bool :=
  match leafJson rfc v with
  | none => true
  | some j => convertBasicType j == t

/-- relative to the keys `K` of the enclosing list entry: an element named like a key is the
    key *leaf* and its value agrees with the key. -/
def headOK (rfc : Bool) (K : List (Str × Str)) (p : GPath) (v : Val) : Bool :=
  match p with
  | [] => true
  | e :: rest =>
    match lookupKey K e.name with
    | none => true
    | some t => rest.isEmpty && valMatches rfc v t

/-- `headOK` at every list entry the path goes through. -/
def keyChainOK (rfc : Bool) (v : Val) : GPath → Bool
  | [] => true
  | e :: rest => headOK rfc e.keys rest v && keyChainOK rfc v rest

/-- two paths can live in one document: neither is a prefix of the other (no node is both leaf
    and container, no path twice), and where they part under one name both name entries of one
    list with the same key names. -/
def compat : GPath → GPath → Bool
  | [], _ => false
  | _, [] => false
  | a :: p, b :: q =>
    if a = b then compat p q
    else a.name != b.name || (a.keys.map (·.1) == b.keys.map (·.1))

def allPairs {α : Type} (r : α → α → Bool) : List α → Bool
  | [] => true
  | x :: l => l.all (r x) && allPairs r l

/-- `Consistent`: every path well-formed with consistent key leaves, and the paths pairwise
    compatible. -/
def consistent (rfc : Bool) (S : List Entry) : Bool :=
  S.all (fun x => pathOK x.1 && keyChainOK rfc x.2 x.1) && allPairs (fun x y => compat x.1 y.1) S

/-- `UniformKeys`: the schema read off the paths is a function — a list node (identified by the
    element names leading to it) carries the same key names wherever it occurs. -/
def uniformKeys (ps : List GPath) : Bool :=
  (schemaOf ps).all fun x => schemaLookup (schemaOf ps) x.1 == x.2

/-- the leaves given explicitly (EMPTY values are not leaves). -/
def explicitLeaves (rfc : Bool) (S : List Entry) : List (GPath × Json) :=
  S.filterMap fun x => (leafJson rfc x.2).map fun j => (x.1, j)

/-- the key leaves implied by the list entries a path goes through. -/
def keyLeavesOfPath : GPath → List (GPath × Json)
  | [] => []
  | [_] => []
  | e :: e' :: rest =>
    e.keys.map (fun kt => ([e, { name := kt.1, keys := [] }], Json.str kt.2)) ++
      (keyLeavesOfPath (e' :: rest)).map (fun x => (e :: x.1, x.2))

def impliedLeaves (S : List Entry) : List (GPath × Json) := S.flatMap fun x => keyLeavesOfPath x.1

/-- the leaves a document built from `S` must hold: the explicit ones, and the key leaves of the
    entries unless given explicitly. -/
def Expected (rfc : Bool) (S : List Entry) (x : GPath × Json) : Prop :=
  x ∈ explicitLeaves rfc S ∨ (x ∈ impliedLeaves S ∧ x.1 ∉ (explicitLeaves rfc S).map (·.1))

/-- the path/value of an entry as `BuildTree` receives it. -/
def Entry.toPV (x : Entry) : PV := { path := Path.strPathElem x.1, val := x.2, deleted := false }

end OnosVerif.Tree
