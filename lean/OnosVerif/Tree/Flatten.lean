/-
The reading of a JSON document as a set of (path, leaf) pairs — the "independent flattener" of C18.
A JSON array does not say which members of its items are the list keys, so the flattener is given
the schema: for every list node (identified by the element *names* leading to it) its key names,
as a YANG model would.  `schemaOf` derives it from a set of gNMI paths.

Core-only: linked into the `oracle` driver.
-/
import OnosVerif.Tree.Model

namespace OnosVerif.Tree
open OnosVerif.Path (Str GPath Elem)

/-- names of the elements leading to a list node ↦ key names of that list. -/
abbrev Schema := List (List Str × List Str)

def schemaLookup : Schema → List Str → List Str
  | [], _ => []
  | (np, ks) :: r, q => if q = np then ks else schemaLookup r q

/-- text of the key `k` inside a list item. -/
def itemKeyText (m : List (Str × Json)) (k : Str) : Str :=
  match objGet m k with
  | some j => convertBasicType j
  | none => []

/-- the path element naming the list item `m` of list `name` whose key names are `keys`. -/
def itemElem (name : Str) (keys : List Str) (m : List (Str × Json)) : Elem :=
  { name := name, keys := keys.map fun k => (k, itemKeyText m k) }

mutual
/-- leaves below the member `name ↦ j` of a node reached by `pre` (element names `np`). -/
def flatJ (sch : Schema) (np : List Str) (pre : GPath) (name : Str) : Json → List (GPath × Json)
  | .obj m => flatM sch (np ++ [name]) (pre ++ [{ name := name, keys := [] }]) m
  | .arr items => flatA sch (np ++ [name]) pre name (schemaLookup sch (np ++ [name])) items
  | .str s => [(pre ++ [{ name := name, keys := [] }], .str s)]
  | .num n => [(pre ++ [{ name := name, keys := [] }], .num n)]
  | .bool b => [(pre ++ [{ name := name, keys := [] }], .bool b)]
/-- leaves of the members of one node. -/
def flatM (sch : Schema) (np : List Str) (pre : GPath) : List (Str × Json) → List (GPath × Json)
  | [] => []
  | (k, v) :: r => flatJ sch np pre k v ++ flatM sch np pre r
/-- leaves of the items of the list `name` (key leaves included: they are members of the item). -/
def flatA (sch : Schema) (np : List Str) (pre : GPath) (name : Str) (keys : List Str) :
    List Json → List (GPath × Json)
  | [] => []
  | it :: r => flatItem sch np pre name keys it ++ flatA sch np pre name keys r
def flatItem (sch : Schema) (np : List Str) (pre : GPath) (name : Str) (keys : List Str) :
    Json → List (GPath × Json)
  | .obj m => flatM sch np (pre ++ [itemElem name keys m]) m
  | .arr _ => []
  | .str _ => []
  | .num _ => []
  | .bool _ => []
end

/-- every (path, leaf) of a document. -/
def flattenDoc (sch : Schema) : Json → List (GPath × Json)
  | .obj m => flatM sch [] [] m
  | _ => []

/-- the list nodes a path goes through, with their key names. -/
def schemaOfPath : List Str → GPath → Schema
  | _, [] => []
  | np, e :: rest =>
    let np' := np ++ [e.name]
    if e.keys.isEmpty then schemaOfPath np' rest
    else (np', e.keys.map (·.1)) :: schemaOfPath np' rest

def schemaOf (ps : List GPath) : Schema := ps.flatMap (schemaOfPath [])

/-- schema of a set of textual paths (unparseable paths contribute nothing). -/
def schemaOfPVs (pvs : List PV) : Schema :=
  schemaOf (pvs.filterMap fun pv => match Path.parsePath pv.path with | .ok p => some p | .error _ => none)

end OnosVerif.Tree
