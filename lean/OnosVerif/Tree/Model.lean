/-
Twin of pkg/utils/v2/tree/tree.go (and of its v3 copy, which differs only in `[]PathValue` vs
`[]*PathValue`): `BuildTree`, `addPathToTree` (list-entry lookup with `foundkeys`,
`continue existingListItemsLoop`, comparison through `convertBasicType`), `handleLeafValue` for the
value kinds that decide the document's *structure* (EMPTY, STRING, INT, UINT, BOOL and the RFC 7951
width rule; the other encodings are C17's subject), `PrunePathValues`, `PrunePathMap`.

The functions work on the *text* of paths exactly like the Go code: `SplitPath`, `strings.Join`,
`strings.Index`, slicing (a slice with bad bounds is the value `Err.panic`), textual `HasPrefix`.
A Go `map[string]interface{}` is an association list kept sorted by key (`objSet`), which is also
the order `json.MarshalIndent` prints; the iteration order of the key map built from a list
element is an explicit argument (`ord`).

Core-only: this file is linked into the `oracle` driver.
-/
import OnosVerif.Path.Model

namespace OnosVerif.Tree
open OnosVerif.Path (Str strLt splitPath indexOf)

/-- the decoded JSON document (`interface{}` values that `addPathToTree` creates). -/
inductive Json
  | str (s : Str)
  | num (n : Int)
  | bool (b : Bool)
  | obj (kvs : List (Str × Json))
  | arr (items : List Json)
deriving Repr, Inhabited

mutual
def Json.beq : Json → Json → Bool
  | .str a, .str b => a == b
  | .num a, .num b => a == b
  | .bool a, .bool b => a == b
  | .obj a, .obj b => Json.beqM a b
  | .arr a, .arr b => Json.beqA a b
  | _, _ => false
def Json.beqM : List (Str × Json) → List (Str × Json) → Bool
  | [], [] => true
  | (k, v) :: r, (k', v') :: r' => k == k' && Json.beq v v' && Json.beqM r r'
  | _, _ => false
def Json.beqA : List Json → List Json → Bool
  | [], [] => true
  | v :: r, v' :: r' => Json.beq v v' && Json.beqA r r'
  | _, _ => false
end

mutual
theorem Json.beq_eq : ∀ (a b : Json), Json.beq a b = true ↔ a = b
  | .str a, b => by cases b <;> simp [Json.beq]
  | .num a, b => by cases b <;> simp [Json.beq]
  | .bool a, b => by cases b <;> simp [Json.beq]
  | .obj a, b => by
    cases b <;> simp [Json.beq]
    exact Json.beqM_eq a _
  | .arr a, b => by
    cases b <;> simp [Json.beq]
    exact Json.beqA_eq a _
theorem Json.beqM_eq : ∀ (a b : List (Str × Json)), Json.beqM a b = true ↔ a = b
  | [], b => by cases b <;> simp [Json.beqM]
  | (k, v) :: r, b => by
    cases b with
    | nil => simp [Json.beqM]
    | cons kv' r' =>
      obtain ⟨k', v'⟩ := kv'
      simp [Json.beqM, Json.beq_eq v v', Json.beqM_eq r r', and_assoc]
theorem Json.beqA_eq : ∀ (a b : List Json), Json.beqA a b = true ↔ a = b
  | [], b => by cases b <;> simp [Json.beqA]
  | v :: r, b => by
    cases b with
    | nil => simp [Json.beqA]
    | cons v' r' => simp [Json.beqA, Json.beq_eq v v', Json.beqA_eq r r']
end

instance : DecidableEq Json := fun a b =>
  if h : Json.beq a b = true then isTrue ((Json.beq_eq a b).1 h)
  else isFalse (fun e => h ((Json.beq_eq a b).2 e))

/-- the part of `configapi.TypedValue` the document structure depends on.  `wide` is
    `len(TypeOpts) > 0 && TypeOpts[0] > 32`. -/
inductive Val
  | empty
  | str (s : Str)
  | int (n : Int) (wide : Bool)
  | uint (n : Nat) (wide : Bool)
  | bool (b : Bool)
deriving DecidableEq, Repr, Inhabited

/-- `configapi.PathValue` (path, value, deleted). -/
structure PV where
  path : Str
  val : Val
  deleted : Bool
deriving DecidableEq, Repr, Inhabited

inductive Err
  | notMap     -- "could not convert nodeif …"
  | listConv   -- "Failed to convert list slice <name>"
  | itemConv   -- "Failed to convert list slice <idx>"
  | panic      -- index/slice out of range, assignment to entry in nil map
  | malformed  -- "malformed list element …" / "malformed list key …" (bounds checks before the slices)
  | fuel       -- never produced with the fuel `buildTree` supplies
deriving DecidableEq, Repr, Inhabited

instance : DecidableEq (Except Err Json) := fun a b =>
  match a, b with
  | .ok x, .ok y => if h : x = y then isTrue (by rw [h]) else isFalse (fun e => h (Except.ok.inj e))
  | .error x, .error y => if h : x = y then isTrue (by rw [h]) else isFalse (fun e => h (Except.error.inj e))
  | .ok _, .error _ => isFalse (fun e => by cases e)
  | .error _, .ok _ => isFalse (fun e => by cases e)

/-- `fmt.Sprintf("%d", n)`. -/
def decimal (n : Int) : Str := (toString n).toList

/-- what `handleLeafValue` stores (`none`: EMPTY is a no-op). -/
def leafJson (rfc : Bool) : Val → Option Json
  | .empty => none
  | .str s => some (.str s)
  | .int n wide => some (if rfc && wide then .str (decimal n) else .num n)
  | .uint n wide => some (if rfc && wide then .str (decimal (Int.ofNat n)) else .num (Int.ofNat n))
  | .bool b => some (.bool b)

/-- `m[k]` with the comma-ok. -/
def objGet : List (Str × Json) → Str → Option Json
  | [], _ => none
  | (k', v) :: r, k => if k = k' then some v else objGet r k

/-- `m[k] = v` on the sorted association list. -/
def objSet (k : Str) (v : Json) : List (Str × Json) → List (Str × Json)
  | [] => [(k, v)]
  | (k', v') :: r =>
    if strLt k k' then (k, v) :: (k', v') :: r
    else if k = k' then (k, v) :: r
    else (k', v') :: objSet k v r

/-- `convertBasicType`: integers in decimal, booleans as words, strings as they are, anything else
    through `reflect.Value.String()`. -/
def convertBasicType : Json → Str
  | .str s => s
  | .num n => decimal n
  | .bool b => if b then "true".toList else "false".toList
  | .obj _ => "<map[string]interface {} Value>".toList
  | .arr _ => "<[]interface {} Value>".toList

/-- `strings.Join(xs, "/")`. -/
def joinSlash : List Str → Str
  | [] => []
  | [x] => x
  | x :: y :: r => x ++ '/' :: joinSlash (y :: r)

/-- the `for strings.Contains(keyString, "=")` loop: key names and values are cut out of the text
    at the first `[`, `=`, `]`; bad bounds are refused with an error before the slice expressions (fix 33068de).  Every iteration drops
    at least two characters, so `fuel = len(keyString)` is never exhausted. -/
def keyLoop : Nat → Str → List (Str × Str) → Except Err (List (Str × Str))
  | 0, _, acc => .ok acc
  | fuel + 1, ks, acc =>
    match indexOf '=' 0 ks with
    | none => .ok acc
    | some eq =>
      let b1 := match indexOf '[' 0 ks with
        | none => 0          -- brktIdx = -1, brktIdx+1 = 0
        | some b => b + 1
      match indexOf ']' 0 ks with
      | none => .error .malformed             -- eqIdx+1 > brktIdx2 = -1
      | some b2 =>
        if eq < b1 then .error .malformed     -- brktIdx+1 > eqIdx
        else if b2 < eq + 1 then .error .malformed
        else keyLoop fuel (ks.drop (b2 + 1))
               (Path.mapInsert ((ks.take eq).drop b1) ((ks.take b2).drop (eq + 1)) acc)

/-- the inner `for k, v := range keyMap` on one existing list item (`idx` is its position):
    state = (`foundkeys`, position of `listItemMap`). -/
def scanItem (item : List (Str × Json)) (idx : Nat) : List (Str × Str) → Nat × Option Nat → Nat × Option Nat
  | [], st => st
  | (k, v) :: rest, (fk, sel) =>
    match objGet item k with
    | none => scanItem item idx rest (fk, sel)
    | some l =>
      if convertBasicType l = v then scanItem item idx rest (fk + 1, some idx)
      else (0, sel)            -- foundkeys = 0; continue existingListItemsLoop

/-- `existingListItemsLoop`. -/
def scanItems (km : List (Str × Str)) : List Json → Nat → Nat × Option Nat → Except Err (Nat × Option Nat)
  | [], _, st => .ok st
  | it :: rest, i, st =>
    match it with
    | .obj m => scanItems km rest (i + 1) (scanItem m i km st)
    | _ => .error .itemConv

/-- `handleLeafValue` on the node map. -/
def setLeaf (rfc : Bool) (m : List (Str × Json)) (name : Str) (v : Val) : List (Str × Json) :=
  match leafJson rfc v with
  | none => m
  | some j => objSet name j m

/-- `addPathToTree` entered with a *nil* map (the list item of an element whose key map came out
    empty, e.g. `a=b[c]`): reads behave like an empty map, the first write panics.  `rec` is the
    ordinary recursion on a fresh map.  `ok` = returned nil without touching anything. -/
def nilAdd (rfc : Bool) (rec : Str → Except Err Json) (path : Str) (val : Val) : Except Err Unit :=
  match splitPath path with
  | [] => .error .panic
  | [_] => if (leafJson rfc val).isNone then .ok () else .error .panic
  | e0 :: rest =>
    let refine := joinSlash rest
    if refine.isEmpty then .ok ()
    else if e0.contains '=' then .error .panic     -- bad slice, or `nodemap[listName] = listSlice`
    else
      match rec ('/' :: refine) with
      | .error e => .error e
      | .ok _ => .error .panic                     -- `nodemap[pathelems[0]] = elemMap`

/-- `listSlice, ok := nodemap[listName]` followed by the `[]interface{}` assertion
    (`none`: "Failed to convert list slice"). -/
def getSlice (m : List (Str × Json)) (listName : Str) : Option (List Json) :=
  match objGet m listName with
  | none => some []
  | some (.arr items) => some items
  | some _ => none

/-- the key map as a fresh list item (`listItemMap = keyMap`). -/
def keyObj (km : List (Str × Str)) : Json := .obj (km.map fun kv => (kv.1, Json.str kv.2))

/-- the list branch of `addPathToTree` once the key map `km` is known (`okm` = `km` in iteration
    order): look the item up, recurse into it (`recur`) or into a new one, give back the slice.
    `nilRecur` is the recursion with the nil map (possible only when `km` is empty). -/
def listStep (km okm : List (Str × Str)) (items : List Json)
    (recur : Json → Except Err Json) (nilRecur : Unit → Except Err Unit) : Except Err (List Json) :=
  match scanItems okm items 0 (0, none) with
  | .error e => .error e
  | .ok (fk, sel) =>
    if fk < km.length then
      match recur (keyObj km) with
      | .error e => .error e
      | .ok item => .ok (items ++ [item])          -- append(listSliceIf, listItemIf)
    else
      match sel with
      | some i =>
        match items[i]? with
        | none => .error .fuel                     -- impossible: `sel` is a position of `items`
        | some it =>
          match recur it with
          | .error e => .error e
          | .ok it' => .ok (items.set i it')       -- the item map was updated in place
      | none =>
        match nilRecur () with                     -- listItemMap is still the nil map
        | .error e => .error e
        | .ok () => .ok items

/-- `addPathToTree`.  Every recursive call is on a strictly shorter path, so
    `fuel = len(path) + 1` is never exhausted. -/
def addPath (rfc : Bool) (ord : List (Str × Str) → List (Str × Str)) :
    Nat → Str → Val → Json → Except Err Json
  | 0, _, _, _ => .error .fuel
  | fuel + 1, path, val, node =>
    match node with
    | .obj m =>
      match splitPath path with
      | [] => .error .panic                          -- pathelems[0]
      | [e] => .ok (.obj (setLeaf rfc m e val))
      | e0 :: rest =>
        let refine := joinSlash rest
        if e0.contains '=' then
          if refine.isEmpty then .ok node
          else
            match indexOf '[' 0 e0 with
            | none => .error .malformed              -- brktIdx < 0
            | some b =>
              let listName := e0.take b
              match keyLoop e0.length (e0.drop b) [] with
              | .error e => .error e
              | .ok km =>
                match getSlice m listName with
                | none => .error .listConv
                | some items =>
                  match listStep km (ord km) items
                      (fun it => addPath rfc ord fuel ('/' :: refine) val it)
                      (fun _ => nilAdd rfc (fun p => addPath rfc ord fuel p val (.obj [])) ('/' :: refine) val) with
                  | .error e => .error e
                  | .ok items' => .ok (.obj (objSet listName (.arr items') m))
        else
          if refine.isEmpty then .ok node
          else
            match objGet m e0 with
            | none =>
              match addPath rfc ord fuel ('/' :: refine) val (.obj []) with
              | .error e => .error e
              | .ok child => .ok (.obj (objSet e0 child m))
            | some child =>
              match addPath rfc ord fuel ('/' :: refine) val child with
              | .error e => .error e
              | .ok child' => .ok (.obj (objSet e0 child' m))
    | _ => .error .notMap

/-! ### PrunePathValues / PrunePathMap -/

/-- insertion into a list ordered by path (`a` goes before the first element that is not
    smaller): a stable sort.  `sort.Slice` is not stable, but the callers' inputs come from maps
    keyed by path, so paths are distinct and every comparison sort gives the same result. -/
def insertPV (x : PV) : List PV → List PV
  | [] => [x]
  | y :: r => if strLt y.path x.path then y :: insertPV x r else x :: y :: r

def sortPVs (l : List PV) : List PV := l.foldr insertPV []

/-- `strings.HasPrefix(s, p)`. -/
def hasPrefix (s p : Str) : Bool := p.isPrefixOf s

/-- the `for _, pv := range sortedPaths` loop of `PrunePathValues`; `dp` is `deletingPrefix`. -/
def pruneLoop (leaveTop : Bool) : Str → List PV → List PV
  | _, [] => []
  | dp, pv :: rest =>
    let start := pv.deleted && (dp.isEmpty || !hasPrefix pv.path dp)
    let dp1 := if start then pv.path else dp
    let top := if start && leaveTop then [pv] else []
    if dp1.isEmpty || !hasPrefix pv.path dp1 then top ++ pv :: pruneLoop leaveTop [] rest
    else top ++ pruneLoop leaveTop dp1 rest

/-- `PrunePathValues`. -/
def prunePathValues (paths : List PV) (leaveTop : Bool) : List PV :=
  pruneLoop leaveTop [] (sortPVs paths)

/-- `pruneMap[pv.Path] = pv` on a map kept sorted by path. -/
def pvMapSet (x : PV) : List PV → List PV
  | [] => [x]
  | y :: r =>
    if strLt x.path y.path then x :: y :: r
    else if x.path = y.path then x :: r
    else y :: pvMapSet x r

/-- `PrunePathMap`: `vals` are the map's values in iteration order; the result is the new map,
    sorted by key. -/
def prunePathMap (vals : List PV) (leaveTop : Bool) : List PV :=
  (prunePathValues vals leaveTop).foldl (fun acc pv => pvMapSet pv acc) []

/-! ### BuildTree -/

def addAll (rfc : Bool) (ord : List (Str × Str) → List (Str × Str)) : List PV → Json → Except Err Json
  | [], root => .ok root
  | pv :: rest, root =>
    match addPath rfc ord (pv.path.length + 1) pv.path pv.val root with
    | .error e => .error e
    | .ok root' => addAll rfc ord rest root'

/-- `BuildTree` up to `json.MarshalIndent` (which prints the map with sorted keys). -/
def buildTree (rfc : Bool) (ord : List (Str × Str) → List (Str × Str)) (values : List PV) : Except Err Json :=
  addAll rfc ord (prunePathValues values false) (.obj [])

end OnosVerif.Tree
