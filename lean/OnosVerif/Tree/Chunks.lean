/-
Twin of the send loop of `(*ModelPluginInfo).Validate` in pkg/pluginregistry/registry.go: the JSON
document is cut into pieces of `chunkSize` bytes (the constant is regenerated from the Go source
by the translator), the last piece holding the remainder.

Core-only: linked into the `oracle` driver.
-/
import OnosVerif.Generated.Facts

namespace OnosVerif.Tree

/-- the loop `for position < jsonLen { … }`, on the not yet sent remainder `d = jsonData[position:]`:
    `position+chunkSize < jsonLen` ⇔ `n < len(d)`.  Every iteration sends `n` bytes, so for `n > 0`
    the fuel `len(d)` is never exhausted (with `n = 0` the Go loop does not terminate). -/
def chunksAux {α : Type} (n : Nat) : Nat → List α → List (List α)
  | 0, _ => []
  | fuel + 1, d =>
    if d.isEmpty then []
    else if n < d.length then d.take n :: chunksAux n fuel (d.drop n)
    else [d]

/-- the sequence of `ValidateConfigRequestChunk.Json` payloads sent for the document `d`. -/
def chunks {α : Type} (n : Nat) (d : List α) : List (List α) := chunksAux n d.length d

/-- `chunkSize` of registry.go, as the translator read it from the current source. -/
def chunkSize : Nat := OnosVerif.Generated.chunkSize

/-- what `Validate` streams to the model plugin. -/
def validateChunks (doc : List UInt8) : List (List UInt8) := chunks chunkSize doc

end OnosVerif.Tree

namespace OnosVerif.Tree

/-- what the model plugin (the environment) does with one `ValidateConfigChunked` call. -/
inductive PluginBehaviour
  | openErr                 -- `p.Client.ValidateConfigChunked(ctx)` fails
  | sendErr (k : Nat)       -- the k-th `sender.Send` (counted from 0) fails
  | recvErr                 -- `sender.CloseAndRecv()` fails
  | answer (valid : Bool)   -- the plugin answers `Valid = valid`
deriving DecidableEq, Repr

/-- outcome of `Validate`: nil, `errors.NewInvalid`, or another error. -/
inductive VResult
  | ok | invalid | err
deriving DecidableEq, Repr

/-- `(*ModelPluginInfo).Validate`: the result and the chunks the plugin received. -/
def validate (n : Nat) (doc : List UInt8) : PluginBehaviour → VResult × List (List UInt8)
  | .openErr => (.err, [])
  | .sendErr k => if k < (chunks n doc).length then (.err, (chunks n doc).take k) else (.ok, chunks n doc)
  | .recvErr => (.err, chunks n doc)
  | .answer true => (.ok, chunks n doc)
  | .answer false => (.invalid, chunks n doc)

end OnosVerif.Tree
