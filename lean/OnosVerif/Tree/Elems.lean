/-
`addPathToTree` once more, on *parsed* paths (`GPath`: element names and key maps) instead of
path text: the same steps as `addPath` (it shares `setLeaf`, `getSlice`, `listStep`,
`scanItems`), with `SplitPath`/`strings.Index` replaced by the elements they yield for a
well-formed path.  `OnosVerif/Proofs/TreeBridge.lean` proves `addPath` on the text of a
well-formed path equal to `addElems` on its elements; the correspondence check also runs it
against the Go code directly (`tree.buildelems`).

Core-only: linked into the `oracle` driver.
-/
import OnosVerif.Tree.Model

namespace OnosVerif.Tree
open OnosVerif.Path (Str GPath Elem)

/-- the text `SplitPath` yields for an element whose keys are in canonical order. -/
def elemText (e : Elem) : Str := Path.writeSafe '/' e.name ++ e.keys.flatMap Path.strKey

/-- `addPathToTree` on the elements of a path. -/
def addElems (rfc : Bool) (ord : List (Str × Str) → List (Str × Str)) :
    GPath → Val → Json → Except Err Json
  | [], _, node =>
    match node with
    | .obj _ => .error .panic
    | _ => .error .notMap
  | [e], v, node =>
    match node with
    | .obj m => .ok (.obj (setLeaf rfc m (elemText e) v))
    | _ => .error .notMap
  | e :: e' :: rest, v, node =>
    match node with
    | .obj m =>
      if e.keys.isEmpty then
        match objGet m e.name with
        | none =>
          match addElems rfc ord (e' :: rest) v (.obj []) with
          | .error err => .error err
          | .ok child => .ok (.obj (objSet e.name child m))
        | some child =>
          match addElems rfc ord (e' :: rest) v child with
          | .error err => .error err
          | .ok child' => .ok (.obj (objSet e.name child' m))
      else
        match getSlice m e.name with
        | none => .error .listConv
        | some items =>
          match listStep e.keys (ord e.keys) items
              (fun it => addElems rfc ord (e' :: rest) v it) (fun _ => .error .panic) with
          | .error err => .error err
          | .ok items' => .ok (.obj (objSet e.name (.arr items') m))
    | _ => .error .notMap

/-- one path/value as elements. -/
abbrev Entry := GPath × Val

/-- the loop of `BuildTree` over already pruned, parsed path/values. -/
def addAllE (rfc : Bool) (ord : List (Str × Str) → List (Str × Str)) : List Entry → Json → Except Err Json
  | [], root => .ok root
  | (p, v) :: rest, root =>
    match addElems rfc ord p v root with
    | .error e => .error e
    | .ok root' => addAllE rfc ord rest root'

/-- `BuildTree` with the paths parsed after pruning (unparseable text: `none`). -/
def buildTreeE (rfc : Bool) (ord : List (Str × Str) → List (Str × Str)) (values : List PV) :
    Option (Except Err Json) :=
  match (prunePathValues values false).mapM (fun pv =>
      match Path.parsePath pv.path with
      | .ok p => some (p, pv.val)
      | .error _ => none) with
  | none => none
  | some es => some (addAllE rfc ord es (.obj []))

end OnosVerif.Tree
