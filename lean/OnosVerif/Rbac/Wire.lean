/- Line-protocol handlers for the RBAC twin (I/O glue, not part of the model).

  rbac.eval    <setting> md:<key>=<v>,<v>…            TemporaryEvaluate on a crafted NiceMD
  rbac.set     <setting> md:…                          gnmi Set with that incoming metadata (fixed valid request)
  rbac.authset <setting> cl:<key>=s:<v>|l:<v>,<v> md:… AuthenticationInterceptor (token with these claims) then Set
  rbac.list    <oidc> <rocenv> ent:<id>,<id> md:…      Get of target "*": the listed target ids
                 (<rocenv> = `unset`, or the value of the defined variable, `-` = defined but empty)
  rbac.authlist <oidc> <rocenv> ent:… cl:… md:…        the same behind the interceptor
  rbac.split <sep> <s> / rbac.fields <seps> <s>         strings.Split / strings.FieldsFunc
-/
import OnosVerif.Base.Wire
import OnosVerif.Rbac.Model

namespace OnosVerif.Rbac
open OnosVerif.Wire OnosVerif.ErrTable

def decList (s : String) : Option (List Str) :=
  if s.isEmpty then some [] else (s.splitOn ",").mapM decStr

def stripTag (tag tok : String) : Option String :=
  if tok.startsWith tag then some (tok.drop tag.length).toString else none

def decMdTok (tok : String) : Option (Str × List Str) := do
  let body ← stripTag "md:" tok
  match body.splitOn "=" with
  | [k, vs] => pure ((← decStr k), (← decList vs))
  | _ => none

def decClaimTok (tok : String) : Option (Str × Claim) := do
  let body ← stripTag "cl:" tok
  match body.splitOn "=" with
  | [k, c] =>
    let key ← decStr k
    if c.startsWith "s:" then pure (key, .str (← decStr (c.drop 2).toString))
    else if c.startsWith "l:" then pure (key, .list (← decList (c.drop 2).toString))
    else none
  | _ => none

def decEntTok (tok : String) : Option (List Str) := do
  let body ← stripTag "ent:" tok
  decList body

def decRocEnv (tok : String) : Option (Option Str) :=
  if tok == "unset" then some none else (decStr tok).map some

def mdToks (toks : List String) : Option MD := (toks.filter (·.startsWith "md:")).mapM decMdTok
def claimToks (toks : List String) : Option (List (Str × Claim)) := (toks.filter (·.startsWith "cl:")).mapM decClaimTok

def codeName (c : Option Code) : String := (c.map Code.name).getD "?"

def encVerdict : Except Panic Verdict → String
  | .error _ => "panic"
  | .ok .permit => "permit"
  | .ok (.refuse c) => "refuse " ++ codeName c

/-- the rest of `Set` for the harness's fixed valid request: topo.Get, registry.GetPlugin,
    transactions.Create, transactions.Watch; one transaction appended. -/
def fixedRest : Str → Rest := fun _ => { calls := 4, appended := 1 }

def encSet : Except Panic SetResult → String
  | .error _ => "panic"
  | .ok r =>
    match r.outcome with
    | .passed u => s!"passed user={encStr u} calls={r.serverCalls} log={r.appended}"
    | .refused c => s!"refused {codeName c} calls={r.serverCalls} log={r.appended}"

def encTargets : Except Panic (List Str) → String
  | .error _ => "panic"
  | .ok l => " ".intercalate ("ok" :: l.map encStr)

def handle (op : String) (args : List String) : Option String :=
  match op, args with
  | "eval", s :: rest => do
    let setting ← decStr s
    let md ← mdToks rest
    pure (encVerdict (temporaryEvaluate setting md))
  | "set", s :: rest => do
    let setting ← decStr s
    let md ← mdToks rest
    pure (encSet (setHandler setting (fromIncoming md) fixedRest))
  | "authset", s :: rest => do
    let setting ← decStr s
    let md ← mdToks rest
    let claims ← claimToks rest
    pure (encSet (setHandler setting (fromIncoming (authIncoming (fromIncoming md) claims)) fixedRest))
  | "list", o :: r :: e :: rest => do
    let oidc ← decStr o
    let roc ← decRocEnv r
    let ents ← decEntTok e
    let md ← mdToks rest
    pure (encTargets ((getGroups (fromIncoming md)).map fun g => reportAllTargets oidc roc g ents))
  | "authlist", o :: r :: e :: rest => do
    let oidc ← decStr o
    let roc ← decRocEnv r
    let ents ← decEntTok e
    let md ← mdToks rest
    let claims ← claimToks rest
    pure (encTargets ((getGroups (fromIncoming (authIncoming (fromIncoming md) claims))).map
      fun g => reportAllTargets oidc roc g ents))
  | "split", [sep, s] => do
    let sp ← decStr sep
    let str ← decStr s
    match sp with
    | [c] => pure (" ".intercalate ("ok" :: (splitOn c str).map encStr))
    | _ => none
  | "fields", [seps, s] => do
    let sp ← decStr seps
    let str ← decStr s
    pure (" ".intercalate ("ok" :: (fieldsFunc (fun c => sp.contains c) str).map encStr))
  | _, _ => none

def handleIO (op : String) (args : List String) : IO (Option String) := pure (handle op args)

end OnosVerif.Rbac
