/-
Twin of the RBAC logic of onos-config (C14):

* `utils.TemporaryEvaluate` (pkg/utils/rbacevaluate.go) — as an *interpreter* of the decision
  structure the translator extracts from the current source (`Generated.rbacLoops`, `rbacAtoms`,
  `rbacSkipShape/Keys`, `rbacRefuseWhen/Code`): which strings are compared, with which operator,
  over which ranges.  A change of the comparison in the Go source changes the term evaluated here.
* the metadata view `metautils.NiceMD.Get` (lower-cased lookup key, first value, index panic on an
  empty value list), `metadata.FromIncomingContext` (keys lower-cased), and the claim handling of
  onos-lib-go's `AuthenticationInterceptor` (`Set` for scalar claims, `Add` for list claims);
* the position of the check in gnmi `Set` (pkg/northbound/gnmi/v2/set.go): what is evaluated before
  it, that a refusal ends the handler, which server/store calls precede it (`Generated.setCalls…`);
* `Get`'s derivation of the caller's groups and the filter of `reportAllTargets` (get.go).

A Go string is a `List Char` (all characters treated specially are ASCII).  A Go map is an
association list with distinct keys.  Panics are values.

Core-only: this file is linked into the `oracle` driver.
-/
import OnosVerif.Generated.Facts
import OnosVerif.Base.ExceptEq
import OnosVerif.ErrTable.Types

namespace OnosVerif.Rbac
open OnosVerif.ErrTable

abbrev Str := List Char

/-! ### strings.Split / strings.FieldsFunc / Contains … -/

/-- one pass over the string: the piece before the first separator and the list of later pieces. -/
def splitAux (p : Char → Bool) : Str → Str × List Str
  | [] => ([], [])
  | c :: cs =>
    if p c then ([], (splitAux p cs).1 :: (splitAux p cs).2)
    else (c :: (splitAux p cs).1, (splitAux p cs).2)

/-- the pieces of `s` between separator characters (empty pieces kept; never the empty list). -/
def splitBy (p : Char → Bool) (s : Str) : List Str := (splitAux p s).1 :: (splitAux p s).2

/-- `strings.Split(s, string(sep))` for a one-character separator. -/
def splitOn (sep : Char) (s : Str) : List Str := splitBy (fun c => c == sep) s

/-- `strings.FieldsFunc(s, p)`: the maximal non-empty runs of non-separator characters. -/
def fieldsFunc (p : Char → Bool) (s : Str) : List Str := (splitBy p s).filter (fun w => !w.isEmpty)

/-- `strings.HasPrefix(s, pre)`. -/
def hasPrefix : Str → Str → Bool
  | _, [] => true
  | [], _ :: _ => false
  | c :: cs, d :: ds => c == d && hasPrefix cs ds

/-- `strings.Contains(s, sub)`. -/
def contains : Str → Str → Bool
  | [], sub => sub.isEmpty
  | c :: cs, sub => hasPrefix (c :: cs) sub || contains cs sub

/-- `strings.HasSuffix(s, suf)`. -/
def hasSuffix (s suf : Str) : Bool := hasPrefix s.reverse suf.reverse

def lowerAscii (c : Char) : Char :=
  if 'A'.toNat ≤ c.toNat ∧ c.toNat ≤ 'Z'.toNat then Char.ofNat (c.toNat + 32) else c

/-- `strings.ToLower` on ASCII text (metadata keys are ASCII). -/
def toLower (s : Str) : Str := s.map lowerAscii

/-- `strings.EqualFold` on ASCII text. -/
def equalFold (a b : Str) : Bool := toLower a == toLower b

/-! ### metadata -/

inductive Panic
  | indexOutOfRange
deriving DecidableEq, Repr

/-- `metadata.MD` / `metautils.NiceMD`: key ↦ values. -/
abbrev MD := List (Str × List Str)

def mdLookup : MD → Str → Option (List Str)
  | [], _ => none
  | (k, v) :: rest, key => if k = key then some v else mdLookup rest key

/-- `m[k] = v` on the map. -/
def mdPut : MD → Str → List Str → MD
  | [], key, v => [(key, v)]
  | (k, w) :: rest, key, v => if k = key then (k, v) :: rest else (k, w) :: mdPut rest key v

/-- `NiceMD.Get(key)`: the first value stored under the lower-cased key; `""` when the key is
    absent; `vv[0]` panics when the key is present with no value. -/
def mdGet (md : MD) (key : Str) : Except Panic Str :=
  match mdLookup md (toLower key) with
  | none => .ok []
  | some [] => .error .indexOutOfRange
  | some (v :: _) => .ok v

/-- `NiceMD.Set(key, value)`. -/
def mdSet (md : MD) (key value : Str) : MD := mdPut md (toLower key) [value]

/-- `NiceMD.Add(key, value)`. -/
def mdAdd (md : MD) (key value : Str) : MD :=
  mdPut md (toLower key) ((mdLookup md (toLower key)).getD [] ++ [value])

/-- `metadata.FromIncomingContext`: a copy with lower-cased keys, built in the map's iteration
    order (a later entry with the same lower-cased key overwrites an earlier one). -/
def fromIncoming (raw : MD) : MD := raw.foldl (fun out kv => mdPut out (toLower kv.1) kv.2) []

/-- a JWT claim as `handleClaim` of onos-lib-go's `AuthenticationInterceptor` distinguishes them
    (numbers and booleans are rendered to a string and `Set` like strings; nested objects are not
    modelled). -/
inductive Claim
  | str (s : Str)
  | list (l : List Str)
deriving DecidableEq, Repr

/-- `handleClaim`: a scalar claim *replaces* whatever the client sent under that key; every member
    of a list claim is *appended* to what the client sent. -/
def applyClaim (md : MD) (kc : Str × Claim) : MD :=
  match kc.2 with
  | .str s => mdSet md kc.1 s
  | .list l => l.foldl (fun m v => mdAdd m kc.1 v) md

/-- the metadata the handlers see behind `AuthenticationInterceptor`: the client's own metadata
    (already lower-cased by gRPC) overlaid with the verified token's claims. -/
def authIncoming (client : MD) (claims : List (Str × Claim)) : MD := claims.foldl applyClaim client

/-! ### the comparison IR of the translator -/

structure Env where
  g : Option Str := none
  admin : Option Str := none
  setting : Option Str := none
  id : Option Str := none
  roc : Option Str := none

def operand (e : Env) (role : String) : Option Str :=
  match role with
  | "g" => e.g
  | "admin" => e.admin
  | "setting" => e.setting
  | "id" => e.id
  | "roc" => e.roc
  | r => match r.toList with
    | 'l' :: 'i' :: 't' :: ':' :: rest => some rest
    | _ => none

/-- one comparison.  A construct the translator does not know, or an operand it could not
    classify, is assumed able to hold (`true`): the model errs on the permissive side, so that the
    theorems cannot be proved about code that was not understood. -/
def evalAtom (e : Env) (a : String × String × String) : Bool :=
  match a.1, operand e a.2.1, operand e a.2.2 with
  | "==", some x, some y => x == y
  | "!=", some x, some y => x != y
  | "contains", some x, some y => contains x y
  | "hasPrefix", some x, some y => hasPrefix x y
  | "hasSuffix", some x, some y => hasSuffix x y
  | "equalFold", some x, some y => equalFold x y
  | _, _, _ => true

def evalAtoms (e : Env) (as : List (String × String × String)) : Bool := as.any (evalAtom e)

def sepChar (s : String) : Option Char :=
  match s.toList with
  | [c] => some c
  | _ => none

/-! ### TemporaryEvaluate -/

/-- the list the inner loop ranges over, computed from the ADMINGROUPS setting. -/
def adminEntries (kind seps : String) (setting : Str) : Option (List Str) :=
  match kind with
  | "fieldsenv" => some (fieldsFunc (fun c => seps.toList.contains c) setting)
  | "splitenv" => (sepChar seps).map (fun c => splitOn c setting)
  | _ => none

/-- does some iteration of the loop nest reach `match = true`? -/
def groupMatch (setting : Str) (md : MD) : Except Panic Bool :=
  match Generated.rbacLoops with
  | [("g", "splitmd", key, sep)] =>
    match sepChar sep with
    | some c => do
      let gv ← mdGet md key.toList
      pure ((splitOn c gv).any fun g => evalAtoms { g := some g, setting := some setting } Generated.rbacAtoms)
    | none => pure true
  | [("g", "splitmd", key, sep), ("admin", akind, _, aseps)] =>
    match sepChar sep, adminEntries akind aseps setting with
    | some c, some admins => do
      let gv ← mdGet md key.toList
      pure ((splitOn c gv).any fun g => admins.any fun a =>
        evalAtoms { g := some g, admin := some a, setting := some setting } Generated.rbacAtoms)
    | _, _ => pure true
  | _ => pure true

/-- `md.Get(k1) == "" && md.Get(k2) == "" && …` with Go's left-to-right short circuit. -/
def allEmpty (md : MD) : List Str → Except Panic Bool
  | [] => pure true
  | k :: ks => do
    let v ← mdGet md k
    if v = [] then allEmpty md ks else pure false

/-- the early `return nil`: requests that carry no identity are not subject to RBAC. -/
def skipGuard (md : MD) : Except Panic Bool :=
  match Generated.rbacSkipShape with
  | "none" => pure false
  | "allEmpty" => allEmpty md (Generated.rbacSkipKeys.map String.toList)
  | _ => pure true

inductive Verdict
  | permit
  | refuse (code : Option Code)
deriving DecidableEq, Repr

/-- `utils.TemporaryEvaluate(md)` under `ADMINGROUPS = setting`. -/
def temporaryEvaluate (setting : Str) (md : MD) : Except Panic Verdict := do
  if (← skipGuard md) then return .permit
  let m ← groupMatch setting md
  let refuse := match Generated.rbacRefuseWhen with
    | "notMatch" => !m
    | "match" => m
    | _ => false
  if refuse then return .refuse (Code.ofName Generated.rbacRefuseCode)
  return .permit

/-! ### the check inside `Set` -/

/-- a call on the server object: its stores, the topology, the plugin registry, its own helpers. -/
def isServerCall (name : String) : Bool :=
  match name.toList with
  | 's' :: '.' :: _ => true
  | _ => false

def serverCallsBeforeRbac : Nat := (Generated.setCallsBeforeRbac.filter isServerCall).length

def serverCallsInRefusal : Nat := (Generated.setRbacRefusalCalls.filter isServerCall).length

/-- the check is on every path through `Set` (it is nested in nothing but the `md != nil` guard,
    which always holds because `ExtractIncoming` never returns nil) and a refusal returns. -/
def checkDominates : Bool :=
  Generated.setRbacPresent && Generated.setRbacGuard == "extractIncomingNonNil" &&
  Generated.setRbacEnclosing.all (· == "if") && Generated.setRbacRefusalReturns

/-- the `md.Get` calls evaluated (as arguments of the log line and for `userName`) before the
    check: any of them panics on a key with an empty value list. -/
def touchKeys (md : MD) : List Str → Except Panic Unit
  | [] => pure ()
  | k :: ks => do
    let _ ← mdGet md k
    touchKeys md ks

/-- `userName = md.Get(k1); if userName == "" { userName = md.Get(k2) } …`. -/
def userName (md : MD) : List Str → Except Panic Str
  | [] => pure []
  | [k] => mdGet md k
  | k :: ks => do
    let v ← mdGet md k
    if v = [] then userName md ks else pure v

/-- what the rest of the handler does once the check has passed, as far as C14 observes it:
    how many calls it makes on the server's stores and how many transactions it appends. -/
structure Rest where
  calls : Nat
  appended : Nat

inductive SetOutcome
  | refused (code : Option Code)
  | passed (user : Str)
deriving DecidableEq, Repr

structure SetResult where
  outcome : SetOutcome
  serverCalls : Nat
  appended : Nat
deriving DecidableEq, Repr

/-- gnmi `Set` as far as C14 is concerned: the RBAC phase followed by an abstract rest. -/
def setHandler (setting : Str) (md : MD) (rest : Str → Rest) : Except Panic SetResult := do
  touchKeys md (Generated.setMdKeysBeforeRbac.map String.toList)
  let user ← userName md (Generated.setUserNameKeys.map String.toList)
  let pass : SetResult :=
    { outcome := .passed user, serverCalls := serverCallsBeforeRbac + (rest user).calls, appended := (rest user).appended }
  if !Generated.setRbacPresent then return pass
  match (← temporaryEvaluate setting md) with
  | .permit => return pass
  | .refuse _ =>
    if checkDominates then
      return { outcome := .refused ((ErrType.ofName Generated.setRbacRefusalError).map statusOfType),
               serverCalls := serverCallsBeforeRbac + serverCallsInRefusal, appended := 0 }
    else return pass

/-! ### Get: the caller's groups and the listing filter -/

/-- `groups` as `Get` (and `Subscribe`) derive them: only when the guard key is non-empty. -/
def getGroups (md : MD) : Except Panic (List Str) := do
  let n ← mdGet md Generated.getGroupsGuardKey.toList
  if n = [] then return []
  touchKeys md (Generated.getGuardBodyKeys.map String.toList)
  let gv ← mdGet md Generated.getGroupsKey.toList
  match sepChar Generated.getGroupsSep with
  | some c => return splitOn c gv
  | none => return [gv]

/-- the ROC administrator group name: the default unless the environment variable overrides it.
    `rocEnv = none` — the variable is not defined; `some v` — it is defined with value `v` (possibly
    empty).  When the override applies is read from the source (`Generated.listRocOverride`):
    only for a non-empty value (`os.Getenv … != ""`), or whenever the variable is defined
    (`os.LookupEnv`).  An override construct the translator does not know yields the empty name
    (the worst case: it equals the empty entry `strings.Split` produces for a caller without groups). -/
def rocAdmin (rocEnv : Option Str) : Str :=
  match Generated.listRocOverride with
  | "none" => Generated.listRocDefault.toList
  | "getenvNonEmpty" =>
    match rocEnv with
    | some v => if v = [] then Generated.listRocDefault.toList else v
    | none => Generated.listRocDefault.toList
  | "lookupPresent" =>
    match rocEnv with
    | some v => v
    | none => Generated.listRocDefault.toList
  | _ => []

/-- is this entity listed for a caller with these groups (authorization on)? -/
def listed (roc : Str) (groups : List Str) (id : Str) : Bool :=
  match Generated.listShape with
  | "anyGroup" => groups.any fun g => evalAtoms { g := some g, id := some id, roc := some roc } Generated.listAtoms
  | _ => true

/-- `reportAllTargets`: the ids of the configurable entities, in topology order, filtered when
    `OIDC_SERVER_URL` is set. -/
def reportAllTargets (oidc : Str) (rocEnv : Option Str) (groups : List Str) (entities : List Str) : List Str :=
  if Generated.listGuardEnv == Generated.oidcServerURLEnv && oidc ≠ [] then
    entities.filter (listed (rocAdmin rocEnv) groups)
  else if Generated.listElseAppends then entities else []

end OnosVerif.Rbac
