/-
Specification-level vocabulary of C14: what "one of the configured administrator groups" and
"the caller's groups" mean, written without reference to how the code parses anything.
Used by the theorems (OnosVerif/Props/C14.lean) and the helper lemmas; not linked into the driver.
-/
import OnosVerif.Rbac.Model

namespace OnosVerif.Rbac

/-- the characters that separate entries of the `ADMINGROUPS` setting. -/
def isAdminSep (c : Char) : Bool := [',', ';', ' '].contains c

/-- `pre` is empty or ends with a separator. -/
def BoundL (p : Char → Bool) (pre : Str) : Prop := pre = [] ∨ ∃ pre' c, pre = pre' ++ [c] ∧ p c = true

/-- `post` is empty or starts with a separator. -/
def BoundR (p : Char → Bool) (post : Str) : Prop := post = [] ∨ ∃ c post', post = c :: post' ∧ p c = true

/-- `w` is a piece of `s`: a separator-free stretch of `s` delimited on both sides by a separator
    or an end of `s`. -/
def IsPiece (p : Char → Bool) (w s : Str) : Prop :=
  (∀ c ∈ w, p c = false) ∧ ∃ pre post, s = pre ++ w ++ post ∧ BoundL p pre ∧ BoundR p post

/-- `g` is one of the configured administrator groups: a non-empty entry of the setting, entries
    being separated by `,`, `;` or a blank. -/
def IsAdminGroup (setting g : Str) : Prop := g ≠ [] ∧ IsPiece isAdminSep g setting

/-- executable form of `IsAdminGroup` (equivalence: `isAdminGroup_iff`). -/
def isAdminGroup (setting g : Str) : Bool := (fieldsFunc isAdminSep setting).contains g

/-- the value `md.Get(key)` yields when it does not panic. -/
def firstValue (md : MD) (key : Str) : Str :=
  match mdLookup md key with
  | some (v :: _) => v
  | _ => []

def kName : Str := ['n', 'a', 'm', 'e']
def kUser : Str := ['p', 'r', 'e', 'f', 'e', 'r', 'r', 'e', 'd', '_', 'u', 's', 'e', 'r', 'n', 'a', 'm', 'e']
def kGroups : Str := ['g', 'r', 'o', 'u', 'p', 's']
def kEmail : Str := ['e', 'm', 'a', 'i', 'l']

/-- the request carries identity metadata. -/
def identityPresent (md : MD) : Bool :=
  firstValue md kName != [] || firstValue md kUser != [] || firstValue md kGroups != []

/-- the caller's groups as the handlers see them: the `groups` value split on `;`. -/
def callerGroups (md : MD) : List Str := splitOn ';' (firstValue md kGroups)

/-- no key is present with an empty list of values (true of every metadata that arrived over
    gRPC or was produced by `Set`/`Add`). -/
def mdWF (md : MD) : Bool := md.all (fun kv => kv.2 != [])

/-- groups named by a verified token. -/
def tokenGroups (claims : List (Str × Claim)) : List Str :=
  claims.flatMap fun kc =>
    if toLower kc.1 = kGroups then
      match kc.2 with
      | .str s => splitOn ';' s
      | .list l => l.flatMap (splitOn ';')
    else []

end OnosVerif.Rbac
