/-
Twin of pkg/controller/v2/proposal/controller.go (one `Reconcile(proposalID)` as a plan),
pkg/controller/v2/configuration/controller.go and pkg/controller/v2/mastership/controller.go.
Branch order follows the Go code.
-/
import OnosVerif.V2.Tx

namespace OnosVerif.V2
open OnosVerif.Config (PV VMap)

/-- what the environment contributes to one invocation -/
inductive DevResp
  | ok
  | retry            -- Unavailable / Canceled / DeadlineExceeded: the reconcile returns the error
  | wait             -- PermissionDenied: superseded master, return nil
  | fail (f : Failure)
deriving DecidableEq, Repr, Inhabited

structure Env where
  /-- model plugin: none = not registered, some v = its verdict on the candidate -/
  plugin : Option Bool := some true
  dev : DevResp := .ok
  /-- number of re-sync requests that succeed before `dev` is returned (configuration reconciler) -/
  syncOk : Nat := 1000000
  /-- the topo entity of the target is marked persistent -/
  persistent : Bool := false
  /-- which live relation the mastership reconciler picks (index modulo their number) -/
  pick : Nat := 0
  /-- iteration order of the updated change when it is applied (reconcileCommit) -/
  ordU : Nat := 0
  /-- iteration order of the proposal's change map (validate capture, AddDeleteChildren) -/
  ordC : Nat := 0
deriving DecidableEq, Repr, Inhabited

/-- all permutations (for small lists) -/
def perms {α : Type} : List α → List (List α)
  | [] => [[]]
  | x :: xs => (perms xs).flatMap fun p => (List.range (p.length + 1)).map fun i => p.take i ++ x :: p.drop i

def permute {α : Type} (n : Nat) (l : List α) : List α :=
  if n = 0 then l else
    let ps := perms l
    (ps[n % ps.length]?).getD l

/-- `configurations.UpdateStatus(config)`: the values half (only when `Status.Applied.Values`
    is non-nil, i.e. the side map is non-empty or the caller filled it) and the entry CAS, which
    leaves the caller's `Values` in the entry. -/
def statusWrite (c : Cfg) (applied : VMap) (values : VMap) (u : CfgUpd) (oc : OnConflict) : List Effect :=
  (if applied.isEmpty then [] else [.cfgAVals c.target applied]) ++
    [.cfg c.target c.version u (some values) [] oc]

def propInitialize (s : Sys) (p : Proposal) : Plan :=
  match p.init with
  | .opened =>
    match s.cfg? p.target with
    | none => { effects := [.createCfg p.target p.index], requeue := some (.prop (p.target, p.index)) }
    | some c =>
      if c.proposed < p.index then
        let setProposed : Plan :=
          { effects := statusWrite c c.aview c.view (.setProposed p.index) .error,
            requeue := some (.prop (p.target, p.index)) }
        if c.proposed > 0 then
          match s.prop? (p.target, c.proposed) with
          | none => setProposed
          | some prevP =>
            if prevP.next = 0 then
              { effects := [.prop (prevP.target, prevP.index) prevP.version (.setNext p.index)],
                requeue := some (.prop (p.target, p.index)) }
            else if p.prev = 0 then
              { effects := [.prop (p.target, p.index) p.version (.setPrev c.proposed)],
                requeue := some (.prop (p.target, p.index)) }
            else setProposed
        else setProposed
      else { effects := [.prop (p.target, p.index) p.version .initDone] }
  | _ => .nop

/-- the candidate of a rollback proposal: `changeValues[path] = rollbackValue` over a copy of `config.Values` -/
def overlay (base : VMap) (over : VMap) : VMap := over.foldl (fun m e => VMap.set m e) base

def propValidate (s : Sys) (p : Proposal) (env : Env) : Plan :=
  match p.validate with
  | .opened =>
    match s.cfg? p.target with
    | none => .nop
    | some c =>
      if p.prev ≠ 0 ∧ c.committed ≠ p.prev then { requeue := some (.prop (p.target, p.prev)) }
      else
        let id : PropId := (p.target, p.index)
        match env.plugin with
        | none => { effects := [.prop id p.version (.validateFailed .invalid)] }
        | some verdict =>
          let finish (rbIndex : Nat) (rb : VMap) : Plan :=
            if verdict then { effects := [.prop id p.version (.validateDone rbIndex rb)] }
            else { effects := [.prop id p.version (.validateFailed .invalid)] }
          if !p.isRollback then
            finish c.index (Config.rollbackValues c.view (permute env.ordC p.change))
          else if c.index ≠ p.rollbackOf then { effects := [.prop id p.version (.validateFailed .forbidden)] }
          else
            match s.prop? (p.target, p.rollbackOf) with
            | none => { effects := [.prop id p.version (.validateFailed .notFound)] }
            | some tp =>
              if tp.isRollback then { effects := [.prop id p.version (.validateFailed .forbidden)] }
              else finish tp.rbIndex tp.rbValues
  | _ => .nop

/-- the document the plugin is asked to validate (the live leaves of the candidate) — for C05 -/
def validateDoc (s : Sys) (p : Proposal) : List (List Char × List Char) :=
  match s.cfg? p.target with
  | none => []
  | some c =>
    let live (m : VMap) := ((Config.prunePathValues m false).filter (fun e => !e.deleted)).map (fun e => (e.path, e.value))
    if !p.isRollback then Config.validateCandidate c.view p.change
    else
      match s.prop? (p.target, p.rollbackOf) with
      | some tp => live (overlay c.view tp.rbValues)
      | none => []

def propAbort (s : Sys) (p : Proposal) : Plan :=
  match p.abort with
  | .opened =>
    match s.cfg? p.target with
    | none => .nop
    | some c =>
      let id : PropId := (p.target, p.index)
      if c.committed = p.prev ∧ c.applied = p.prev then
        { effects := statusWrite c c.aview c.view (.abortBoth p.index) .error ++ [.prop id p.version .abortDone] }
      else if c.committed = p.prev then
        { effects := statusWrite c c.aview c.view (.abortCommitted p.index) .error }
      else if c.applied = p.prev ∧ c.committed ≥ p.index then
        { effects := statusWrite c c.aview c.view (.abortApplied p.index) .error ++ [.prop id p.version .abortDone] }
      else .nop
  | .done =>
    -- ABORTED: the next proposal of the target may be waiting for the indexes this abort advanced
    if p.next ≠ 0 then { requeue := some (.prop (p.target, p.next)) } else .nop
  | _ => .nop

def propCommit (s : Sys) (p : Proposal) (env : Env) : Plan :=
  match p.commit with
  | .opened =>
    match s.cfg? p.target with
    | none => .nop
    | some c =>
      let id : PropId := (p.target, p.index)
      if c.committed = p.prev then
        let changeValues := permute env.ordC (if p.isRollback then p.rbValues else p.change)
        let newIndex := if p.isRollback then p.rbIndex else p.index
        let r := Config.addDeleteChildren p.index changeValues [] c.view
        let values := Config.applyAll (permute env.ordU r.1) r.2
        { effects := [.cfgVals p.target values, .cfg p.target c.version (.commit p.index newIndex) none c.aview .error,
                      .prop id p.version .commitDone] }
      else { effects := [.prop id p.version .commitDone] }
  | .done =>
    if p.next ≠ 0 then { requeue := some (.prop (p.target, p.next)) } else .nop
  | _ => .nop

def propApply (s : Sys) (p : Proposal) (env : Env) : Plan :=
  match p.apply with
  | .opened =>
    match s.cfg? p.target with
    | none => .nop
    | some c =>
      let id : PropId := (p.target, p.index)
      if c.applied ≥ p.index then { effects := [.prop id p.version (.applyDone c.appliedTerm)] }
      else if p.prev ≠ 0 ∧ c.applied ≠ p.prev then { requeue := some (.prop (p.target, p.prev)) }
      else if c.state = .synchronizing then .nop
      else if c.appliedTerm < c.term then .nop
      else if c.master = 0 then .nop
      else
        match s.rel? c.master with
        | none => .nop
        | some rel =>
          if !rel.conn then .nop
          else
            let changeValues := permute env.ordC (if p.isRollback then p.rbValues else p.change)
            let r := Config.addDeleteChildren p.index changeValues [] c.view
            let payload := Config.prunePathValues r.1 true
            let req : DevReq := { target := p.target, conn := c.master, term := c.term, kind := .apply p.index, payload := payload }
            match env.dev with
            | .retry => { err := true }
            | .wait => .nop
            | .fail f =>
              { effects := [.dev { req with accepted := false }] ++
                  statusWrite c c.aview r.2 (.setApplied p.index) .error ++
                  [.prop id p.version (.applyFailed f c.term)] }
            | .ok =>
              { effects := [.dev req] ++
                  statusWrite c (overlay c.aview r.1) r.2 (.setApplied p.index) .error ++
                  [.prop id p.version (.applyDone c.term)] }
  | .done | .failed =>
    if p.next ≠ 0 then { requeue := some (.prop (p.target, p.next)) } else .nop
  | _ => .nop

/-- `reconcileProposal`: the if-chain over the phase pointers. -/
def propReconcile (s : Sys) (id : PropId) (env : Env) : Plan :=
  match s.prop? id with
  | none => .nop
  | some p =>
    if p.apply ≠ .none then propApply s p env
    else if p.abort ≠ .none then propAbort s p
    else if p.commit ≠ .none then propCommit s p env
    else if p.validate ≠ .none then propValidate s p env
    else if p.init ≠ .none then propInitialize s p
    else { effects := [.prop id p.version .openInit] }

/-- group the applied values by transaction index, in the iteration order of the Go map
    (`indexedPathValues`): here by first occurrence -/
def groupByIndex (vals : VMap) : List (Nat × List PV) :=
  vals.foldl (fun acc e =>
    if acc.any (fun g => g.1 = e.index) then acc.map (fun g => if g.1 = e.index then (g.1, g.2 ++ [e]) else g)
    else acc ++ [(e.index, [e])]) []

/-- the re-sync requests: the first `n` succeed -/
def syncEffects (c : Cfg) (groups : List (Nat × List PV)) (n : Nat) : List Effect :=
  (groups.take n).map fun g =>
    .dev { target := c.target, conn := c.master, term := c.term, kind := .sync g.1, payload := g.2 }

/-- `reconcileConfiguration` -/
def cfgReconcile (s : Sys) (t : Tgt) (env : Env) : Plan :=
  match s.cfg? t with
  | none => .nop
  | some c =>
    if env.persistent then
      if c.state ≠ .persisted ∨ c.appliedTerm < c.term then
        { effects := statusWrite c c.aview c.view .persisted .swallow }
      else .nop
    else if c.state ≠ .synchronizing then
      if c.term > c.appliedTerm then
        { effects := statusWrite c c.aview c.view (.setState .synchronizing) .swallow }
      else .nop
    else if c.master = 0 then .nop
    else if c.applied = 0 then { effects := statusWrite c c.aview c.view .synced .swallow }
    else
      match s.rel? c.master with
      | none => .nop
      | some rel =>
        if !rel.conn then .nop
        else
          let groups := permute env.ordU (groupByIndex c.aview)
          if env.syncOk ≥ groups.length ∨ env.dev = .ok then
            { effects := syncEffects c groups groups.length ++ statusWrite c c.aview c.view .synced .swallow }
          else
            match env.dev with
            | .wait => { effects := syncEffects c groups env.syncOk }
            | _ => { effects := syncEffects c groups env.syncOk, err := true }

/-- the mastership reconciler -/
def mastReconcile (s : Sys) (t : Tgt) (env : Env) : Plan :=
  match s.cfg? t with
  | none => .nop
  | some c =>
    let live := s.rels.filter (fun r => r.target = t)
    if live.any (fun r => r.id = c.master) then .nop
    else if live.isEmpty then
      if c.master = 0 then .nop
      else { effects := statusWrite c c.aview c.view .resign .swallow }
    else
      let r := (live[env.pick % live.length]?).getD default
      { effects := statusWrite c c.aview c.view (.elect r.id) .swallow }

def reconcile (s : Sys) (id : Id) (env : Env) : Plan :=
  match id with
  | .tx i => txReconcile s i
  | .prop pid => propReconcile s pid env
  | .cfg t => cfgReconcile s t env
  | .mast t => mastReconcile s t env

end OnosVerif.V2
