/-
Twin of the v2 control plane (DESIGN.md §4, §6 C01 C02 C04 C05 C07 C09 C10 C11): record types,
effects and their execution.  A reconcile invocation reads a snapshot and yields a list of
*effects* (store writes and southbound requests, in program order); each compare-and-set write is
an update applied to the record *as it is when the write executes*, guarded by the version the
invocation read — exactly what `IfVersion` gives the Go code.  Between two effects of one
invocation anything else may happen (other partitions, faults, crash).
Core-only: linked into the `oracle` driver.
-/
import OnosVerif.Config.Model

namespace OnosVerif.V2
open OnosVerif.Config (PV VMap VMap.set)

/-- a phase pointer and its state: nil / X-ING / X-ED / FAILED -/
inductive Ph | none | opened | done | failed
deriving DecidableEq, Repr, Inhabited

inductive TxState | pending | validated | committed | applied | failed
deriving DecidableEq, Repr, Inhabited

/-- numeric order of configapi.TransactionStatus_State (PENDING < VALIDATED < COMMITTED < APPLIED < FAILED) -/
def TxState.rank : TxState → Nat
  | .pending => 0 | .validated => 1 | .committed => 2 | .applied => 3 | .failed => 4

inductive Failure
  | unknown | canceled | notFound | alreadyExists | unauthorized | forbidden | conflict
  | invalid | unavailable | notSupported | timeout | internal
deriving DecidableEq, Repr, Inhabited

inductive CfgState | unknown | synchronizing | synchronized | persisted
deriving DecidableEq, Repr, Inhabited

abbrev Tgt := Nat
abbrev PropId := Tgt × Nat

structure Tx where
  index : Nat
  isRollback : Bool := false
  rollbackIndex : Nat := 0
  /-- `Change.Values`: target → change, listed in the iteration order of the Go map -/
  changes : List (Tgt × VMap) := []
  serializable : Bool := false
  sync : Bool := false
  init : Ph := .none
  validate : Ph := .none
  commit : Ph := .none
  apply : Ph := .none
  abort : Ph := .none
  state : TxState := .pending
  failure : Option Failure := none
  proposals : Option (List PropId) := none
  version : Nat := 1
deriving DecidableEq, Repr, Inhabited

structure Proposal where
  target : Tgt
  index : Nat
  isRollback : Bool := false
  /-- `Details.Rollback.RollbackIndex` -/
  rollbackOf : Nat := 0
  change : VMap := []
  prev : Nat := 0
  next : Nat := 0
  rbIndex : Nat := 0
  rbValues : VMap := []
  init : Ph := .none
  validate : Ph := .none
  commit : Ph := .none
  apply : Ph := .none
  abort : Ph := .none
  vFailure : Option Failure := none
  aFailure : Option Failure := none
  applyTerm : Nat := 0
  version : Nat := 1
deriving DecidableEq, Repr, Inhabited

structure Cfg where
  target : Tgt
  index : Nat := 0
  proposed : Nat := 0
  committed : Nat := 0
  applied : Nat := 0
  master : Nat := 0            -- relation id, 0 = ""
  term : Nat := 0
  appliedMaster : Nat := 0
  appliedTerm : Nat := 0
  state : CfgState := .unknown
  /-- the committed side map (atomix map `configurations-<id>`): `Values` -/
  vals : VMap := []
  /-- the applied side map (atomix map `configurations-<id>-applied`): `Status.Applied.Values` -/
  avals : VMap := []
  /-- `Values` left inside the entry by the last `UpdateStatus` (`Update` writes `Values = nil`);
      `Get` returns this copy overlaid with the side map. -/
  shadow : VMap := []
  /-- `Status.Applied.Values` left inside the entry by the last `Update` (`UpdateStatus` writes it
      as nil); `Get` returns this copy overlaid with the side map. -/
  ashadow : VMap := []
  version : Nat := 1
deriving DecidableEq, Repr, Inhabited

/-- a CONTROLS relation of this node to a target, and whether a connection with that id exists -/
structure Rel where
  id : Nat
  target : Tgt
  conn : Bool := true
deriving DecidableEq, Repr, Inhabited

/-- what is sent southbound -/
inductive ReqKind | apply (idx : Nat) | sync (idx : Nat)
deriving DecidableEq, Repr, Inhabited

structure DevReq where
  target : Tgt
  conn : Nat
  term : Nat
  kind : ReqKind
  payload : List PV
  /-- false: the device refused the request (its configuration is unchanged) -/
  accepted : Bool := true
deriving DecidableEq, Repr, Inhabited

structure TxUpdFields where
  dummy : Unit := ()

inductive TxUpd
  | openInit
  | setProposals (ps : List PropId)
  | initFailed (f : Failure)
  | initDone
  | openValidate
  | validateFailed (f : Option Failure)
  | validateDone
  | openCommit
  | commitDone
  | openApply
  | applyFailed (f : Option Failure)
  | applyDone
  | abortDone
deriving DecidableEq, Repr, Inhabited

inductive PropUpd
  | openInit
  | setNext (n : Nat)
  | setPrev (n : Nat)
  | initDone
  | openValidate
  | validateFailed (f : Failure)
  | validateDone (rbIndex : Nat) (rbValues : VMap)
  | openCommit
  | commitDone
  | openApply
  | applyDone (term : Nat)
  | applyFailed (f : Failure) (term : Nat)
  | openAbort
  | abortDone
deriving DecidableEq, Repr, Inhabited

inductive CfgUpd
  | setProposed (n : Nat)
  /-- entry half of `configurations.Update` in reconcileCommit -/
  | commit (idx : Nat) (newIndex : Nat)
  | setApplied (idx : Nat)
  | abortBoth (idx : Nat)
  | abortCommitted (idx : Nat)
  | abortApplied (idx : Nat)
  | setState (st : CfgState)
  | synced                       -- SYNCHRONIZED, Applied.Mastership := Mastership
  | persisted                    -- PERSISTED, Applied.Mastership := Mastership
  | elect (master : Nat)         -- Term++, Master := master
  | resign
deriving DecidableEq, Repr, Inhabited

/-- how a failed compare-and-set is reported to the invocation -/
inductive OnConflict | swallow | error
deriving DecidableEq, Repr, Inhabited

inductive Effect
  | tx (i : Nat) (ver : Nat) (u : TxUpd)
  | prop (id : PropId) (ver : Nat) (u : PropUpd)
  | createProp (p : Proposal)
  | createCfg (t : Tgt) (proposed : Nat)
  /-- `configurationStore.store(committed, values)` — the values half of `Update` -/
  | cfgVals (t : Tgt) (vals : VMap)
  /-- `configurationStore.store(applied, values)` — the values half of `UpdateStatus` -/
  | cfgAVals (t : Tgt) (vals : VMap)
  /-- the entry compare-and-set of `Update` (`shadow = none`: `Values` is cleared) or of
      `UpdateStatus` (`shadow = some v`: the caller's in-memory `Values` stay in the entry, its
      `Status.Applied.Values` is cleared); `ashadow` is what `Update` leaves in `Status.Applied.Values` -/
  | cfg (t : Tgt) (ver : Nat) (u : CfgUpd) (shadow : Option VMap) (ashadow : VMap) (onConflict : OnConflict)
  | dev (r : DevReq)
deriving DecidableEq, Repr, Inhabited

/-- the persistent state: three stores, the environment the controllers observe, the devices,
    and ghost logs. -/
structure Sys where
  txs : List Tx := []
  props : List Proposal := []
  cfgs : List Cfg := []
  rels : List Rel := []
  /-- device configuration per target (live path/value pairs after gNMI application) -/
  devs : List (Tgt × VMap) := []
  /-- ghost: (target, index) in the order the committed index was advanced to index by a commit -/
  commitLog : List (Tgt × Nat) := []
  /-- ghost: every southbound request, oldest first -/
  devLog : List DevReq := []
deriving DecidableEq, Repr, Inhabited

/-- `config.Values` as `configurations.Get` returns it: the entry's own copy overlaid with the side map -/
def Cfg.view (c : Cfg) : VMap := c.vals.foldl (fun m e => VMap.set m e) c.shadow

/-- `config.Status.Applied.Values` as `configurations.Get` returns it -/
def Cfg.aview (c : Cfg) : VMap := c.avals.foldl (fun m e => VMap.set m e) c.ashadow

def Sys.tx? (s : Sys) (i : Nat) : Option Tx := s.txs.find? (fun t => t.index = i)
def Sys.prop? (s : Sys) (id : PropId) : Option Proposal :=
  s.props.find? (fun p => p.target = id.1 ∧ p.index = id.2)
def Sys.cfg? (s : Sys) (t : Tgt) : Option Cfg := s.cfgs.find? (fun c => c.target = t)
def Sys.rel? (s : Sys) (id : Nat) : Option Rel := s.rels.find? (fun r => r.id = id)

def Sys.setTx (s : Sys) (t : Tx) : Sys :=
  { s with txs := s.txs.map (fun x => if x.index = t.index then t else x) }
def Sys.setProp (s : Sys) (p : Proposal) : Sys :=
  { s with props := s.props.map (fun x => if x.target = p.target ∧ x.index = p.index then p else x) }
def Sys.setCfg (s : Sys) (c : Cfg) : Sys :=
  { s with cfgs := s.cfgs.map (fun x => if x.target = c.target then c else x) }

def applyTxUpd (t : Tx) : TxUpd → Tx
  | .openInit => { t with init := .opened }
  | .setProposals ps => { t with proposals := some ps }
  | .initFailed f => { t with state := .failed, failure := some f, abort := .opened, init := .failed }
  | .initDone => { t with init := .done }
  | .openValidate => { t with validate := .opened }
  | .validateFailed f => { t with state := .failed, failure := f, abort := .opened, validate := .failed }
  | .validateDone => { t with state := .validated, validate := .done }
  | .openCommit => { t with commit := .opened }
  | .commitDone => { t with state := .committed, commit := .done }
  | .openApply => { t with apply := .opened }
  | .applyFailed f => { t with state := .failed, failure := f, apply := .failed }
  | .applyDone => { t with state := .applied, apply := .done }
  | .abortDone => { t with abort := .done }

def applyPropUpd (p : Proposal) : PropUpd → Proposal
  | .openInit => { p with init := .opened }
  | .setNext n => { p with next := n }
  | .setPrev n => { p with prev := n }
  | .initDone => { p with init := .done }
  | .openValidate => { p with validate := .opened }
  | .validateFailed f => { p with validate := .failed, vFailure := some f }
  | .validateDone i v => { p with validate := .done, rbIndex := i, rbValues := v }
  | .openCommit => { p with commit := .opened }
  | .commitDone => { p with commit := .done }
  | .openApply => { p with apply := .opened }
  | .applyDone term => { p with apply := .done, applyTerm := term }
  | .applyFailed f term => { p with apply := .failed, aFailure := some f, applyTerm := term }
  | .openAbort => { p with abort := .opened }
  | .abortDone => { p with abort := .done }

def applyCfgUpd (c : Cfg) : CfgUpd → Cfg
  | .setProposed n => { c with proposed := n }
  | .commit idx newIndex => { c with committed := idx, index := newIndex }
  | .setApplied idx => { c with applied := idx }
  | .abortBoth idx => { c with committed := idx, applied := idx }
  | .abortCommitted idx => { c with committed := idx }
  | .abortApplied idx => { c with applied := idx }
  | .setState st => { c with state := st }
  | .synced => { c with state := .synchronized, appliedMaster := c.master, appliedTerm := c.term }
  | .persisted => { c with state := .persisted, appliedMaster := c.master, appliedTerm := c.term }
  | .elect m => { c with term := c.term + 1, master := m }
  | .resign => { c with master := 0 }

/-- result of executing one effect: it took place, or it was a lost compare-and-set (and how
    the program sees that), or the record did not exist / already existed. -/
inductive Outcome | ok | conflictSwallowed | conflictError | exists_ | missing
deriving DecidableEq, Repr, Inhabited

/-- `p` is the node `d` or lies below it at a path-element boundary (the device is assumed to
    implement gNMI delete semantics; an element ends at `/` or at a key bracket) -/
def elemUnder (p d : OnosVerif.Path.Str) : Bool :=
  Config.hasPrefix p d && (match p.drop d.length with
    | [] => true
    | c :: _ => c = '/' || c = '[')

/-- gNMI application of one southbound request to a device configuration: deletes remove the
    addressed path and everything below it, updates set leaves (payload already pruned). -/
def devApply (dev : VMap) (payload : List PV) : VMap :=
  let dels := payload.filter (fun e => e.deleted)
  let upds := payload.filter (fun e => !e.deleted)
  let kept := dev.filter (fun e => !dels.any (fun d => elemUnder e.path d.path))
  upds.foldl (fun m u => VMap.set m u) kept

def Sys.dev (s : Sys) (t : Tgt) : VMap := ((s.devs.find? (fun d => d.1 = t)).map (·.2)).getD []

def Sys.setDev (s : Sys) (t : Tgt) (v : VMap) : Sys :=
  if s.devs.any (fun d => d.1 = t) then
    { s with devs := s.devs.map (fun d => if d.1 = t then (t, v) else d) }
  else { s with devs := s.devs ++ [(t, v)] }

/-- execute one effect on the persistent state. -/
def exec (s : Sys) : Effect → Sys × Outcome
  | .tx i ver u =>
    match s.tx? i with
    | none => (s, .missing)
    | some t =>
      if t.version = ver then (s.setTx { applyTxUpd t u with version := t.version + 1 }, .ok)
      else (s, .conflictSwallowed)
  | .prop id ver u =>
    match s.prop? id with
    | none => (s, .missing)
    | some p =>
      if p.version = ver then (s.setProp { applyPropUpd p u with version := p.version + 1 }, .ok)
      else (s, .conflictSwallowed)
  | .createProp p =>
    match s.prop? (p.target, p.index) with
    | some _ => (s, .exists_)
    | none => ({ s with props := s.props ++ [p] }, .ok)
  | .createCfg t proposed =>
    match s.cfg? t with
    | some _ => (s, .exists_)
    | none => ({ s with cfgs := s.cfgs ++ [{ target := t, proposed := proposed }] }, .ok)
  | .cfgVals t vals =>
    match s.cfg? t with
    | none => (s, .missing)
    | some c => (s.setCfg { c with vals := Config.store c.vals vals }, .ok)
  | .cfgAVals t vals =>
    match s.cfg? t with
    | none => (s, .missing)
    | some c => (s.setCfg { c with avals := Config.store c.avals vals }, .ok)
  | .cfg t ver u sh ash oc =>
    match s.cfg? t with
    | none => (s, .missing)
    | some c =>
      if c.version = ver then
        let s1 := s.setCfg { applyCfgUpd c u with version := c.version + 1, shadow := sh.getD [], ashadow := ash }
        let s2 := match u with
          | .commit idx _ => { s1 with commitLog := s1.commitLog ++ [(t, idx)] }
          | _ => s1
        (s2, .ok)
      else (s, if oc = .swallow then .conflictSwallowed else .conflictError)
  | .dev r =>
    let s1 := if r.accepted then s.setDev r.target (devApply (s.dev r.target) r.payload) else s
    ({ s1 with devLog := s1.devLog ++ [r] }, .ok)

end OnosVerif.V2
