/-
Bridge between the twin of the v2 reconcilers and the control skeletons the translator regenerates
from pkg/controller/v2/* on every run (`Generated.v2sk_*`, translator `harness/cmd/extract/v2ctl.go`).

A skeleton is the *trace* of one invocation as a function of an abstract state `V2G` (numeric operands
and uninterpreted conditions named by their Go expression).  This file says
  * how the state a twin reconciler reads is presented as a `V2G` (`gProp`, `gTx`, `gCfg`, `gMast`),
  * which part of a trace is protocol (`proj`: tracked assignments, store writes / southbound
    requests, the return; reads, helper calls, loop brackets and value plumbing are left out),
  * what trace a twin plan stands for (`planTrace`: every effect as the assignments and the write
    call it is in the Go code, the re-queue / error / nil return).
`Proofs/V2Skel*.lean` prove, for every state, `proj (skeleton (g state)) = planTrace (twin state)`.
-/
import OnosVerif.V2.SkelTypes
import OnosVerif.V2.Prop

namespace OnosVerif.V2.Skel
open OnosVerif.Generated (V2G Tok)
open OnosVerif.V2

/-! ### codes -/

/-- proto numbering of the phase states: X-ING = 0, X-ED = 1, FAILED = 2 (a nil phase has no state) -/
def phCode : Ph → Nat
  | .opened => 0 | .done => 1 | .failed => 2 | .none => 99

def fCode : Failure → Nat
  | .unknown => 0 | .canceled => 1 | .notFound => 2 | .alreadyExists => 3 | .unauthorized => 4
  | .forbidden => 5 | .conflict => 6 | .invalid => 7 | .unavailable => 8 | .notSupported => 9
  | .timeout => 10 | .internal => 11

def cfgStateCode : CfgState → Nat
  | .unknown => 0 | .synchronizing => 1 | .synchronized => 2 | .persisted => 3

def txStateCode : TxState → Nat := TxState.rank

/-- the gRPC code the device answered with, as far as the twin distinguishes answers: the three
    transient codes stand for `retry`, PermissionDenied for `wait`, anything else is a refusal -/
def devCode : DevResp → Nat
  | .ok => 0 | .retry => 14 | .wait => 7 | .fail _ => 100

def devFailure : DevResp → Nat
  | .fail f => fCode f | _ => 0

/-- constants of the Go sources that occur as operands -/
def constCode (k : String) : Nat :=
  match k with
  | "configapi.ProposalInitializePhase_INITIALIZING" => 0
  | "configapi.ProposalInitializePhase_INITIALIZED" => 1
  | "configapi.ProposalValidatePhase_VALIDATING" => 0
  | "configapi.ProposalValidatePhase_VALIDATED" => 1
  | "configapi.ProposalValidatePhase_FAILED" => 2
  | "configapi.ProposalCommitPhase_COMMITTING" => 0
  | "configapi.ProposalCommitPhase_COMMITTED" => 1
  | "configapi.ProposalApplyPhase_APPLYING" => 0
  | "configapi.ProposalApplyPhase_APPLIED" => 1
  | "configapi.ProposalApplyPhase_FAILED" => 2
  | "configapi.ProposalAbortPhase_ABORTING" => 0
  | "configapi.ProposalAbortPhase_ABORTED" => 1
  | "configapi.TransactionInitializePhase_INITIALIZING" => 0
  | "configapi.TransactionInitializePhase_INITIALIZED" => 1
  | "configapi.TransactionInitializePhase_FAILED" => 2
  | "configapi.TransactionValidatePhase_VALIDATING" => 0
  | "configapi.TransactionValidatePhase_VALIDATED" => 1
  | "configapi.TransactionValidatePhase_FAILED" => 2
  | "configapi.TransactionCommitPhase_COMMITTING" => 0
  | "configapi.TransactionCommitPhase_COMMITTED" => 1
  | "configapi.TransactionApplyPhase_APPLYING" => 0
  | "configapi.TransactionApplyPhase_APPLIED" => 1
  | "configapi.TransactionApplyPhase_FAILED" => 2
  | "configapi.TransactionAbortPhase_ABORTING" => 0
  | "configapi.TransactionAbortPhase_ABORTED" => 1
  | "configapi.TransactionStatus_PENDING" => 0
  | "configapi.TransactionStatus_VALIDATED" => 1
  | "configapi.TransactionStatus_COMMITTED" => 2
  | "configapi.TransactionStatus_APPLIED" => 3
  | "configapi.TransactionStatus_FAILED" => 4
  | "configapi.ConfigurationStatus_UNKNOWN" => 0
  | "configapi.ConfigurationStatus_SYNCHRONIZING" => 1
  | "configapi.ConfigurationStatus_SYNCHRONIZED" => 2
  | "configapi.ConfigurationStatus_PERSISTED" => 3
  | "configapi.Failure_UNKNOWN" => 0
  | "configapi.Failure_CANCELED" => 1
  | "configapi.Failure_NOT_FOUND" => 2
  | "configapi.Failure_ALREADY_EXISTS" => 3
  | "configapi.Failure_UNAUTHORIZED" => 4
  | "configapi.Failure_FORBIDDEN" => 5
  | "configapi.Failure_CONFLICT" => 6
  | "configapi.Failure_INVALID" => 7
  | "configapi.Failure_UNAVAILABLE" => 8
  | "configapi.Failure_NOT_SUPPORTED" => 9
  | "configapi.Failure_TIMEOUT" => 10
  | "configapi.Failure_INTERNAL" => 11
  | "codes.Canceled" => 1
  | "codes.Unknown" => 2
  | "codes.InvalidArgument" => 3
  | "codes.DeadlineExceeded" => 4
  | "codes.NotFound" => 5
  | "codes.AlreadyExists" => 6
  | "codes.PermissionDenied" => 7
  | "codes.FailedPrecondition" => 9
  | "codes.Unimplemented" => 12
  | "codes.Internal" => 13
  | "codes.Unavailable" => 14
  | "codes.Unauthenticated" => 16
  | "configapi.TransactionStrategy_SERIALIZABLE" => 1
  | _ => 0

/-! ### the protocol part of a trace -/

/-- assignments that move values around (maps of path values, loop locals); what they compute is
    the subject of the value-path twin (`Config/Model.lean`) and its correspondence, not of the
    control skeleton -/
def plumbing (lhs : String) : Bool :=
  lhs ∈ ["changeValues", "changeValues[path]", "rollbackValues", "rollbackValues[path]",
    "rollbackValues[path].Path", "rollbackValues[path].Deleted", "rollbackValues[deletedParentPath]",
    "rollbackIndex", "config.Values", "config.Status.Applied.Values", "config.Status.Applied.Values[path]",
    "pathValues", "values", "relations"]

def proj : List Tok → List Tok
  | [] => []
  | .set lhs r :: t => if plumbing lhs then proj t else .set lhs r :: proj t
  | .setN lhs v :: t => if plumbing lhs then proj t else .setN lhs v :: proj t
  | .write f :: t => .write f :: proj t
  | .ret a b :: t => .ret a b :: proj t
  | .misc m :: t => .misc m :: proj t
  | .call _ :: t => proj t
  | .loop _ :: t => proj t
  | .endLoop :: t => proj t

theorem proj_append (a b : List Tok) : proj (a ++ b) = proj a ++ proj b := by
  induction a with
  | nil => rfl
  | cons x t ih =>
    cases x <;> simp only [List.cons_append, proj, ih] <;> split <;> simp

theorem proj_ite (c : Prop) [Decidable c] (a b : List Tok) :
    proj (if c then a else b) = if c then proj a else proj b := by split <;> rfl

theorem append_ite (c : Prop) [Decidable c] (x a b : List Tok) :
    x ++ (if c then a else b) = if c then x ++ a else x ++ b := by split <;> rfl

theorem cons_ite (c : Prop) [Decidable c] (x : Tok) (a b : List Tok) :
    x :: (if c then a else b) = if c then x :: a else x :: b := by split <;> rfl

/-! ### what a twin plan stands for -/

def propUpdToks : PropUpd → List Tok
  | .openInit => [.set "proposal.Status.Phases.Initialize.ProposalPhaseStatus" "configapi.ProposalPhaseStatus{}"]
  | .setNext n => [.setN "prevProposal.Status.NextIndex" n]
  | .setPrev n => [.setN "proposal.Status.PrevIndex" n]
  | .initDone => [.setN "proposal.Status.Phases.Initialize.State" 1]
  | .openValidate => [.set "proposal.Status.Phases.Validate.ProposalPhaseStatus" "configapi.ProposalPhaseStatus{}"]
  | .validateFailed f => [.setN "proposal.Status.Phases.Validate.State" 2,
      .setN "proposal.Status.Phases.Validate.Failure.Type" (fCode f)]
  | .validateDone i _ => [.setN "proposal.Status.RollbackIndex" i, .setN "proposal.Status.RollbackValues" 0,
      .setN "proposal.Status.Phases.Validate.State" 1]
  | .openCommit => [.set "proposal.Status.Phases.Commit.ProposalPhaseStatus" "configapi.ProposalPhaseStatus{}"]
  | .commitDone => [.setN "proposal.Status.Phases.Commit.State" 1]
  | .openApply => [.set "proposal.Status.Phases.Apply.ProposalPhaseStatus" "configapi.ProposalPhaseStatus{}"]
  | .applyDone term => [.setN "proposal.Status.Phases.Apply.State" 1, .setN "proposal.Status.Phases.Apply.Term" term]
  | .applyFailed f term => [.setN "proposal.Status.Phases.Apply.State" 2,
      .setN "proposal.Status.Phases.Apply.Failure.Type" (fCode f), .setN "proposal.Status.Phases.Apply.Term" term]
  | .openAbort => [.set "proposal.Status.Phases.Abort.ProposalPhaseStatus" "configapi.ProposalPhaseStatus{}"]
  | .abortDone => [.setN "proposal.Status.Phases.Abort.State" 1]

def cfgUpdToks (c : Cfg) : CfgUpd → List Tok
  | .setProposed n => [.setN "config.Status.Proposed.Index" n]
  | .commit idx newIndex => [.setN "config.Index" newIndex, .setN "config.Status.Committed.Index" idx]
  | .setApplied idx => [.setN "config.Status.Applied.Index" idx]
  | .abortBoth idx => [.setN "config.Status.Committed.Index" idx, .setN "config.Status.Applied.Index" idx]
  | .abortCommitted idx => [.setN "config.Status.Committed.Index" idx]
  | .abortApplied idx => [.setN "config.Status.Applied.Index" idx]
  | .setState st => [.setN "config.Status.State" (cfgStateCode st)]
  | .synced => [.setN "config.Status.Applied.Mastership.Master" c.master,
      .setN "config.Status.Applied.Mastership.Term" c.term, .setN "config.Status.State" 2]
  | .persisted => [.setN "config.Status.State" 3, .setN "config.Status.Applied.Mastership.Master" c.master,
      .setN "config.Status.Applied.Mastership.Term" c.term]
  | .elect _ => [.set "config.Status.Mastership.Term ++" "", .set "config.Status.Mastership.Master" "string(relation.ID)"]
  | .resign => [.setN "config.Status.Mastership.Master" 0]

/-- how the controller that issues the plan writes a record of each kind -/
structure Writers where
  prop : String := "r.updateProposalStatus"
  cfgStatus : String := "r.configurations.UpdateStatus"

/-- tokens of one effect.  `c` is the configuration the invocation read (for the updates that copy
    fields of it). -/
def effToks (w : Writers) (c : Cfg) : Effect → List Tok
  | .prop _ _ u => propUpdToks u ++ [.write w.prop]
  | .cfg _ _ u (some _) _ _ => cfgUpdToks c u ++ [.write w.cfgStatus]
  | .cfg _ _ u none _ _ => cfgUpdToks c u ++ [.write "r.configurations.Update"]
  | .cfgVals _ _ => []
  | .cfgAVals _ _ => []
  | .createCfg t proposed => [.setN "config.ID" 0, .setN "config.TargetID" t,
      .setN "config.Status.Proposed.Index" proposed, .write "r.configurations.Create"]
  | .dev _ => [.write "conn.Set"]
  | .createProp _ => [.write "r.proposals.Create"]
  | .tx _ _ _ => [.write "r.updateTransactionStatus"]

/-- how a proposal invocation returns -/
def retProp (self : PropId) (pl : Plan) : List Tok :=
  if pl.err then [.ret "err" []]
  else match pl.requeue with
    | none => [.ret "nil" []]
    | some (.prop id) =>
      if id = self then [.ret "requeue controller.NewID(_) nil" [0]]
      else [.ret "requeue controller.NewID(proposalstore.NewID(_, _)) nil" [id.1, id.2]]
    | some _ => [.misc "requeue of a foreign kind"]

def planTraceProp (self : PropId) (c : Cfg) (pl : Plan) : List Tok :=
  pl.effects.flatMap (effToks {} c) ++ retProp self pl

theorem planTraceProp_ite (self : PropId) (c : Cfg) (x : Prop) [Decidable x] (a b : Plan) :
    planTraceProp self c (if x then a else b) = if x then planTraceProp self c a else planTraceProp self c b := by
  split <;> rfl

/-! ### the state a proposal invocation reads, as a `V2G` -/

/-- `c`: the configuration of the target (`cNone`: there is none yet); `o`: the second proposal an
    invocation reads — the one named by `Proposed.Index` while initialising, the target of a rollback
    while validating (`oNone`: not found); `rel`: the relation named by the master. -/
def gPropOf (p : Proposal) (cNone : Bool) (c : Cfg) (oNone : Bool) (o : Proposal) (rel : Option Rel) (env : Env) : V2G :=
  { n := fun k =>
      match k with
      | "proposal.TransactionIndex" => p.index
      | "proposal.Status.PrevIndex" => p.prev
      | "proposal.Status.NextIndex" => p.next
      | "proposal.TargetID" => p.target
      | "proposal.ID" => 0
      | "proposal.Status.RollbackIndex" => p.rbIndex
      | "details.Rollback.RollbackIndex" => p.rollbackOf
      | "proposal.Status.Phases.Initialize.State" => phCode p.init
      | "proposal.Status.Phases.Validate.State" => phCode p.validate
      | "proposal.Status.Phases.Commit.State" => phCode p.commit
      | "proposal.Status.Phases.Apply.State" => phCode p.apply
      | "proposal.Status.Phases.Abort.State" => phCode p.abort
      | "config.Index" => c.index
      | "config.Status.Proposed.Index" => c.proposed
      | "config.Status.Committed.Index" => c.committed
      | "config.Status.Applied.Index" => c.applied
      | "config.Status.Mastership.Master" => c.master
      | "config.Status.Mastership.Term" => c.term
      | "config.Status.Applied.Mastership.Term" => c.appliedTerm
      | "config.Status.State" => cfgStateCode c.state
      | "prevProposal.Status.NextIndex" => o.next
      | "targetProposal.Status.RollbackIndex" => o.rbIndex
      | "rollbackIndex" => if p.isRollback then o.rbIndex else c.index
      | "code" => devCode env.dev
      | "failureType" => devFailure env.dev
      | "relation.GetRelation().SrcEntityID" => 1
      | "controllerutils.GetOnosConfigID()" => 1
      | k => constCode k
    b := fun k =>
      match k with
      | "proposal.Status.Phases.Initialize != nil" => p.init != .none
      | "proposal.Status.Phases.Validate != nil" => p.validate != .none
      | "proposal.Status.Phases.Commit != nil" => p.commit != .none
      | "proposal.Status.Phases.Apply != nil" => p.apply != .none
      | "proposal.Status.Phases.Abort != nil" => p.abort != .none
      | "err@r.configurations.Get#1" => cNone
      | "errors.IsNotFound(err)@r.configurations.Get#1" => true
      | "err@r.proposals.Get#1" => oNone
      | "errors.IsNotFound(err)@r.proposals.Get#1" => true
      | "proposal.Details.() is *configapi.Proposal_Change" => !p.isRollback
      | "proposal.Details.() is *configapi.Proposal_Rollback" => p.isRollback
      | "targetProposal.Details.() is *configapi.Proposal_Change" => !o.isRollback
      | "targetProposal.Details.() is *configapi.Proposal_Rollback" => o.isRollback
      | "config.Values != nil" => true
      | "config.Status.Applied.Values != nil" => true
      | "ok@r.pluginRegistry.GetPlugin#1" => env.plugin.isSome
      | "err@modelPlugin.Validate#1" => env.plugin == some false
      | "err@r.topo.Get#2" => rel.isNone
      | "errors.IsNotFound(err)@r.topo.Get#2" => true
      | "ok@r.conns.Get#1" => (rel.map (·.conn)).getD false
      | "err@conn.Set#1" => env.dev != .ok
      | "isModelDataCompatible(pluginDataModels, targetDataModels)" => true
      | _ => false }

/-- Notes on the table above.  `rollbackIndex` is the local of reconcileValidate: `config.Index` for
    a change, the target proposal's rollback index for a rollback (both assignments are in the
    skeleton; that the variable carries them to the status write is Go's semantics of a local).
    Relations of the twin are those of this node (`SrcEntityID = GetOnosConfigID()`); the target
    entity exists in topo (`r.topo.Get#1` succeeds), the relation named by the master may not.
    Every store write succeeds: a failing or conflicting write is a step of the world
    (`Step.failNext`, `exec`'s conflict outcomes), not of the plan. -/
def gProp (s : Sys) (p : Proposal) (other : Option Proposal) (env : Env) : V2G :=
  let c := (s.cfg? p.target).getD default
  gPropOf p (s.cfg? p.target).isNone c other.isNone (other.getD default) (s.rel? c.master) env

/-! ### the configuration and mastership reconcilers -/

/-- the state `reconcileConfiguration` reads: the configuration, the relation named by its master -/
def gCfgOf (c : Cfg) (rel : Option Rel) (env : Env) (setFails : Bool) : V2G :=
  { n := fun k =>
      match k with
      | "config.Status.Applied.Index" => c.applied
      | "config.Status.Mastership.Master" => c.master
      | "config.Status.Mastership.Term" => c.term
      | "config.Status.Applied.Mastership.Term" => c.appliedTerm
      | "config.Status.State" => cfgStateCode c.state
      | "relation.GetRelation().SrcEntityID" => 1
      | "controllerutils.GetOnosConfigID()" => 1
      | k => constCode k
    b := fun k =>
      match k with
      | "configurable.Persistent" => env.persistent
      | "err@r.topo.Get#2" => rel.isNone
      | "errors.IsNotFound(err)@r.topo.Get#2" => true
      | "ok@r.conns.Get#1" => (rel.map (·.conn)).getD false
      | "config.Status.Applied.Values != nil" => true
      | "err@conn.Set#1" => setFails
      | "errors.IsForbidden(err)@conn.Set#1" => env.dev == .wait
      | _ => false }

/-- tokens of the effects of a configuration-controller plan; the re-synchronisation requests of
    one invocation (one per transaction index) are the iterations of one loop: one `conn.Set` token.
    `early`: the branch for a target nothing was applied to writes the three fields in another order. -/
def syncedToks (c : Cfg) (early : Bool) : List Tok :=
  if early then [.setN "config.Status.State" 2, .setN "config.Status.Applied.Mastership.Master" c.master,
    .setN "config.Status.Applied.Mastership.Term" c.term]
  else [.setN "config.Status.Applied.Mastership.Master" c.master,
    .setN "config.Status.Applied.Mastership.Term" c.term, .setN "config.Status.State" 2]

def effToksCfg (c : Cfg) (early : Bool) : Effect → List Tok
  | .cfg _ _ .synced (some _) _ _ => syncedToks c early ++ [.write "r.updateConfigurationStatus"]
  | .cfg _ _ u (some _) _ _ => cfgUpdToks c u ++ [.write "r.updateConfigurationStatus"]
  | .dev _ => [.write "conn.Set"]
  | .cfgAVals _ _ => []
  | _ => [.misc "foreign effect"]

/-- adjacent southbound requests are iterations of the re-synchronisation loop -/
def collapse : List Tok → List Tok
  | .write "conn.Set" :: .write "conn.Set" :: t => collapse (.write "conn.Set" :: t)
  | x :: t => x :: collapse t
  | [] => []

def planTraceCfg (c : Cfg) (early : Bool) (pl : Plan) : List Tok :=
  collapse (pl.effects.flatMap (effToksCfg c early)) ++ (if pl.err then [.ret "err" []] else [.ret "nil" []])

/-- the state the mastership `Reconcile` reads: the configuration, whether its master is among the
    live relations of the target, how many there are -/
def gMastOf (c : Cfg) (cNone : Bool) (masterLive : Bool) (nLive : Nat) : V2G :=
  { n := fun k =>
      match k with
      | "config.Status.Mastership.Master" => c.master
      | "len(targetRelations)" => nLive
      | k => constCode k
    b := fun k =>
      match k with
      | "err@r.configurations.Get#1" => cNone
      | "errors.IsNotFound(err)@r.configurations.Get#1" => true
      | "ok@targetRelations[]" => masterLive
      | _ => false }

def planTraceMast (c : Cfg) (pl : Plan) : List Tok :=
  pl.effects.flatMap (effToks { cfgStatus := "r.configurations.UpdateStatus" } c) ++
    (if pl.err then [.ret "err" []] else [.ret "nil" []])

/-! ### the transaction reconciler (one proposal per transaction: the loops run once) -/

def optFCode : Option Failure → Nat
  | none => 0
  | some f => fCode f + 1

/-- the state a transaction invocation reads when the transaction lists ONE proposal: the
    transaction, that proposal (`pNone`: not found), the transaction named by the proposal's
    `PrevIndex` (`prevNone`: not found) -/
def gTxOf (t : Tx) (pNone : Bool) (p : Proposal) (prevNone : Bool) (prevTx : Tx) : V2G :=
  { n := fun k =>
      match k with
      | "transaction.Index" => t.index
      | "transaction.Status.Phases.Initialize.State" => phCode t.init
      | "transaction.Status.Phases.Validate.State" => phCode t.validate
      | "transaction.Status.Phases.Commit.State" => phCode t.commit
      | "transaction.Status.Phases.Apply.State" => phCode t.apply
      | "transaction.Status.Phases.Abort.State" => phCode t.abort
      | "proposal.Status.PrevIndex" => p.prev
      | "proposal.Status.Phases.Initialize.State" => phCode p.init
      | "proposal.Status.Phases.Validate.State" => phCode p.validate
      | "proposal.Status.Phases.Commit.State" => phCode p.commit
      | "proposal.Status.Phases.Apply.State" => phCode p.apply
      | "proposal.Status.Phases.Abort.State" => phCode p.abort
      | "proposal.Status.Phases.Validate.Failure" => optFCode p.vFailure
      | "proposal.Status.Phases.Apply.Failure" => optFCode p.aFailure
      | "prevTransaction.Isolation" => if prevTx.serializable then 1 else 0
      | "prevTransaction.Status.State" => prevTx.state.rank
      | k => constCode k
    b := fun k =>
      match k with
      | "transaction.Status.Phases.Initialize != nil" => t.init != .none
      | "transaction.Status.Phases.Validate != nil" => t.validate != .none
      | "transaction.Status.Phases.Commit != nil" => t.commit != .none
      | "transaction.Status.Phases.Apply != nil" => t.apply != .none
      | "transaction.Status.Phases.Abort != nil" => t.abort != .none
      | "proposal.Status.Phases.Validate != nil" => p.validate != .none
      | "proposal.Status.Phases.Commit != nil" => p.commit != .none
      | "proposal.Status.Phases.Apply != nil" => p.apply != .none
      | "proposal.Status.Phases.Abort != nil" => p.abort != .none
      | "err@r.proposals.Get#1" => pNone
      | "errors.IsNotFound(err)@r.proposals.Get#1" => true
      | "err@r.proposals.Get#2" => pNone
      | "errors.IsNotFound(err)@r.proposals.Get#2" => true
      | "err@r.transactions.GetByIndex#1" => prevNone
      | "errors.IsNotFound(err)@r.transactions.GetByIndex#1" => true
      | "allValidated" => p.validate != .opened
      | "allCommitted" => p.commit != .opened
      | "allApplied" => p.apply != .opened
      | "allAborted" => p.abort != .opened
      | _ => false }

/-- the state `reconcileInitialize` (transaction) reads once the proposals are listed: the
    transaction, its one proposal, the previous transaction of the log (`plNone`: none), the
    transaction named by the proposal's `PrevIndex` -/
def gTxInitOf (t : Tx) (listed : Bool) (pNone : Bool) (p : Proposal) (plNone : Bool) (pl : Tx) (prevNone : Bool) (prevTx : Tx) : V2G :=
  { n := fun k =>
      match k with
      | "transaction.Index" => t.index
      | "transaction.Status.Phases.Initialize.State" => phCode t.init
      | "prevTransaction.Status.Phases.Initialize.State" => phCode pl.init
      | "proposal.Status.PrevIndex" => p.prev
      | "proposal.Status.Phases.Initialize.State" => phCode p.init
      | "prevTransaction.Isolation" => if prevTx.serializable then 1 else 0
      | "prevTransaction.Status.State" => prevTx.state.rank
      | k => constCode k
    b := fun k =>
      match k with
      | "transaction.Status.Proposals != nil" => listed
      | "transaction.Details.() is *configapi.Transaction_Change" => !t.isRollback
      | "transaction.Details.() is *configapi.Transaction_Rollback" => t.isRollback
      | "err@r.proposals.Get#1" => pNone
      | "errors.IsNotFound(err)@r.proposals.Get#1" => true
      | "prevTransaction.Status.Phases.Initialize != nil" => pl.init != .none
      | "proposal.Status.Phases.Initialize != nil" => p.init != .none
      | "err@r.transactions.GetByIndex#1" => plNone
      | "errors.IsNotFound(err)@r.transactions.GetByIndex#1" => true
      | "err@r.proposals.Get#3" => pNone
      | "errors.IsNotFound(err)@r.proposals.Get#3" => true
      | "err@r.proposals.Get#4" => pNone
      | "errors.IsNotFound(err)@r.proposals.Get#4" => true
      | "err@r.transactions.GetByIndex#3" => prevNone
      | "errors.IsNotFound(err)@r.transactions.GetByIndex#3" => true
      | "allInitialized" => !(p.init == .none || p.init == .opened)
      | _ => false }

/-- the state `reconcileInitialize` reads while it creates the proposals of a ROLLBACK transaction
    (`Status.Proposals` not yet listed): the transaction, whether the rolled-back transaction exists
    (`tgtNone`) and is itself a rollback (`tgtRb`), whether the proposal of the (one) target already
    exists (`pNone` = not found), the previous transaction of the log -/
def gTxInitRbOf (t : Tx) (pNone : Bool) (tgtNone : Bool) (tgtRb : Bool) (plNone : Bool) (pl : Tx) : V2G :=
  { n := fun k =>
      match k with
      | "transaction.Index" => t.index
      | "transaction.Status.Phases.Initialize.State" => phCode t.init
      | "prevTransaction.Status.Phases.Initialize.State" => phCode pl.init
      | "details.Rollback.RollbackIndex" => t.rollbackIndex
      | k => constCode k
    b := fun k =>
      match k with
      | "transaction.Status.Proposals != nil" => false
      | "transaction.Details.() is *configapi.Transaction_Change" => false
      | "transaction.Details.() is *configapi.Transaction_Rollback" => true
      | "err@r.transactions.GetByIndex#2" => tgtNone
      | "errors.IsNotFound(err)@r.transactions.GetByIndex#2" => true
      | "targetTransaction.Details.() is *configapi.Transaction_Change" => !tgtRb
      | "targetTransaction.Details.() is *configapi.Transaction_Rollback" => tgtRb
      | "err@r.proposals.Get#2" => pNone
      | "errors.IsNotFound(err)@r.proposals.Get#2" => true
      | "prevTransaction.Status.Phases.Initialize != nil" => pl.init != .none
      | "err@r.transactions.GetByIndex#1" => plNone
      | "errors.IsNotFound(err)@r.transactions.GetByIndex#1" => true
      | _ => false }

/-- the state ONE iteration of a phase loop of the transaction reconciler reads: the transaction, the
    proposal of this iteration (found), and the loop flag as the iterations before it left it -/
def gTxIterOf (t : Tx) (p : Proposal) (flag : Bool) : V2G :=
  { n := fun k =>
      match k with
      | "transaction.Index" => t.index
      | "proposal.Status.Phases.Validate.State" => phCode p.validate
      | "proposal.Status.Phases.Commit.State" => phCode p.commit
      | "proposal.Status.Phases.Apply.State" => phCode p.apply
      | "proposal.Status.Phases.Abort.State" => phCode p.abort
      | "proposal.Status.Phases.Validate.Failure" => optFCode p.vFailure
      | "proposal.Status.Phases.Apply.Failure" => optFCode p.aFailure
      | k => constCode k
    b := fun k =>
      match k with
      | "proposal.Status.Phases.Validate != nil" => p.validate != .none
      | "proposal.Status.Phases.Commit != nil" => p.commit != .none
      | "proposal.Status.Phases.Apply != nil" => p.apply != .none
      | "proposal.Status.Phases.Abort != nil" => p.abort != .none
      | "allValidated" => flag
      | "allCommitted" => flag
      | "allApplied" => flag
      | "allAborted" => flag
      | _ => false }

/-- Notes.  The loop flags (`allValidated`, …) are locals: their assignments are tokens of the
    skeleton (a dropped `= false` changes it); that a read of the flag after the loop sees what the
    single iteration assigned is Go's semantics of a local variable, stated in the table.
    `checked[...]` is empty in the first iteration. -/
def txUpdToks : TxUpd → List Tok
  | .openInit => [.set "transaction.Status.Phases.Initialize.TransactionPhaseStatus" "configapi.TransactionPhaseStatus{}"]
  | .setProposals _ => [.setN "transaction.Status.Proposals" 0]
  | .initFailed _ => [.misc "initFailed"]
  | .initDone => [.setN "transaction.Status.Phases.Initialize.State" 1]
  | .openValidate => [.set "transaction.Status.Phases.Validate.TransactionPhaseStatus" "configapi.TransactionPhaseStatus{}"]
  | .validateFailed f => [.setN "transaction.Status.State" 4, .setN "transaction.Status.Failure" (optFCode f),
      .set "transaction.Status.Phases.Abort.TransactionPhaseStatus" "configapi.TransactionPhaseStatus{}",
      .setN "transaction.Status.Phases.Validate.State" 2, .setN "transaction.Status.Phases.Validate.Failure" (optFCode f)]
  | .validateDone => [.setN "transaction.Status.State" 1, .setN "transaction.Status.Phases.Validate.State" 1]
  | .openCommit => [.set "transaction.Status.Phases.Commit.TransactionPhaseStatus" "configapi.TransactionPhaseStatus{}"]
  | .commitDone => [.setN "transaction.Status.State" 2, .setN "transaction.Status.Phases.Commit.State" 1]
  | .openApply => [.set "transaction.Status.Phases.Apply.TransactionPhaseStatus" "configapi.TransactionPhaseStatus{}"]
  | .applyFailed f => [.setN "transaction.Status.State" 4, .setN "transaction.Status.Failure" (optFCode f),
      .setN "transaction.Status.Phases.Apply.State" 2, .setN "transaction.Status.Phases.Apply.Failure" (optFCode f)]
  | .applyDone => [.setN "transaction.Status.State" 3, .setN "transaction.Status.Phases.Apply.State" 1]
  | .abortDone => [.setN "transaction.Status.Phases.Abort.State" 1]

def effToksTx : Effect → List Tok
  | .tx _ _ u => txUpdToks u ++ [.write "r.updateTransactionStatus"]
  | .prop _ _ u => propUpdToks u ++ [.write "r.updateProposalStatus"]
  | .createProp p =>
      if p.isRollback then
        [.setN "proposal.ID" 0, .setN "proposal.TransactionIndex" p.index, .setN "proposal.TargetID" 0,
          .setN "proposal.Details.Rollback.RollbackIndex" p.rollbackOf, .set "proposal.TargetTypeVersion" "*targetTypeVersion",
          .write "r.proposals.Create"]
      else
        [.setN "proposal.ID" 0, .setN "proposal.TransactionIndex" p.index, .setN "proposal.TargetID" 0,
          .setN "proposal.Details.Change.Values" 0, .setN "proposal.TargetTypeVersion" 0, .write "r.proposals.Create"]
  | _ => [.misc "foreign effect"]

def planTraceTx (pl : Plan) : List Tok :=
  pl.effects.flatMap effToksTx ++
    (if pl.err then [.ret "err" []]
     else match pl.requeue with
      | none => [.ret "nil" []]
      | some (.tx i) => [.ret "requeue controller.NewID(_) nil" [i]]
      | some _ => [.misc "requeue of a foreign kind"])

/-- the flag tokens of a phase loop over one proposal whose phase pointer is `x` -/
def flagToks (name : String) (x : Ph) : List Tok :=
  .set name "true" :: (if x = .opened then [.set name "false"] else [])

end OnosVerif.V2.Skel
