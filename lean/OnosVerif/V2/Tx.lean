/-
Twin of pkg/controller/v2/transaction/controller.go: one `Reconcile(index)` as a plan (the
effects it issues in program order and the requeue it returns), computed from a snapshot.
Branch order follows the Go code.
-/
import OnosVerif.V2.Types

namespace OnosVerif.V2
open OnosVerif.Config (PV VMap)

inductive Id
  | tx (i : Nat)
  | prop (id : PropId)
  | cfg (t : Tgt)
  | mast (t : Tgt)
deriving DecidableEq, Repr, Inhabited

structure Plan where
  effects : List Effect := []
  requeue : Option Id := none
  /-- the invocation returns an error without a further write (the controller re-queues the id) -/
  err : Bool := false
deriving DecidableEq, Repr, Inhabited

def Plan.nop : Plan := {}

/-- all proposals of the list exist; returns them in order, or none if one is missing
    (the Go loops return `Result{}, nil` on NotFound). -/
def getProps (s : Sys) : List PropId → Option (List Proposal)
  | [] => some []
  | id :: rest =>
    match s.prop? id, getProps s rest with
    | some p, some ps => some (p :: ps)
    | _, _ => none

/-- the `checked`/`prevTransaction` loop shared by the INITIALIZED, VALIDATED and COMMITTED
    branches: true iff some predecessor transaction is SERIALIZABLE and below `need`. -/
def waitsForSerializable (s : Sys) (ps : List Proposal) (need : TxState) : Bool :=
  ps.any fun p =>
    p.prev > 0 &&
      match s.tx? p.prev with
      | some prevTx => prevTx.serializable && prevTx.state.rank < need.rank
      | none => false

/-- proposals to create while initialising a change transaction (existing ones are skipped). -/
def initCreatesChange (s : Sys) (t : Tx) : List Effect :=
  t.changes.filterMap fun (tgt, change) =>
    match s.prop? (tgt, t.index) with
    | some _ => none
    | none => some (.createProp
        { target := tgt, index := t.index,
          change := change.map (fun pv => { pv with index := t.index }) })

def initCreatesRollback (s : Sys) (t : Tx) (target : Tx) : List Effect :=
  target.changes.filterMap fun (tgt, _) =>
    match s.prop? (tgt, t.index) with
    | some _ => none
    | none => some (.createProp
        { target := tgt, index := t.index, isRollback := true, rollbackOf := t.rollbackIndex })

/-- the INITIALIZING branch waits while the previous transaction of the log has not initialised -/
def waitsPrevInit (s : Sys) (t : Tx) : Bool :=
  match s.tx? (t.index - 1) with
  | some prev => prev.init == .none || prev.init == .opened
  | none => false

/-- INITIALIZING, previous transaction initialised: create the proposals / close the phase -/
def txInitProposals (s : Sys) (t : Tx) : Plan :=
  match t.proposals with
  | none =>
    if !t.isRollback then
      { effects := initCreatesChange s t ++
          [.tx t.index t.version (.setProposals (t.changes.map fun c => (c.1, t.index)))] }
    else
      match s.tx? t.rollbackIndex with
      | none => { effects := [.tx t.index t.version (.initFailed .notFound)], requeue := some (.tx (t.index + 1)) }
      | some target =>
        if target.isRollback then { effects := [.tx t.index t.version (.initFailed .forbidden)], requeue := some (.tx (t.index + 1)) }
        else
          { effects := initCreatesRollback s t target ++
              [.tx t.index t.version (.setProposals (target.changes.map fun c => (c.1, t.index)))] }
  | some ids =>
    match getProps s ids with
    | none => .nop
    | some ps =>
      if ps.all (fun p => !(p.init == .none || p.init == .opened)) then
        { effects := [.tx t.index t.version .initDone] }
      else .nop

def txInitialize (s : Sys) (t : Tx) : Plan :=
  match t.init with
  | .opened => if waitsPrevInit s t then .nop else txInitProposals s t
  | .done =>
    match getProps s (t.proposals.getD []) with
    | none => .nop
    | some ps =>
      if waitsForSerializable s ps .validated then .nop
      else { effects := [.tx t.index t.version .openValidate], requeue := some (.tx (t.index + 1)) }
  | _ => .nop

/-- first proposal (in list order) that makes the VALIDATING loop return. -/
def txValidateLoop (t : Tx) : List Proposal → Bool → Plan
  | [], allValidated =>
    if allValidated then { effects := [.tx t.index t.version .validateDone] } else .nop
  | p :: rest, allValidated =>
    match p.validate with
    | .none => { effects := [.prop (p.target, p.index) p.version .openValidate] }
    | .opened => txValidateLoop t rest false
    | .failed => { effects := [.tx t.index t.version (.validateFailed p.vFailure)] }
    | .done => txValidateLoop t rest allValidated

def txValidate (s : Sys) (t : Tx) : Plan :=
  match t.validate with
  | .opened =>
    match getProps s (t.proposals.getD []) with
    | none => .nop
    | some ps => txValidateLoop t ps true
  | .done =>
    match getProps s (t.proposals.getD []) with
    | none => .nop
    | some ps =>
      if waitsForSerializable s ps .committed then .nop
      else { effects := [.tx t.index t.version .openCommit] }
  | _ => .nop

def txCommitLoop (t : Tx) : List Proposal → Bool → Plan
  | [], all => if all then { effects := [.tx t.index t.version .commitDone] } else .nop
  | p :: rest, all =>
    match p.commit with
    | .none => { effects := [.prop (p.target, p.index) p.version .openCommit] }
    | .opened => txCommitLoop t rest false
    | _ => txCommitLoop t rest all

def txCommit (s : Sys) (t : Tx) : Plan :=
  match t.commit with
  | .opened =>
    match getProps s (t.proposals.getD []) with
    | none => .nop
    | some ps => txCommitLoop t ps true
  | .done =>
    match getProps s (t.proposals.getD []) with
    | none => .nop
    | some ps =>
      if waitsForSerializable s ps .applied then .nop
      else { effects := [.tx t.index t.version .openApply] }
  | _ => .nop

def txAbortLoop (t : Tx) : List Proposal → Bool → Plan
  | [], all => if all then { effects := [.tx t.index t.version .abortDone] } else .nop
  | p :: rest, all =>
    match p.abort with
    | .none => { effects := [.prop (p.target, p.index) p.version .openAbort] }
    | .opened => txAbortLoop t rest false
    | _ => txAbortLoop t rest all

def txAbort (s : Sys) (t : Tx) : Plan :=
  match t.abort with
  | .opened =>
    match getProps s (t.proposals.getD []) with
    | none => .nop
    | some ps => txAbortLoop t ps true
  | _ => .nop

def txApplyLoop (t : Tx) : List Proposal → Bool → Plan
  | [], all => if all then { effects := [.tx t.index t.version .applyDone] } else .nop
  | p :: rest, all =>
    match p.apply with
    | .none => { effects := [.prop (p.target, p.index) p.version .openApply] }
    | .opened => txApplyLoop t rest false
    | .failed => { effects := [.tx t.index t.version (.applyFailed p.aFailure)] }
    | .done => txApplyLoop t rest all

def txApply (s : Sys) (t : Tx) : Plan :=
  match t.apply with
  | .opened =>
    match getProps s (t.proposals.getD []) with
    | none => .nop
    | some ps => txApplyLoop t ps true
  | _ => .nop

/-- `reconcileTransaction`: the if-chain over the phase pointers. -/
def txReconcile (s : Sys) (i : Nat) : Plan :=
  match s.tx? i with
  | none => .nop
  | some t =>
    if t.apply ≠ .none then txApply s t
    else if t.abort ≠ .none then txAbort s t
    else if t.commit ≠ .none then txCommit s t
    else if t.validate ≠ .none then txValidate s t
    else if t.init ≠ .none then txInitialize s t
    else { effects := [.tx t.index t.version .openInit] }

end OnosVerif.V2
