/- Line-protocol handlers for the v2 twin (I/O glue; the state lives in an IO.Ref). -/
import OnosVerif.Base.Wire
import OnosVerif.V2.Sys

namespace OnosVerif.V2
open OnosVerif.Wire
open OnosVerif.Config (PV VMap)

structure DriverState where
  w : World := {}
  persistent : List Tgt := []
deriving Inhabited

initialize stateRef : IO.Ref DriverState ← IO.mkRef {}

/-! encoding -/

def encPh : Ph → String
  | .none => "-" | .opened => "o" | .done => "d" | .failed => "f"

def encTxState : TxState → String
  | .pending => "PENDING" | .validated => "VALIDATED" | .committed => "COMMITTED"
  | .applied => "APPLIED" | .failed => "FAILED"

def encFailure : Failure → String
  | .unknown => "UNKNOWN" | .canceled => "CANCELED" | .notFound => "NOT_FOUND"
  | .alreadyExists => "ALREADY_EXISTS" | .unauthorized => "UNAUTHORIZED" | .forbidden => "FORBIDDEN"
  | .conflict => "CONFLICT" | .invalid => "INVALID" | .unavailable => "UNAVAILABLE"
  | .notSupported => "NOT_SUPPORTED" | .timeout => "TIMEOUT" | .internal => "INTERNAL"

def decFailure : String → Option Failure
  | "UNKNOWN" => some .unknown | "CANCELED" => some .canceled | "NOT_FOUND" => some .notFound
  | "ALREADY_EXISTS" => some .alreadyExists | "UNAUTHORIZED" => some .unauthorized
  | "FORBIDDEN" => some .forbidden | "CONFLICT" => some .conflict | "INVALID" => some .invalid
  | "UNAVAILABLE" => some .unavailable | "NOT_SUPPORTED" => some .notSupported
  | "TIMEOUT" => some .timeout | "INTERNAL" => some .internal
  | _ => none

def encOptFailure : Option Failure → String
  | none => "-" | some f => encFailure f

def encCfgState : CfgState → String
  | .unknown => "UNKNOWN" | .synchronizing => "SYNCHRONIZING" | .synchronized => "SYNCHRONIZED"
  | .persisted => "PERSISTED"

def encPV (e : PV) : String :=
  encStr e.path ++ "=" ++ encStr e.value ++ ":" ++ (if e.deleted then "d" else "l") ++ ":" ++ toString e.index

def encVals (m : VMap) : String :=
  if m.isEmpty then "-" else ",".intercalate ((Config.sortByPath m).map encPV)

def decPV (tok : String) : Option PV :=
  match tok.splitOn "=" with
  | [p, rest] =>
    match rest.splitOn ":" with
    | [v, d, i] => do
      pure { path := (← decStr p), value := (← decStr v), deleted := d == "d", index := (← i.toNat?) }
    | _ => none
  | _ => none

def decVals (s : String) : Option VMap :=
  if s == "-" then some [] else (s.splitOn ",").mapM decPV

def encId : Id → String
  | .tx i => s!"tx:{i}"
  | .prop (t, i) => s!"prop:{t}:{i}"
  | .cfg t => s!"cfg:{t}"
  | .mast t => s!"mast:{t}"

def decId (s : String) : Option Id :=
  match s.splitOn ":" with
  | ["tx", i] => do pure (.tx (← i.toNat?))
  | ["prop", t, i] => do pure (.prop ((← t.toNat?), (← i.toNat?)))
  | ["cfg", t] => do pure (.cfg (← t.toNat?))
  | ["mast", t] => do pure (.mast (← t.toNat?))
  | _ => none

def encTx (t : Tx) : String :=
  s!"{t.index}:" ++ ",".intercalate [encPh t.init, encPh t.validate, encPh t.commit, encPh t.apply, encPh t.abort,
    encTxState t.state, encOptFailure t.failure,
    match t.proposals with
    | none => "nil"
    | some ps => "[" ++ "+".intercalate ((ps.map (fun p => s!"{p.1}-{p.2}")).toArray.qsort (· < ·)).toList ++ "]"]

def encProp (p : Proposal) : String :=
  s!"{p.target}-{p.index}:" ++ ",".intercalate [toString p.prev, toString p.next, toString p.rbIndex,
    encPh p.init, encPh p.validate, encPh p.commit, encPh p.apply, encPh p.abort,
    encOptFailure p.vFailure, encOptFailure p.aFailure, toString p.applyTerm, "rb=" ++ encVals p.rbValues]

def encCfg (c : Cfg) : String :=
  s!"{c.target}:" ++ ",".intercalate [toString c.index, toString c.proposed, toString c.committed, toString c.applied,
    toString c.master, toString c.term, toString c.appliedMaster, toString c.appliedTerm, encCfgState c.state,
    "vals=" ++ encVals c.aview, "view=" ++ encVals c.view]

def sortStrs (l : List String) : List String := (l.toArray.qsort (· < ·)).toList

def encReq (r : DevReq) : String :=
  let items := r.payload.map fun e =>
    if e.deleted then "del:" ++ encStr e.path else "upd:" ++ encStr e.path ++ "=" ++ encStr e.value
  s!"{r.target}/{r.conn}/{r.term}/{if r.accepted then "ok" else "refused"}/" ++ ",".intercalate (sortStrs items)

def encDev (m : VMap) : String :=
  let kv := (m.filter (fun e => !e.deleted)).map fun e => encStr e.path ++ "=" ++ encStr e.value
  if kv.isEmpty then "-" else ",".intercalate (sortStrs kv)

def encSys (s : Sys) : String :=
  "TX[" ++ ";".intercalate (s.txs.map encTx) ++ "] PR[" ++
    ";".intercalate (((s.props.map encProp).toArray.qsort (· < ·)).toList) ++ "] CF[" ++
    ";".intercalate (((s.cfgs.map encCfg).toArray.qsort (· < ·)).toList) ++ "] DEV[" ++
    ";".intercalate (((s.devs.map (fun d => s!"{d.1}:" ++ encDev d.2)).toArray.qsort (· < ·)).toList) ++ "] LOG[" ++
    ";".intercalate (s.devLog.map encReq) ++ "]"

/-! argument parsing -/

def kv (args : List String) (key : String) : Option String :=
  args.findSome? fun a =>
    match a.splitOn "=" with
    | k :: rest => if k == key then some ("=".intercalate rest) else none
    | _ => none

def decDev (s : String) : Option DevResp :=
  match s.splitOn ":" with
  | ["ok"] => some .ok
  | ["retry"] => some .retry
  | ["retry", _] => some .retry
  | ["wait"] => some .wait
  | ["fail", f] => (decFailure f).map .fail
  | _ => none

def decEnv (args : List String) (persistent : Bool) : Env :=
  { plugin := match kv args "plugin" with
      | some "none" => none
      | some "bad" => some false
      | _ => some true
    dev := ((kv args "dev").bind decDev).getD .ok
    syncOk := ((kv args "syncok").bind String.toNat?).getD 1000000
    pick := ((kv args "pick").bind String.toNat?).getD 0
    persistent := persistent
    ordU := 0 }

def decChange (tok : String) : Option (Tgt × VMap) :=
  match tok.splitOn "/" with
  | [t, vals] => do pure ((← t.toNat?), (← decVals vals))
  | _ => none

/-- reorder `l` so that the targets come in the order `ord`; targets not named keep their place at the end -/
def reorderBy {α : Type} (key : α → Nat) (ord : List Nat) (l : List α) : List α :=
  ord.filterMap (fun t => l.find? (fun x => key x = t)) ++ l.filter (fun x => !ord.contains (key x))

/-- run one invocation to completion, with an optional injected failure at effect `k` and an
    optional pre-emption: before effect `hook.1` is executed another invocation runs to completion on
    the state as it is then (`hook.2`), unless that effect is the entry half of a configuration write
    whose values half was the previous effect (the real store call cannot be entered between them) -/
def runPlan (w : World) (_actor : Id) (plan : Plan) (inject : Option (String × Nat))
    (hook : Option (Nat × (Sys → Sys × List Id × String)) := none) (hookAfter : Bool := false) :
    World × Nat × Bool × Option Id × Option String :=
  -- returns the world, the number of effects executed, error?, requeue, the pre-empting invocation's answer
  let isVals : Effect → Bool := fun e => match e with | .cfgVals _ _ => true | .cfgAVals _ _ => true | _ => false
  let isEntry : Effect → Bool := fun e => match e with | .cfg _ _ _ _ _ _ => true | _ => false
  let rec go (s : Sys) (q : List Id) (effs : List Effect) (k : Nat) (prevVals : Bool) (ires : Option String)
      (fuel : Nat) : Sys × List Id × Nat × Bool × Bool × Option String :=
    -- (sys, queue additions, executed, error, completed, pre-emption answer)
    match fuel, effs with
    | 0, _ => (s, q, k, false, false, ires)
    | _, [] =>
      -- a pre-emption after the last effect: the other invocation runs, this one returns as planned
      (match hook with
        | some (n, f) =>
          if n = k && hookAfter && ires.isNone then
            let (s1, q1, out) := f s
            (s1, q ++ q1, k, false, true, some out)
          else (s, q, k, false, true, ires)
        | none => (s, q, k, false, true, ires))
    | fuel + 1, e :: rest =>
      -- pre-emption point
      let (s, q, ires) :=
        match hook with
        | some (n, f) =>
          if n = k && !(prevVals && isEntry e) then
            let (s1, q1, out) := f s
            (s1, q ++ q1, some out)
          else (s, q, ires)
        | none => (s, q, ires)
      let pv := isVals e
      -- a southbound request over a connection that has gone meanwhile (a fault inside a pre-emption)
      -- is lost: the invocation returns the error
      let connGone : Bool := match e with
        | .dev r => (match s.rel? r.conn with
            | some rel => !rel.conn
            | none => true)
        | _ => false
      if connGone && hook.isSome then (s, q, k + 1, true, false, ires) else
      match inject with
      | some ("fail", n) =>
        if n = k then
          match e with
          | .cfg t v u sh ash oc =>
            -- the entry half cannot fail on its own: the harness loses the compare-and-set instead
            let (s', o) := exec s (.cfg t (v + 1000000) u sh ash oc)
            (s', q, k + 1, endsWithError o, false, ires)
          | _ => (s, q, k + 1, true, false, ires)
        else
          let (s', o) := exec s e
          let q' := q ++ (if o = .ok then wakes s' e else [])
          if continues e o then go s' q' rest (k + 1) pv ires fuel else (s', q', k + 1, endsWithError o, false, ires)
      | some ("conflict", n) =>
        let e' : Effect := if n = k then
            (match e with
              | .tx i v u => .tx i (v + 1000000) u
              | .prop id v u => .prop id (v + 1000000) u
              | .cfg t v u sh ash oc => .cfg t (v + 1000000) u sh ash oc
              | other => other)
          else e
        if n = k && (match e with | .dev _ => true | _ => false) then (s, q, k + 1, true, false, ires) else
        let (s', o) := exec s e'
        let q' := q ++ (if o = .ok then wakes s' e' else [])
        if continues e' o then go s' q' rest (k + 1) pv ires fuel else (s', q', k + 1, endsWithError o, false, ires)
      | _ =>
        let (s', o) := exec s e
        let q' := q ++ (if o = .ok then wakes s' e else [])
        if continues e o then go s' q' rest (k + 1) pv ires fuel else (s', q', k + 1, endsWithError o, false, ires)
  let (s', q, n, err, completed, ires) := go w.sys [] plan.effects 0 false none (plan.effects.length + 1)
  let rq : Option Id := if completed then plan.requeue else none
  -- `retry` plans carry their own id as requeue and no effects: that is the error return
  ({ w with sys := s', queue := w.queue ++ q }, n, err, rq, ires)

/-- one whole invocation of `id` on world `w0`: plan, hint search over the iteration orders of the Go
    maps (`vals=`, `devlog=`, `rb=` hints under the given key prefix), execution -/
def runOne (w0 : World) (id : Id) (env : Env) (hints : List String) (pfx : String)
    (inject : Option (String × Nat)) (hook : Option (Nat × (Sys → Sys × List Id × String)))
    (hookAfter : Bool := false) :
    (World × Nat × Bool × Option Id × Option String) × Plan :=
  let tgt : Nat := match id with
    | .prop p => p.1 | .cfg t => t | .mast t => t | .tx _ => 0
  let runWith (nC nU : Nat) : (World × Nat × Bool × Option Id × Option String) × Plan :=
    let plan := reconcile w0.sys id { env with ordU := nU, ordC := nC }
    (runPlan w0 id plan inject hook hookAfter, plan)
  let okHints (r : (World × Nat × Bool × Option Id × Option String) × Plan) : Bool :=
    (match kv hints (pfx ++ "vals") with
      | some want =>
        (match r.1.1.sys.cfg? tgt with
          | some (c : Cfg) => encVals c.view == want
          | none => want == "-")
      | none => true) &&
    (match kv hints (pfx ++ "devlog") with
      | some want => ";".intercalate (r.1.1.sys.devLog.map encReq) == want
      | none => true) &&
    (match kv hints (pfx ++ "rb"), id with
      | some want, .prop pid =>
        (match r.1.1.sys.prop? pid with
          | some (p : Proposal) => encVals p.rbValues == want
          | none => true)
      | _, _ => true)
  let first := runWith 0 0
  if okHints first then first
  else ((List.range 24).findSome? fun nC =>
    (List.range 24).findSome? fun nU =>
      let r := runWith nC nU
      if okHints r then some r else none).getD first

/-- environment and world preparation shared by the invocation and the pre-empting one: the election
    hint (`master=`) and the order of the per-target changes of a transaction (`order=`) -/
def prepare (w : World) (id : Id) (env0 : Env) (hints : List String) (pfx : String) : World × Env :=
  let env : Env := match id, (kv hints (pfx ++ "master")).bind String.toNat? with
    | .mast t, some m =>
      let live := w.sys.rels.filter (fun r => r.target = t)
      match live.findIdx? (fun r => r.id = m) with
      | some i => { env0 with pick := i }
      | none => env0
    | _, _ => env0
  let w0 : World :=
    match kv hints (pfx ++ "order"), id with
    | some ord, .tx i =>
      let ordL := (ord.splitOn "+").filterMap String.toNat?
      match w.sys.tx? i with
      | some t =>
        let src := if t.isRollback then t.rollbackIndex else i
        match w.sys.tx? src with
        | some t2 => { w with sys := w.sys.setTx { t2 with changes := reorderBy (·.1) ordL t2.changes } }
        | none => w
      | none => w
    | _, _ => w
  (w0, env)

def handleIO (op : String) (args : List String) : IO (Option String) := do
  let st ← stateRef.get
  match op, args with
  | "reset", _ => do
    stateRef.set {}
    pure (some "ok")
  | "target", t :: rest => do
    match t.toNat? with
    | none => pure none
    | some t =>
      let pers := kv rest "persistent" == some "1"
      stateRef.set { st with persistent := if pers then t :: st.persistent else st.persistent }
      pure (some "ok")
  | "fault", kind :: rest => do
    let f : Option Fault :=
      match kind, rest with
      | "relup", [id, t] => do pure (.relUp { id := (← id.toNat?), target := (← t.toNat?) })
      | "reldown", [id] => do pure (.relDown (← id.toNat?))
      | "conndown", [id] => do pure (.connDown (← id.toNat?))
      | "connup", [id] => do pure (.connUp (← id.toNat?))
      | "devrestart", [t] => do pure (.devRestart (← t.toNat?))
      | _, _ => none
    match f with
    | none => pure none
    | some f =>
      stateRef.set { st with w := step st.w (.fault f) }
      pure (some "ok")
  | "set", sync :: ser :: changes => do
    match changes.mapM decChange with
    | none => pure none
    | some chs =>
      let tx : Tx := { index := 0, changes := chs, sync := sync == "1", serializable := ser == "1" }
      let w := step st.w (.nbSet tx)
      stateRef.set { st with w := w }
      pure (some s!"ok idx={w.sys.txs.length}")
  | "rollback", [i] => do
    match i.toNat? with
    | none => pure none
    | some i =>
      let tx : Tx := { index := 0, isRollback := true, rollbackIndex := i, sync := true }
      let w := step st.w (.nbSet tx)
      stateRef.set { st with w := w }
      pure (some s!"ok idx={w.sys.txs.length}")
  | "run", idTok :: rest => do
    match decId idTok with
    | none => pure none
    | some id =>
      let tgtOf : Id → Nat := fun id => match id with
        | .prop p => p.1 | .cfg t => t | .mast t => t | .tx _ => 0
      let env0 := decEnv rest (st.persistent.contains (tgtOf id))
      let (w0, env) := prepare st.w id env0 rest ""
      let inject : Option (String × Nat) :=
        match (kv rest "inject").map (·.splitOn ":") with
        | some [k, n] => n.toNat?.map fun n => (k, n)
        | _ => none
      -- pre-emption `inter=<k>:<id>`: before effect k another invocation (default environment, its own
      -- hints under the prefix `i.`) runs to completion
      let hook : Option (Nat × (Sys → Sys × List Id × String)) :=
        match kv rest "inter" with
        | none => none
        | some v =>
          match v.splitOn ":" with
          | kS :: idToks =>
            let items := (":".intercalate idToks).splitOn "+"
            let decFault : String → Option Fault := fun it =>
              match ((it.drop 2).toString).splitOn "." with
              | ["relup", id, t] => do pure (.relUp { id := (← id.toNat?), target := (← t.toNat?) })
              | ["reldown", id] => do pure (.relDown (← id.toNat?))
              | ["conndown", id] => do pure (.connDown (← id.toNat?))
              | ["connup", id] => do pure (.connUp (← id.toNat?))
              | ["devrestart", t] => do pure (.devRestart (← t.toNat?))
              | _ => none
            let faults := (items.filter (·.startsWith "F.")).filterMap decFault
            let rids := items.filter (fun it => !it.startsWith "F.")
            -- `a<k>` = after effect k has completed = before effect k+1 (or after the last effect)
            let kN : Option Nat := if kS.startsWith "a" then ((kS.drop 1).toString.toNat?).map (· + 1) else kS.toNat?
            match kN, rids with
            | some k, [] =>
              some (k, fun s =>
                let s1 := faults.foldl applyFault s
                let cfgs := (s1.cfgs.toArray.qsort (fun a b => a.target < b.target)).toList
                let mid := if cfgs.isEmpty then "-" else
                  "+".intercalate (cfgs.map fun c => s!"{c.target}.{c.committed}.{c.applied}.{c.master}.{c.term}.{c.appliedTerm}")
                (s1, [], s!"ires=-/0/0/{mid}"))
            | some k, [ridTok] =>
              match decId ridTok with
              | none => none
              | some bid =>
              some (k, fun s =>
                let s := faults.foldl applyFault s
                let wB : World := { sys := s }
                let envB0 : Env := { persistent := st.persistent.contains (tgtOf bid) }
                let (wB0, envB) := prepare wB bid envB0 rest "i."
                let ((wB', nB, errB, rqB, _), planB) := runOne wB0 bid envB rest "i." none none
                let planErrB := planB.err && nB == planB.effects.length && !errB
                let rqS := match rqB with
                  | some r => encId r
                  | none => "-"
                let errS := if errB || planErrB then "1" else "0"
                let cfgs := (wB'.sys.cfgs.toArray.qsort (fun a b => a.target < b.target)).toList
                let mid := if cfgs.isEmpty then "-" else
                  "+".intercalate (cfgs.map fun c => s!"{c.target}.{c.committed}.{c.applied}.{c.master}.{c.term}.{c.appliedTerm}")
                (wB'.sys, wB'.queue ++ rqB.toList, s!"ires={rqS}/{errS}/{nB}/{mid}"))
            | _, _ => none
          | _ => none
      let hookAfter : Bool := match kv rest "inter" with
        | some v => v.startsWith "a"
        | none => false
      let ((w', n, err, rq, ires), plan) := runOne w0 id env rest "" inject hook hookAfter
      let planErr := plan.err && n == plan.effects.length && !err
      let w'' := { w' with queue := (w'.queue.erase id) ++ rq.toList }
      stateRef.set { st with w := w'' }
      let errS := if err || planErr then "1" else "0"
      let rqS := match rq with
        | some r => encId r
        | none => "-"
      let iS := match ires with
        | some x => " " ++ x
        | none => ""
      pure (some s!"res requeue={rqS} err={errS} effects={n}{iS} {encSys w''.sys}")
  | "state", _ => pure (some (encSys st.w.sys))
  | "doc", [idTok] => do
    match decId idTok with
    | some (.prop pid) =>
      match st.w.sys.prop? pid with
      | some p =>
        let d := validateDoc st.w.sys p
        pure (some ("doc " ++ (if d.isEmpty then "-" else ",".intercalate (d.map fun e => encStr e.1 ++ "=" ++ encStr e.2))))
      | none => pure (some "doc none")
    | _ => pure none
  | _, _ => pure none

end OnosVerif.V2
