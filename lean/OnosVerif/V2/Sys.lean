/-
The v2 system as a transition system (DESIGN.md §4): persistent state `Sys`, in-flight
invocations (the effects an invocation has computed from its snapshot and not yet executed),
work queues fed by the watcher mappings, environment faults and crash.
-/
import OnosVerif.V2.Prop

namespace OnosVerif.V2
open OnosVerif.Config (PV VMap)

/-- an in-flight invocation: what it still has to do -/
structure Pending where
  actor : Id
  effects : List Effect
  requeue : Option Id
  err : Bool := false
deriving DecidableEq, Repr, Inhabited

structure World where
  sys : Sys := {}
  pend : List Pending := []
  /-- work queue items (all controllers; an item is consumed by the controller it belongs to) -/
  queue : List Id := []
deriving DecidableEq, Repr, Inhabited

/-- the work-queue partition an id is processed in (one goroutine per partition): all
    transactions share one; proposals are partitioned by target; the configuration and mastership
    controllers process one id at a time per key. -/
inductive Part | tx | prop (t : Tgt) | cfg (t : Tgt) | mast (t : Tgt)
deriving DecidableEq, Repr

def Id.part : Id → Part
  | .tx _ => .tx
  | .prop id => .prop id.1
  | .cfg t => .cfg t
  | .mast t => .mast t

/-- ids enqueued by the watchers when a record is written (transaction/watcher.go,
    proposal/watcher.go, configuration/watcher.go, mastership/watcher.go) -/
def wakeTx (t : Tx) : List Id := [.tx t.index]
def wakeProp (p : Proposal) : List Id := [.tx p.index, .prop (p.target, p.index)]
def wakeCfg (c : Cfg) : List Id :=
  [.prop (c.target, c.index), .prop (c.target, c.applied), .cfg c.target, .mast c.target]

/-- ids woken by the successful execution of an effect (events of the record it wrote) -/
def wakes (s' : Sys) : Effect → List Id
  | .tx i _ _ => ((s'.tx? i).map wakeTx).getD []
  | .prop id _ _ => ((s'.prop? id).map wakeProp).getD []
  | .createProp p => wakeProp p
  | .createCfg t _ => ((s'.cfg? t).map wakeCfg).getD []
  | .cfgVals _ _ => []
  | .cfgAVals _ _ => []
  | .cfg t _ _ _ _ _ => ((s'.cfg? t).map wakeCfg).getD []
  | .dev _ => []

/-- does the invocation go on after this outcome?  A swallowed conflict (`updateXStatus` logs it and
    returns nil) lets the code run on; `createCfg`: AlreadyExists is ignored; `createProp`:
    AlreadyExists returns. -/
def continues (e : Effect) (o : Outcome) : Bool :=
  match o, e with
  | .ok, _ => true
  | .conflictSwallowed, _ => true
  | .missing, .tx _ _ _ => true      -- NotFound is swallowed like a conflict
  | .missing, .prop _ _ _ => true
  | .exists_, .createCfg _ _ => true
  | _, _ => false

/-- does the invocation end with an error (the controller re-queues the same id)? -/
def endsWithError (o : Outcome) : Bool :=
  match o with
  | .conflictError => true
  | _ => false

inductive Fault
  | relUp (r : Rel)            -- a CONTROLS relation (and its connection) appears
  | relDown (id : Nat)         -- relation removed
  | connDown (id : Nat)        -- the connection disappears, relation still listed
  | connUp (id : Nat)
  | devRestart (t : Tgt)       -- the device restarts empty; every connection to it is lost
deriving DecidableEq, Repr, Inhabited

def applyFault (s : Sys) : Fault → Sys
  | .relUp r => if s.rels.any (fun x => x.id = r.id) then s else { s with rels := s.rels ++ [r] }
  | .relDown id => { s with rels := s.rels.filter (fun x => x.id ≠ id) }
  | .connDown id => { s with rels := s.rels.map (fun x => if x.id = id then { x with conn := false } else x) }
  | .connUp id => { s with rels := s.rels.map (fun x => if x.id = id then { x with conn := true } else x) }
  | .devRestart t => { (s.setDev t []) with rels := s.rels.filter (fun x => x.target ≠ t) }

def faultWakes (s : Sys) : Fault → List Id
  | .relUp r => [.mast r.target]
  | .relDown id => ((s.rel? id).map fun r => [Id.mast r.target]).getD []
  | .devRestart t => [.mast t]
  | _ => []

inductive Step
  | begin (id : Id) (env : Env)      -- an idle partition takes `id`, snapshots, computes its plan
  | adv (k : Nat)                    -- the k-th in-flight invocation executes its next effect
  | failNext (k : Nat)               -- its next effect fails with a non-conflict error / the process dies there
  | crash                            -- every in-flight invocation and every queue item is lost; all ids replayed
  | nbSet (tx : Tx)                  -- a Set was accepted: append to the log (index assigned here)
  | fault (f : Fault)
deriving Repr, Inhabited

def allIds (s : Sys) : List Id :=
  s.txs.map (fun t => Id.tx t.index) ++ s.props.map (fun p => Id.prop (p.target, p.index)) ++
    s.cfgs.flatMap (fun c => [Id.cfg c.target, Id.mast c.target])

def removeAt {α : Type} (l : List α) (k : Nat) : List α := l.take k ++ l.drop (k + 1)

def step (w : World) : Step → World
  | .begin id env =>
    if w.pend.any (fun p => p.actor.part = id.part) then w
    else
      let plan := reconcile w.sys id env
      let q := w.queue.erase id
      match plan.effects with
      | [] => { w with queue := q ++ plan.requeue.toList ++ (if plan.err then [id] else []) }
      | _ => { w with queue := q, pend := w.pend ++ [{ actor := id, effects := plan.effects, requeue := plan.requeue, err := plan.err }] }
  | .adv k =>
    match w.pend[k]? with
    | none => w
    | some p =>
      match p.effects with
      | [] => { w with pend := removeAt w.pend k }
      | e :: rest =>
        let (s', o) := exec w.sys e
        let woken := if o = .ok then wakes s' e else []
        if continues e o then
          match rest with
          | [] => { sys := s', pend := removeAt w.pend k,
                    queue := w.queue ++ woken ++ p.requeue.toList ++ (if p.err then [p.actor] else []) }
          | _ => { sys := s', pend := w.pend.set k { p with effects := rest }, queue := w.queue ++ woken }
        else
          { sys := s', pend := removeAt w.pend k,
            queue := w.queue ++ woken ++ (if endsWithError o then [p.actor] else []) }
  | .failNext k =>
    match w.pend[k]? with
    | none => w
    | some p => { w with pend := removeAt w.pend k, queue := w.queue ++ [p.actor] }
  | .crash => { w with pend := [], queue := allIds w.sys }
  | .nbSet tx =>
    let t : Tx := { tx with index := w.sys.txs.length + 1, init := .none, validate := .none, commit := .none,
                            apply := .none, abort := .none, state := .pending, failure := none,
                            proposals := none, version := 1 }
    { w with sys := { w.sys with txs := w.sys.txs ++ [t] }, queue := w.queue ++ wakeTx t }
  | .fault f =>
    { w with sys := applyFault w.sys f, queue := w.queue ++ faultWakes w.sys f }

def run (w : World) (steps : List Step) : World := steps.foldl step w

/-- every world reachable from the empty one -/
def Reachable (w : World) : Prop := ∃ steps, w = run {} steps

end OnosVerif.V2
