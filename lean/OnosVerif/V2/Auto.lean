/-
A deterministic scheduler for concrete executions of the v2 twin (used by non-vacuity examples and
negation witnesses): every id in turn, each invocation run to completion.
-/
import OnosVerif.V2.Sys

namespace OnosVerif.V2

def sweepSteps (w : World) (env : Id → Env) : List Step :=
  (allIds w.sys).flatMap fun id => [Step.begin id (env id), .adv 0, .adv 0, .adv 0, .adv 0, .adv 0]

def autoSteps : Nat → World → (Id → Env) → List Step
  | 0, _, _ => []
  | n + 1, w, env =>
    let st := sweepSteps w env
    st ++ autoSteps n (run w st) env

theorem reachable_run (w : World) (h : Reachable w) (steps : List Step) : Reachable (run w steps) := by
  obtain ⟨s0, hs0⟩ := h
  exact ⟨s0 ++ steps, by rw [hs0]; simp [run, List.foldl_append]⟩

theorem reachable_init : Reachable {} := ⟨[], rfl⟩

end OnosVerif.V2
