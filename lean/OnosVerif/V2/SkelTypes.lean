/-
Types of the control skeletons the translator regenerates from pkg/controller/v2/* (hand-written,
imported by the generated `OnosVerif/Generated/Facts.lean`; see `harness/cmd/extract/v2ctl.go`).
-/
namespace OnosVerif.Generated

/-- abstract state a skeleton is evaluated in: numeric operands and uninterpreted conditions, both
    named by their Go expression -/
structure V2G where
  n : String → Nat
  b : String → Bool

/-- one step of a trace: a tracked assignment (as written, or by value when the right-hand side is
    an operand), a store write / southbound request, another call, loop brackets, the return -/
inductive Tok
  | set (lhs rhs : String)
  | setN (lhs : String) (v : Nat)
  | write (f : String)
  | call (f : String)
  | loop (over : String)
  | endLoop
  | ret (shape : String) (args : List Nat)
  | misc (s : String)
deriving DecidableEq, Repr

end OnosVerif.Generated
