/-
The project's own TLA+ invariants (spec/Config.tla) over the twin's state, transcribed literally,
and the schedule predicates the theorems quantify over.

`history` is the ghost variable `Sys.hist`; TLA+ sequences are 1-based, the lists here 0-based.
-/
import OnosVerif.V3.Core

namespace OnosVerif.V3

/-! ## Order -/

/-- `IsOrderedChange(p, i)` -/
def IsOrderedChange (h : List Event) (p : Stage) (i : Nat) : Prop :=
  ∃ e, h[i]? = some e ∧ e.phase = .change ∧ e.stage = p ∧ e.status = .complete ∧
    ¬ ∃ j e', j < i ∧ h[j]? = some e' ∧ e'.phase = .change ∧ e'.stage = p ∧ e'.status = .complete ∧
        e'.index ≥ e.index

/-- `IsOrderedRollback(p, i)`.  The innermost conjunct `history[j].status = Complete` is the spec's
    own (it says `j` where `k` is probably meant; it is implied by the conjunct on `j` two lines up). -/
def IsOrderedRollback (h : List Event) (p : Stage) (i : Nat) : Prop :=
  ∃ e, h[i]? = some e ∧ e.phase = .rollback ∧ e.stage = p ∧ e.status = .complete ∧
    (∃ j e', j < i ∧ h[j]? = some e' ∧ e'.phase = .change ∧ e'.status = .complete ∧ e'.index = e.index) ∧
    ¬ ∃ j e', j < i ∧ h[j]? = some e' ∧ e'.phase = .change ∧ e'.stage = p ∧ e'.status = .complete ∧
        e'.index > e.index ∧
        ¬ ∃ k e'', k > j ∧ k < i ∧ h[k]? = some e'' ∧ e''.phase = .rollback ∧ e''.stage = p ∧
            e'.status = .complete ∧ e''.index = e'.index

/-- first conjunct of `Order` -/
def OrderHist (h : List Event) : Prop :=
  ∀ (i : Nat) (e : Event), h[i]? = some e → e.status = .complete →
    IsOrderedChange h .commit i ∨ IsOrderedChange h .apply i ∨
    IsOrderedRollback h .commit i ∨ IsOrderedRollback h .apply i

/-- second conjunct of `Order`, literally: the inner condition is about `transactions[i]`, not
    `transactions[j]` (so it is trivially true; `OrderFailedIntended` is the evident intention). -/
def OrderFailedLiteral (k : Core) : Prop :=
  ∀ i ti, k.tx i = some ti → ti.ca = .failed → ti.ra ≠ some .complete →
    ¬ ∃ j tj, k.tx j = some tj ∧ j > i ∧ (ti.ca = .inProgress ∨ ti.ca = .complete)

/-- the second conjunct of `Order` as evidently intended (and as the property text says it, for
    aborted applies as well): while a change whose apply failed or was aborted is not rolled back,
    no later change is in the apply stage or applied. -/
def OrderFailedIntended (k : Core) : Prop :=
  ∀ i ti, k.tx i = some ti → (ti.ca = .failed ∨ ti.ca = .aborted) → ti.ra ≠ some .complete →
    ¬ ∃ j tj, k.tx j = some tj ∧ j > i ∧ (tj.ca = .inProgress ∨ tj.ca = .complete)

/-- `Order` of spec/Config.tla -/
def Order (k : Core) : Prop := OrderHist k.hist ∧ OrderFailedLiteral k

/-! ## Commit before apply -/

/-- every event of the apply stage is preceded by the Complete event of the commit stage of the
    same phase of the same transaction -/
def CommitBeforeApplyHist (h : List Event) : Prop :=
  ∀ (i : Nat) (e : Event), h[i]? = some e → e.stage = Stage.apply →
    ∃ j, j < i ∧ h[j]? = some (⟨e.phase, .commit, .complete, e.index⟩ : Event)

/-! ## Schedules -/

/-- the first write of the invocation is neither a swallowed conflict nor raced by a rollback
    request (a failing or crashing write ends the invocation; a conflict on the *last* write of an
    invocation is harmless) -/
def safeInj (inj : List Inj) : Bool :=
  match inj with
  | .conflict :: _ => false
  | .race :: _ => false
  | _ => true

def safeAction : Action → Bool
  | .tx _ _ _ inj _ => safeInj inj
  | _ => true

/-- a schedule without swallowed conflicts between the two writes of one invocation -/
def safeSchedule (acts : List Action) : Bool := acts.all safeAction

/-- the side-map transaction of some configuration write of this step fails (possible only after
    `store` wrote an entry with the content of another path, see the loop-variable finding): the
    reconciler swallows the resulting conflict -/
def stepStoreFail (s : Sys) : Action → Bool
  | .tx i verdict ans inj last => (stepTx s i verdict ans inj last).2.storeFail
  | _ => false

/-- along the run from `s`, no side-map transaction of the transaction reconciler fails -/
def storeNeverFails (s : Sys) : List Action → Bool
  | [] => true
  | a :: rest => !stepStoreFail s a && storeNeverFails (step s a) rest

/-! ## Consistency -/

/-- first conjunct of `Consistency`: the change that is the committed revision (`IsChangeCommitted(i)`
    is `configuration.committed.revision = i`; the spec's "and no later `j` is committed" is kept
    although it follows from that) has each of its values in `configuration.committed.values`, which
    here is what `configurations.Get` returns. -/
def ConsistencyCommitted (s : Sys) : Prop :=
  ∀ i t, getTx s i = some t → s.cfg.cRevision = i →
    (¬ ∃ j tj, getTx s j = some tj ∧ j > i ∧ s.cfg.cRevision = j) →
    ∀ kv ∈ t.values, vLookup (view s).cVals kv.1 = some kv.2

/-- second conjunct of `Consistency`, the record part: the change that is the applied revision has
    each of its values in `configuration.applied.values`. -/
def ConsistencyApplied (s : Sys) : Prop :=
  ∀ i t, getTx s i = some t → s.cfg.aRevision = i →
    (¬ ∃ j tj, getTx s j = some tj ∧ j > i ∧ s.cfg.aRevision = j) →
    ∀ kv ∈ t.values, vLookup (view s).aVals kv.1 = some kv.2

/-- `Consistency` without its innermost conjunct about `target.values`: that one is guarded by
    `configuration.applied.target = target.id` (the incarnation of the device the configuration was
    last pushed to), which no record of the implementation holds; the monitor of the
    correspondence harness evaluates it on the real fake device, gated by the history of device
    restarts and re-synchronisations. -/
def Consistency (s : Sys) : Prop := ConsistencyCommitted s ∧ ConsistencyApplied s

end OnosVerif.V3
