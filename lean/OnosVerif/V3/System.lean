/-
The system around the transaction reconciler twin: the interpreter of one invocation under an
injection (which store write fails, conflicts, is raced by a northbound request), the
configuration and mastership reconcilers, the northbound stand-ins (spec AppendChange /
RollbackChange), topology, connection and device faults.  `step` is the total step function the
theorems quantify over.

Core-only: linked into the `oracle` driver.
-/
import OnosVerif.V3.Model

namespace OnosVerif.V3

/-- what happens to one store write of an invocation -/
inductive Inj
  | ok        -- the write is made
  | fail      -- a non-conflict error: nothing is written, the invocation ends with that error
  | conflict  -- another writer touched the record since it was read: the CAS conflicts, the error
              -- is swallowed (`update…Status` returns nil) and the invocation continues
  | sideOnly  -- (configuration) the process dies inside UpdateStatus: side map written, entry not
  | race      -- (transaction) a northbound rollback request lands just before the write
deriving DecidableEq, Repr, Inhabited

/-- the outcome reported by `Reconcile` -/
inductive Res
  | done (requeue : Option Nat) (err : Bool)
  | panic (p : Panic)
deriving DecidableEq, Repr

structure Out where
  res : Res := .done none false
  trace : List (Bool × Inj) := []   -- per attempted write: configuration?, injection
  reqs : List DevReq := []
  storeFail : Bool := false         -- the side-map transaction of an attempted configuration write failed
deriving Repr

/-! ## Northbound stand-ins -/

/-- spec/Transaction.tla `AppendChange`. -/
def nbAppend (s : Sys) (vals : Values) : Sys :=
  { s with txs := s.txs ++ [{ values := vals, ver := 1 }] }

/-- the guard of spec/Transaction.tla `RollbackChange`. -/
def canRollback (t : Tx) : Bool := t.phase = .change && t.cc = .complete

/-- spec/Transaction.tla `RollbackChange` (refused requests change nothing). -/
def nbRollback (s : Sys) (i : Nat) : Sys × Bool :=
  match getTx s i with
  | some t =>
    if canRollback t then
      (setTx s i { t with phase := .rollback, rc := some .pending, ra := some .pending, ver := t.ver + 1 }, true)
    else (s, false)
  | none => (s, false)

/-! ## One invocation of the transaction reconciler -/

/-- a writer that re-writes the configuration it read: the entry gets `Get`'s `Committed.Values`. -/
def touchCfg (s : Sys) : Sys :=
  { s with cfg := { s.cfg with cValues := (view s).cVals, ver := s.cfg.ver + 1 } }

def touchTx (s : Sys) (i : Nat) : Sys :=
  match getTx s i with
  | some t => setTx s i { t with ver := t.ver + 1 }
  | none => s

/-- the side-map transaction of a configuration write succeeds (two operations on one key make it
    fail, which `UpdateStatus` reports as a conflict that the reconciler swallows) -/
def storeOK (s : Sys) (a : Act) (last : Option Str) : Bool :=
  !a.isCfg || (storeSide s.side (actValues (view s) a).2 last).isSome

/-- apply the planned writes in order under the injection.  Every act was planned on the records
    read at the start of the invocation; an act is applied to the current state, which differs from
    the planning state only by this invocation's own earlier writes to the *other* record (and by
    the injected interference, after which the CAS of the interfered record conflicts).
    The last component tells whether a side-map transaction failed. -/
def runActs (s : Sys) (i : Nat) (last : Option Str) : List Act → List Inj → Sys × Bool × List (Bool × Inj) × Bool
  | [], _ => (s, false, [], false)
  | a :: rest, inj =>
    let j := inj.headD .ok
    let tr := (a.isCfg, j)
    let cont (s' : Sys) (sf : Bool) :=
      let (s'', e, t, sf') := runActs s' i last rest inj.tail
      (s'', e, tr :: t, sf || sf')
    -- a conflict is swallowed (`update…Status` returns nil) or ends the invocation with the error,
    -- as the translator finds it in the current source
    let conflicted (s' : Sys) (sf : Bool) :=
      if (if a.isCfg then OnosVerif.Generated.v3SwallowCfgConflict else OnosVerif.Generated.v3SwallowTxConflict)
      then cont s' sf else (s', true, [tr], sf)
    match j with
    | .ok => if storeOK s a last then cont (applyAct s a last) false else conflicted s true
    | .fail => (s, true, [tr], false)
    | .conflict =>
      if a.isCfg then conflicted (sideWrite (touchCfg s) (actValues (view s) a).2 last) false
      else conflicted (touchTx s i) false
    | .sideOnly =>
      if a.isCfg then (sideWrite s (actValues (view s) a).2 last, true, [tr], false)
      else cont (applyAct s a last) false
    | .race =>
      if a.isCfg then (if storeOK s a last then cont (applyAct s a last) false else conflicted s true)
      else
        let (s', landed) := nbRollback s i
        if landed then conflicted s' false else cont (applyAct s a last) false

/-- the raw answer names the harness uses for the device (gRPC code names) -/
def ansOfName (n : Str) : Option DevAns :=
  match String.ofList n with
  | "ok" => some .ok
  | "canceled" => some .canceled
  | "unknown" => some .unknown
  | "invalid" => some .invalidArgument
  | "deadline" => some .deadlineExceeded
  | "notfound" => some .notFound
  | "exists" => some .alreadyExists
  | "denied" => some .permissionDenied
  | "precondition" => some .failedPrecondition
  | "unimplemented" => some .unimplemented
  | "internal" => some .internal
  | "unavailable" => some .unavailable
  | "unauthenticated" => some .unauthenticated
  -- errors.FromGRPC maps every other code to Unknown
  | "exhausted" | "aborted" | "range" | "dataloss" => some .unknown
  | _ => none

def effName (s : Sys) (ansName : Str) : Str := if s.devUp then ansName else "unavailable".toList

/-- the gRPC code the reconciler's switch sees: `errorCode` maps the typed error back to its code
    (since fix 29b9466; before, `status.Code` of a typed error was always Unknown) -/
def effAns (name : Str) : DevAns :=
  if OnosVerif.Generated.v3ErrorCodeTyped then (ansOfName name).getD .unknown
  else if name = "ok".toList then .ok else .unknown

/-- the device's part of one Set -/
def devSet (s : Sys) (values : Values) (election : Nat) (ansName : Str) : Sys × List DevReq :=
  match mkRequest values election with
  | none => (s, [])
  | some r =>
    let name := effName s ansName
    let r := { r with answer := name }
    if name = "ok".toList then ({ s with dev := devApply s.dev r }, [r]) else (s, [r])

/-- one `Reconcile(id)` of the transaction reconciler for transaction `i`. -/
def stepTx (s : Sys) (i : Nat) (verdict : Verdict) (ansName : Str) (inj : List Inj) (last : Option Str) : Sys × Out :=
  let ans := effAns (effName s ansName)
  match planTx s i verdict ans with
  | .panic p => (s, { res := .panic p })
  | .fall => (s, {})
  | .plan plan =>
    let (s1, reqs) := match plan.send with
      | some values => devSet s values s.cfg.aTerm ansName
      | none => (s, [])
    let (s2, failed, trace, sf) := runActs s1 i last plan.acts inj
    let res :=
      if failed then
        (if plan.failNil && trace.length = 1 && trace.all (·.1) then Res.done none false else Res.done none true)
      else if plan.err then Res.done none true
      else Res.done plan.requeue false
    (s2, { res := res, trace := trace, reqs := reqs, storeFail := sf })

/-! ## The configuration reconciler -/

def groupIndexes (vals : Values) : List Nat :=
  (vals.map (·.2.index)).foldr (fun n acc => if acc.contains n then acc else
    -- sorted insert
    (acc.filter (· < n)) ++ n :: (acc.filter (fun m => !(m < n)))) []

/-- the SetRequest of one index group (`PathValuesToGnmiChange`, no pruning). -/
def groupRequest (vals : Values) (idx election : Nat) : Option DevReq :=
  let pvs := (vals.map (·.2)).filter (·.index = idx)
  let render (p : Str) : Option Str :=
    match OnosVerif.Path.parsePath p with
    | .ok g => some (OnosVerif.Path.strPathElem g)
    | .error _ => none
  match pvs.mapM (fun pv => (render pv.path).map fun r => (r, pv)) with
  | none => none
  | some l =>
    some { election := election,
           deletes := sortStrs ((l.filter (·.2.deleted)).map (·.1)),
           updates := ((l.filter (!·.2.deleted)).map fun x => (x.1, x.2.value)).foldr insertUpd [],
           answer := [] }

/-- the single configuration write of a configuration/mastership invocation -/
def envCfgWrite (s : Sys) (c : Cfg) (inj : List Inj) (last : Option Str) : Sys × Bool × List (Bool × Inj) :=
  let v := view s
  let j := inj.headD .ok
  match j with
  | .ok | .race =>
    (match storeSide s.side v.aVals last with
     | none => s
     | some side => { s with side := side, cfg := { c with cValues := v.cVals, ver := s.cfg.ver + 1 } },
     false, [(true, j)])
  | .fail => (s, true, [(true, j)])
  | .conflict => (sideWrite (touchCfg s) v.aVals last, false, [(true, j)])
  | .sideOnly => (sideWrite s v.aVals last, true, [(true, j)])

def natStr (n : Nat) : Str := (toString n).toList

/-- the text the harness prints for a request (canonical: used to name the order in which the
    re-synchronisation requests of one invocation reached the device, which is Go map order) -/
def reqKey (r : DevReq) : Str :=
  'e' :: natStr r.election ++ ":del[".toList ++ (",".toList).intercalate r.deletes ++ "]upd[".toList ++
  (",".toList).intercalate (r.updates.map fun u => u.1 ++ '=' :: u.2) ++ "]->".toList ++ r.answer

def insertReq (x : DevReq) : List DevReq → List DevReq
  | [] => [x]
  | y :: rest => if OnosVerif.Path.strLt (reqKey x) (reqKey y) then x :: y :: rest else y :: insertReq x rest

/-- the requests in the order `order` names (positions in the list sorted by `reqKey`); anything
    that is not a permutation leaves the sorted order -/
def arrival (reqs : List DevReq) (order : List Nat) : List DevReq :=
  let sorted := reqs.foldr insertReq []
  if order.length = sorted.length && (List.range sorted.length).all (fun i => order.contains i) then
    order.filterMap (sorted[·]?)
  else sorted

/-- one `Reconcile` of the configuration reconciler; `order` resolves the Go map order in which the
    index groups are sent. -/
def stepCfg (s : Sys) (ansName : Str) (inj : List Inj) (last : Option Str) (order : List Nat := []) : Sys × Out :=
  let c := s.cfg
  let write (c' : Cfg) (s0 : Sys) (reqs : List DevReq) : Sys × Out :=
    let (s', failed, trace) := envCfgWrite s0 c' inj last
    (s', { res := .done none failed, trace := trace, reqs := reqs })
  if !s.entity then (s, {}) else
  if s.persistent then
    if c.state ≠ .persisted then write { c with state := .persisted } s [] else (s, {})
  else if c.state ≠ .synchronizing then
    if c.term > c.aTerm then write { c with state := .synchronizing } s [] else (s, {})
  else if c.master = [] then (s, {})
  else if c.aIndex = 0 then write { c with state := .synchronized, aTerm := c.term } s []
  else if !s.rels.contains c.master then (s, {})
  else if !s.conns.contains c.master then (s, {})
  else
    let v := view s
    let name := effName s ansName
    match (groupIndexes v.aVals).mapM (fun idx => groupRequest v.aVals idx c.term) with
    | none => (s, {})
    | some reqs =>
      let reqs := reqs.map fun r => { r with answer := name }
      if name = "ok".toList then
        let s1 := { s with dev := (arrival reqs order).foldl devApply s.dev }
        write { c with aTerm := c.term, state := .synchronized } s1 reqs
      else
        match reqs with
        | [] => write { c with aTerm := c.term, state := .synchronized } s []
        | r :: _ =>
          -- the first request (in Go map order) is refused: only the answer is observable
          let q : DevReq := { election := r.election, deletes := [], updates := [], answer := name }
          (s, { res := .done none (name ≠ "denied".toList), reqs := [q] })

/-! ## The mastership reconciler -/

/-- one `Reconcile` of the mastership reconciler; `pick` resolves `rand.Intn`. -/
def stepMast (s : Sys) (pick : Option Str) (inj : List Inj) (last : Option Str) : Sys × Out :=
  let c := s.cfg
  let write (c' : Cfg) : Sys × Out :=
    let (s', failed, trace) := envCfgWrite s c' inj last
    (s', { res := .done none failed, trace := trace })
  if s.rels.contains c.master then (s, {})
  else if s.rels.isEmpty then
    if c.master = [] then (s, {}) else write { c with master := [] }
  else
    let m := match pick with
      | some p => if s.rels.contains p then p else s.rels.headD []
      | none => s.rels.headD []
    write { c with term := c.term + 1, master := m }

/-! ## Environment -/

def sInsert (x : Str) (l : List Str) : List Str := if l.contains x then l else insertStr x l

inductive EnvOp
  | entity (b : Bool)
  | persistent (b : Bool)
  | relAdd (r : Str) | relDel (r : Str)
  | connAdd (r : Str) | connDel (r : Str)
  | devStop | devStart
deriving DecidableEq, Repr

def stepEnv (s : Sys) : EnvOp → Sys
  | .entity b => { s with entity := b }
  | .persistent b => { s with persistent := b }
  | .relAdd r => { s with rels := sInsert r s.rels }
  | .relDel r => { s with rels := s.rels.filter (· ≠ r) }
  | .connAdd r => { s with conns := sInsert r s.conns }
  | .connDel r => { s with conns := s.conns.filter (· ≠ r) }
  | .devStop => if s.devUp then { s with devUp := false, dev := [] } else s
  | .devStart => if s.devUp then s else { s with devUp := true, devEpoch := s.devEpoch + 1 }

def seedPV : PV := { path := "/seed".toList, value := "0".toList, deleted := false, index := 0 }

/-- the initial state: the configuration record exists (nobody in the repository creates v3
    configurations, the creator is the harness).  `seed = 0`: no initial value, `Committed.Values`
    reads back nil; `seed = 1`: the creator embedded one initial committed value with `UpdateStatus`;
    `seed = 2`: it passed the value to `Create`, which puts it into the committed side map. -/
def initSys (seed : Nat) : Sys :=
  { cfg := { ver := 1, cValues := if seed = 1 then [("/seed".toList, seedPV)] else [] },
    cside := if seed = 2 then [("/seed".toList, seedPV)] else [] }

/-! ## The step function of the theorems -/

inductive Action
  | append (vals : Values)
  | rollback (i : Nat)
  | tx (i : Nat) (verdict : Verdict) (ans : Str) (inj : List Inj) (last : Option Str)
  | cfg (ans : Str) (inj : List Inj) (last : Option Str) (order : List Nat)
  | mast (pick : Option Str) (inj : List Inj) (last : Option Str)
  | env (e : EnvOp)
deriving Repr

def step (s : Sys) : Action → Sys
  | .append vals => nbAppend s vals
  | .rollback i => (nbRollback s i).1
  | .tx i verdict ans inj last => (stepTx s i verdict ans inj last).1
  | .cfg ans inj last order => (stepCfg s ans inj last order).1
  | .mast pick inj last => (stepMast s pick inj last).1
  | .env e => stepEnv s e

def run (s : Sys) (acts : List Action) : Sys := acts.foldl step s

end OnosVerif.V3
