/-
Twin of the next-generation (v3) per-target transaction protocol of onos-config:

  pkg/controller/v3/transaction/controller.go   (Reconcile, commitChange, applyChange, commitRollback,
                                                 applyRollback, applyValues, applyChangeToConfig,
                                                 addDeleteChildren, updateConfigurationStatus, …)
  pkg/controller/v3/configuration/controller.go (reconcileConfiguration)
  pkg/controller/v3/mastership/controller.go    (Reconcile)
  pkg/store/v3/configuration/store.go           (Get/populate, UpdateStatus, store)
  pkg/store/v3/transaction/store.go             (Get, UpdateStatus)
  pkg/utils/v3/tree/tree.go                     (PrunePathValues, PrunePathMap)

The code is mirrored as it is, quirks included:
  * `updateConfigurationStatus` / `updateTransactionStatus` return nil on a CAS conflict and the
    caller continues with its next write;
  * `UpdateStatus` embeds the caller's `Committed.Values` in the entry (only `Create`/`Update` write
    the committed side map), so `Get` returns the entry's values overlaid by the committed side map
    as `Create` left it; the applied values live in their own side map (since fix 7dda02f; before,
    both side maps were one atomix map);
  * `store` takes the address of its loop variable (`&pv`, Go 1.19 loop semantics per go.mod), so
    every insert/update of one call writes the content of the element iterated last;
  * `commitChange` assigns into `configuration.Committed.Values` without a nil check;
  * `commitRollback` leaves `Committed.Target` at the rollback index.

One reconcile invocation is a *plan*: a list of at most two store writes (`Act`s) computed from the
records read at the start, preceded by at most one southbound Set.  The interpreter applies the
acts in order; the injection decides per write whether it happens, fails with a non-conflict error
(the invocation ends), or conflicts (swallowed: the invocation goes on to the next write).

Core-only: this file is linked into the `oracle` driver.
-/
import OnosVerif.Path.Model
import OnosVerif.Generated.Facts

namespace OnosVerif.V3
open OnosVerif.Path (strLt getParentPath)

abbrev Str := List Char

/-! ## Values -/

/-- `configapi.PathValue` (the typed value is an opaque string). -/
structure PV where
  path : Str
  value : Str
  deleted : Bool
  index : Nat
deriving DecidableEq, Repr, Inhabited

/-- `map[string]configapi.PathValue`: association list strictly sorted by key.  A nil map and an
    empty map are both `[]` (the code tells them apart only where noted). -/
abbrev Values := List (Str × PV)

def vLookup (m : Values) (k : Str) : Option PV :=
  match m with
  | [] => none
  | (k', v) :: rest => if k' = k then some v else vLookup rest k

def vInsert (k : Str) (v : PV) : Values → Values
  | [] => [(k, v)]
  | (k', v') :: rest =>
    if strLt k k' then (k, v) :: (k', v') :: rest
    else if k = k' then (k, v) :: rest
    else (k', v') :: vInsert k v rest

def vErase (k : Str) : Values → Values
  | [] => []
  | (k', v') :: rest => if k' = k then rest else (k', v') :: vErase k rest

/-- `for k, v := range top { base[k] = v }`. -/
def vOverlay (base top : Values) : Values :=
  top.foldl (fun acc kv => vInsert kv.1 kv.2 acc) base

def hasPrefix : Str → Str → Bool
  | _, [] => true
  | [], _ :: _ => false
  | a :: as, b :: bs => a = b && hasPrefix as bs

/-- the parent walk of `applyChangeToConfig`: first ancestor present and marked deleted. -/
def findDeletedParent : Nat → Values → Str → Option (Str × PV)
  | 0, _, _ => none
  | fuel + 1, vals, parent =>
    if parent = [] then none else
    match vLookup vals parent with
    | some v => if v.deleted then some (parent, v) else findDeletedParent fuel vals (getParentPath parent)
    | none => findDeletedParent fuel vals (getParentPath parent)

/-- `applyChangeToConfig(values, path, value)`. -/
def applyChangeToConfig (values : Values) (path : Str) (value : PV) : Values × Option (Str × PV) :=
  let values := vInsert path value values
  match findDeletedParent (path.length + 1) values (getParentPath path) with
  | some (p, v) => (vErase p values, some (p, v))
  | none => (values, none)

/-- the rollback values computed by `commitChange` (PENDING), ranging over the change in key order. -/
def rollbackValues (committed change : Values) : Values :=
  (change.foldl (fun (st : Values × Values) kv =>
      let (cv, del) := applyChangeToConfig st.1 kv.1 kv.2
      let rb := match del with
        | some (p, v) => vInsert p v st.2
        | none => st.2
      let rb := match vLookup committed kv.1 with
        | some cfgv => vInsert kv.1 cfgv rb
        | none => vInsert kv.1 { path := kv.1, value := [], deleted := true, index := 0 } rb
      (cv, rb)) (committed, [])).2

/-- `addDeleteChildren(index, changeValues, configStore)`, ranging in key order. -/
def addDeleteChildren (index : Nat) (change store : Values) : Values :=
  change.foldl (fun upd kv =>
    let cv := kv.2
    if cv.deleted then
      let upd := store.foldl (fun upd sv =>
        let v := sv.2
        if hasPrefix v.path cv.path && v.path ≠ cv.path then
          vInsert v.path { v with index := index, deleted := true } upd
        else upd) upd
      vInsert cv.path cv upd
    else vInsert cv.path cv upd) []

def insertByPath (pv : PV) : List PV → List PV
  | [] => [pv]
  | q :: rest => if strLt pv.path q.path then pv :: q :: rest else q :: insertByPath pv rest

def sortByPath (l : List PV) : List PV := l.foldr insertByPath []

/-- the loop of `PrunePathValues` over the sorted list. -/
def pruneLoop (leaveTop : Bool) : Str → List PV → List PV
  | _, [] => []
  | deleting, pv :: rest =>
    let start := pv.deleted && (deleting = [] || !hasPrefix pv.path deleting)
    let deleting := if start then pv.path else deleting
    let head := if start && leaveTop then [pv] else []
    if deleting = [] || !hasPrefix pv.path deleting then
      head ++ pv :: pruneLoop leaveTop [] rest
    else
      head ++ pruneLoop leaveTop deleting rest

/-- `tree.PrunePathValues(paths, leaveTopDeletedPaths)`. -/
def prunePathValues (paths : List PV) (leaveTop : Bool) : List PV :=
  pruneLoop leaveTop [] (sortByPath paths)

/-- `tree.BuildTree(values, true)` returns an error: after pruning every deleted subtree, a path
    that holds a leaf value is a proper element-prefix of another path (paths without list keys:
    the leaf is stored as a string where `addPathToTree` expects a map). -/
def treeFails (vals : List PV) : Bool :=
  let ps := (prunePathValues vals false).map (·.path)
  ps.any fun p => ps.any fun q => hasPrefix q (p ++ ['/']) && p ≠ []

/-- the configuration `commitChange` validates: the change laid over a copy of the committed values
    with `applyChangeToConfig`, in key order. -/
def validationValues (committed change : Values) : Values :=
  change.foldl (fun cv kv => (applyChangeToConfig cv kv.1 kv.2).1) committed

/-! ## The configuration store's side map -/

inductive SideOp
  | ins (k : Str)
  | upd (k : Str)
  | rem (k : Str)
deriving DecidableEq, Repr

def SideOp.key : SideOp → Str
  | .ins k | .upd k | .rem k => k

/-- the operations queued by `store(ctx, store, values)`. -/
def storeOps (side values : Values) : List SideOp :=
  let pruned := (prunePathValues (values.map (·.2)) true).map (·.path)
  values.filterMap fun kv =>
    let pv := kv.2
    match vLookup side pv.path with
    | none => if pruned.contains pv.path then some (.ins pv.path) else none
    | some e =>
      if !pruned.contains pv.path then some (.rem pv.path)
      else if pv.index ≠ e.index then some (.upd pv.path)
      else none

def hasDup : List Str → Bool
  | [] => false
  | k :: rest => rest.contains k || hasDup rest

/-- `store`: the queued inserts and updates are encoded when the transaction commits, all from the
    one loop variable, i.e. with the content of the element `last` that the range visited last.
    `none` = the write fails as a whole (two operations on one key). -/
def storeSide (side values : Values) (last : Option Str) : Option Values :=
  let ops := storeOps side values
  if hasDup (ops.map SideOp.key) then none else
  some <| ops.foldl (fun s op =>
    match op with
    | .rem k => vErase k s
    | .ins k | .upd k =>
      let content := match last.bind (vLookup values) with
        | some c => c
        | none => (vLookup values k).getD default
      vInsert k content s) side

/-- whether `last` is needed and admissible for this call. -/
def storeNeedsLast (side values : Values) : Bool :=
  (storeOps side values).any fun op => match op with | .rem _ => false | _ => true

/-! ## Records -/

/-- `TransactionPhaseStatus_State` -/
inductive PS
  | pending | inProgress | complete | aborted | canceled | failed
deriving DecidableEq, Repr, Inhabited

def PS.toNat : PS → Nat
  | .pending => 0 | .inProgress => 1 | .complete => 2 | .aborted => 3 | .canceled => 4 | .failed => 5

inductive Phase
  | change | rollback
deriving DecidableEq, Repr, Inhabited

inductive CState
  | unknown | synchronizing | synchronized | persisted
deriving DecidableEq, Repr, Inhabited

/-- `configapi.Failure_Type` values that the reconciler assigns. -/
inductive Fail
  | unknown | canceled | notFound | alreadyExists | unauthorized | forbidden | conflict | invalid
  | unavailable | notSupported | timeout | internal
deriving DecidableEq, Repr, Inhabited

/-- a transaction record.  `Status.Change.Commit/Apply` are set by the creator (spec AppendChange);
    `Status.Rollback.Commit/Apply` are nil until a rollback is requested (spec RollbackChange). -/
structure Tx where
  phase : Phase := .change
  values : Values := []
  cc : PS := .pending
  ca : PS := .pending
  cord : Nat := 0
  rc : Option PS := none
  ra : Option PS := none
  rord : Nat := 0
  ridx : Nat := 0
  rvals : Values := []
  ccFail : Option Fail := none
  caFail : Option Fail := none
  raFail : Option Fail := none
  ver : Nat := 0
deriving DecidableEq, Repr, Inhabited

/-- the configuration entry (`Committed.Values` is what `UpdateStatus` embedded last). -/
structure Cfg where
  cIndex : Nat := 0
  cChange : Nat := 0
  cTarget : Nat := 0
  cOrdinal : Nat := 0
  cRevision : Nat := 0
  cValues : Values := []
  aIndex : Nat := 0
  aTarget : Nat := 0
  aOrdinal : Nat := 0
  aRevision : Nat := 0
  aTerm : Nat := 0
  state : CState := .unknown
  master : Str := []
  term : Nat := 0
  ver : Nat := 0
deriving DecidableEq, Repr, Inhabited

inductive Stage
  | commit | apply
deriving DecidableEq, Repr, Inhabited

/-- one entry of the ghost `history` of spec/Transaction.tla. -/
structure Event where
  phase : Phase
  stage : Stage
  status : PS
  index : Nat
deriving DecidableEq, Repr, Inhabited

/-- one southbound Set request as the device saw it. -/
structure DevReq where
  election : Nat
  deletes : List Str
  updates : List (Str × Str)
  answer : Str
deriving DecidableEq, Repr, Inhabited

structure Sys where
  txs : List Tx := []
  cfg : Cfg := {}
  cside : Values := []   -- the committed side map (written by `Create` only)
  side : Values := []    -- the applied side map
  entity : Bool := true
  persistent : Bool := false
  rels : List Str := []
  conns : List Str := []
  devUp : Bool := true
  devEpoch : Nat := 1
  dev : List (Str × Str) := []
  hist : List Event := []
deriving DecidableEq, Repr, Inhabited

def getTx (s : Sys) (i : Nat) : Option Tx :=
  if i = 0 then none else s.txs[i - 1]?

def setTx (s : Sys) (i : Nat) (t : Tx) : Sys :=
  if i = 0 then s else { s with txs := s.txs.set (i - 1) t }

/-- what `configurations.Get` returns: the entry, `Committed.Values` overlaid by the committed side
    map (`populate`), `Applied.Values` = the applied side map. -/
structure View where
  c : Cfg
  cVals : Values
  aVals : Values
deriving Repr

def view (s : Sys) : View :=
  { c := s.cfg, cVals := vOverlay s.cfg.cValues s.cside, aVals := s.side }

/-! ## Acts: the store writes of the transaction reconciler -/

inductive Act
  -- commitChange
  | cTarget (i : Nat)
  | tCommitBegin (i ridx : Nat) (rvals : Values)
  | tCommitFailed (i : Nat)
  | cSkip (i : Nat)
  | cCommit (i : Nat) (vals : Values)
  | tCommitDone (i ord : Nat)
  -- applyChange
  | tApplyBegin (i : Nat)
  | tApplyAbort (i : Nat)
  | aSkip (i ord : Nat)
  | aTarget (i : Nat)
  | tApplyDone (i : Nat)
  | tApplyFailed (i : Nat) (f : Fail)
  | aFailed (i ord : Nat)
  | aApply (i ord : Nat) (vals : Values)
  -- commitRollback
  | cRbTarget (i r : Nat)
  | tRbCommitBegin (i : Nat)
  | cRbCommit (i r : Nat) (vals : Values)
  | tRbCommitDone (i ord : Nat)
  -- applyRollback
  | aRbTarget (i r : Nat)
  | tRbApplyBegin (i : Nat)
  | aRbFailed (i ord : Nat)
  | tRbApplyFailed (i : Nat) (f : Fail)
  | aRbApply (i ord r : Nat) (vals : Values)
  | tRbApplyDone (i : Nat)
deriving DecidableEq, Repr

/-- which record an act writes -/
def Act.isCfg : Act → Bool
  | .cTarget _ | .cSkip _ | .cCommit _ _ | .aSkip _ _ | .aTarget _ | .aFailed _ _ | .aApply _ _ _
  | .cRbTarget _ _ | .cRbCommit _ _ _ | .aRbTarget _ _ | .aRbFailed _ _ | .aRbApply _ _ _ _ => true
  | _ => false

/-- the entry fields an act assigns (values are handled by `actValues`). -/
def actCfg (c : Cfg) : Act → Cfg
  | .cTarget i => { c with cTarget := i }
  | .cSkip i => { c with cIndex := i, cChange := i }
  | .cCommit i _ => { c with cIndex := i, cChange := i, cRevision := i, cOrdinal := c.cOrdinal + 1 }
  | .aSkip i ord => { c with aTarget := i, aIndex := i, aOrdinal := ord }
  | .aTarget i => { c with aTarget := i }
  | .aFailed i ord => { c with aIndex := i, aOrdinal := ord }
  | .aApply i ord _ => { c with aIndex := i, aOrdinal := ord, aRevision := i }
  | .cRbTarget _ r => { c with cTarget := r }
  | .cRbCommit i r _ => { c with cIndex := i, cOrdinal := c.cOrdinal + 1, cRevision := r }
  | .aRbTarget _ r => { c with aTarget := r }
  | .aRbFailed i ord => { c with aIndex := i, aOrdinal := ord }
  | .aRbApply i ord r _ => { c with aIndex := i, aOrdinal := ord, aRevision := r }
  | _ => c

def actTx (t : Tx) : Act → Tx
  | .tCommitBegin _ ridx rvals => { t with cc := .inProgress, ridx := ridx, rvals := rvals }
  | .tCommitFailed _ => { t with cc := .failed, ccFail := some .invalid, ca := .canceled }
  | .tCommitDone _ ord => { t with cc := .complete, cord := ord }
  | .tApplyBegin _ => { t with ca := .inProgress }
  | .tApplyAbort _ => { t with ca := .aborted }
  | .tApplyDone _ => { t with ca := .complete }
  | .tApplyFailed _ f => { t with ca := .failed, caFail := some f }
  | .tRbCommitBegin _ => { t with rc := some .inProgress }
  | .tRbCommitDone _ ord => { t with rc := some .complete, rord := ord }
  | .tRbApplyBegin _ => { t with ra := some .inProgress }
  | .tRbApplyFailed _ f => { t with ra := some .failed, raFail := some f }
  | .tRbApplyDone _ => { t with ra := some .complete }
  | _ => t

def Act.txIndex : Act → Nat
  | .tCommitBegin i _ _ | .tCommitFailed i | .tCommitDone i _ | .tApplyBegin i | .tApplyAbort i
  | .tApplyDone i | .tApplyFailed i _ | .tRbCommitBegin i | .tRbCommitDone i _ | .tRbApplyBegin i
  | .tRbApplyFailed i _ | .tRbApplyDone i => i
  | _ => 0

/-- the ghost event spec/Transaction.tla appends together with this write (rbk.apply.Failed is
    not in the spec: the spec does not model a rejected rollback). -/
def actEvent : Act → Option Event
  | .cTarget i => some ⟨.change, .commit, .inProgress, i⟩
  | .cCommit i _ => some ⟨.change, .commit, .complete, i⟩
  | .tCommitFailed i => some ⟨.change, .commit, .failed, i⟩
  | .aTarget i => some ⟨.change, .apply, .inProgress, i⟩
  | .aApply i _ _ => some ⟨.change, .apply, .complete, i⟩
  | .tApplyAbort i => some ⟨.change, .apply, .aborted, i⟩
  | .tApplyFailed i _ => some ⟨.change, .apply, .failed, i⟩
  | .cRbTarget i _ => some ⟨.rollback, .commit, .inProgress, i⟩
  | .cRbCommit i _ _ => some ⟨.rollback, .commit, .complete, i⟩
  | .aRbTarget i _ => some ⟨.rollback, .apply, .inProgress, i⟩
  | .aRbApply i _ _ _ => some ⟨.rollback, .apply, .complete, i⟩
  | .tRbApplyFailed i _ => some ⟨.rollback, .apply, .failed, i⟩
  | _ => none

/-- in-memory `Committed.Values` / `Applied.Values` at the time of a configuration write. -/
def actValues (v : View) : Act → Values × Values
  | .cCommit _ vals => (vOverlay v.cVals vals, v.aVals)
  | .cRbCommit _ _ vals => (vOverlay v.cVals vals, v.aVals)
  | .aApply _ _ vals => (v.cVals, vOverlay v.aVals vals)
  | .aRbApply _ _ _ vals => (v.cVals, vOverlay v.aVals vals)
  | _ => (v.cVals, v.aVals)

/-- the side-map half of `UpdateStatus` alone (the entry CAS conflicts, or the process dies in
    between); a failing side-map transaction writes nothing. -/
def sideWrite (s : Sys) (aVals : Values) (last : Option Str) : Sys :=
  match storeSide s.side aVals last with
  | none => s
  | some side => { s with side := side }

def addEvent (s : Sys) (a : Act) : Sys :=
  match actEvent a with
  | some e => { s with hist := s.hist ++ [e] }
  | none => s

/-- the effect of one act whose CAS succeeds, on the state it was planned in.  A configuration act
    is `configurations.UpdateStatus`: side-map transaction (`store`), then the entry with the
    caller's `Committed.Values` embedded; if the side-map transaction fails (a conflict error)
    nothing is written. -/
def applyAct (s : Sys) (a : Act) (last : Option Str) : Sys :=
  if a.isCfg then
    let vals := actValues (view s) a
    match storeSide s.side vals.2 last with
    | none => s
    | some side =>
      addEvent { s with side := side,
                        cfg := { actCfg s.cfg a with cValues := vals.1, ver := s.cfg.ver + 1 } } a
  else
    match getTx s a.txIndex with
    | some t => addEvent (setTx s a.txIndex { actTx t a with ver := t.ver + 1 }) a
    | none => s

/-! ## Device -/

def under (q p : Str) : Bool :=
  q = p || (hasPrefix q p && (match q.drop p.length with | c :: _ => c = '/' || c = '[' | [] => false))

def insertStr (x : Str) : List Str → List Str
  | [] => [x]
  | y :: rest => if strLt x y then x :: y :: rest else y :: insertStr x rest

def sortStrs (l : List Str) : List Str := l.foldr insertStr []

def dInsert (k v : Str) : List (Str × Str) → List (Str × Str)
  | [] => [(k, v)]
  | (k', v') :: rest =>
    if strLt k k' then (k, v) :: (k', v') :: rest
    else if k = k' then (k, v) :: rest
    else (k', v') :: dInsert k v rest

def insertUpd (x : Str × Str) : List (Str × Str) → List (Str × Str)
  | [] => [x]
  | y :: rest =>
    if strLt (x.1 ++ '=' :: x.2) (y.1 ++ '=' :: y.2) then x :: y :: rest else y :: insertUpd x rest

/-- `PrunePathValues(…, true)` then `PathValuesToGnmiChange`; `none` = a path does not parse. -/
def mkRequest (values : Values) (election : Nat) : Option DevReq :=
  let pvs := prunePathValues (values.map (·.2)) true
  let render (p : Str) : Option Str :=
    match OnosVerif.Path.parsePath p with
    | .ok g => some (OnosVerif.Path.strPathElem g)
    | .error _ => none
  match pvs.mapM (fun pv => (render pv.path).map fun r => (r, pv)) with
  | none => none
  | some l =>
    some { election := election,
           deletes := sortStrs ((l.filter (·.2.deleted)).map (·.1)),
           updates := ((l.filter (!·.2.deleted)).map fun x => (x.1, x.2.value)).foldr insertUpd [],
           answer := [] }

/-- the fake device of the harness: deletes remove the subtree, then updates are applied. -/
def devApply (dev : List (Str × Str)) (r : DevReq) : List (Str × Str) :=
  let dev := dev.filter fun kv => !(r.deletes.any fun p => under kv.1 p)
  r.updates.foldl (fun d u => dInsert u.1 u.2 d) dev

/-- `PathValuesToGnmiChange` succeeds -/
def sendable (values : Values) : Bool := (mkRequest values 0).isSome

/-! ## The transaction reconciler -/

inductive Verdict
  | valid | invalid | noPlugin
deriving DecidableEq, Repr, Inhabited

/-- how the device answers a Set (after `errors.FromGRPC` and `errorCode`, i.e. the gRPC code the
    reconciler's switch sees). -/
inductive DevAns
  | ok | unknown | canceled | notFound | alreadyExists | unauthenticated | permissionDenied
  | failedPrecondition | invalidArgument | unavailable | unimplemented | deadlineExceeded | internal
deriving DecidableEq, Repr, Inhabited

inductive AnsClass
  | ok | retry | superseded | fail (f : Fail)
deriving DecidableEq, Repr

/-- the Go name of the gRPC code (`codes.X`) -/
def DevAns.codeName : DevAns → String
  | .ok => "OK" | .unknown => "Unknown" | .canceled => "Canceled" | .notFound => "NotFound"
  | .alreadyExists => "AlreadyExists" | .unauthenticated => "Unauthenticated"
  | .permissionDenied => "PermissionDenied" | .failedPrecondition => "FailedPrecondition"
  | .invalidArgument => "InvalidArgument" | .unavailable => "Unavailable"
  | .unimplemented => "Unimplemented" | .deadlineExceeded => "DeadlineExceeded" | .internal => "Internal"

/-- `configapi.Failure_X` by name (the zero value is UNKNOWN) -/
def failOfName : String → Fail
  | "CANCELED" => .canceled | "NOT_FOUND" => .notFound | "ALREADY_EXISTS" => .alreadyExists
  | "UNAUTHORIZED" => .unauthorized | "FORBIDDEN" => .forbidden | "CONFLICT" => .conflict
  | "INVALID" => .invalid | "UNAVAILABLE" => .unavailable | "NOT_SUPPORTED" => .notSupported
  | "TIMEOUT" => .timeout | "INTERNAL" => .internal | _ => .unknown

def lookupS (t : List (String × String)) (k : String) : Option String :=
  (t.find? (·.1 == k)).map (·.2)

/-- the two nested switches on `errorCode(err)`, driven by the tables the translator regenerates
    from the current source (`OnosVerif.Generated.v3ApplyOuter` / `v3ApplyFailure` and the
    `v3Rollback…` pair): a code of the outer table makes the invocation return the error (retry) or
    nil (superseded); every other code fails the phase with the failure type of the inner table. -/
def classifyWith (outer inner : List (String × String)) (ans : DevAns) : AnsClass :=
  if ans = .ok then .ok else
  match lookupS outer ans.codeName with
  | some "retry" => .retry
  | some _ => .superseded
  | none => .fail (((lookupS inner ans.codeName).map failOfName).getD .unknown)

def classify : DevAns → AnsClass :=
  classifyWith OnosVerif.Generated.v3ApplyOuter OnosVerif.Generated.v3ApplyFailure

def classifyRb : DevAns → AnsClass :=
  classifyWith OnosVerif.Generated.v3RbOuter OnosVerif.Generated.v3RbFailure

inductive Panic
  | nilMap | nilPtr
deriving DecidableEq, Repr

/-- what one invocation intends to do. -/
structure Plan where
  send : Option Values := none   -- values handed to `applyValues` when it reaches `conn.Set`
  acts : List Act := []
  requeue : Option Nat := none
  err : Bool := false            -- the code itself returns an error (retryable device answer)
  failNil : Bool := false        -- a failing first write is answered with a nil error (commitRollback)
deriving Repr

/-- `x - 1` on a uint64 (`Ordinal`): wraps at zero. -/
def pred64 (n : Nat) : Nat := if n = 0 then 18446744073709551615 else n - 1

/-- `State <= IN_PROGRESS` -/
def PS.leInProgress (p : PS) : Bool := p.toNat ≤ 1
/-- `State < COMPLETE` -/
def PS.ltComplete (p : PS) : Bool := p.toNat < 2

/-- the guards of `applyValues` before `conn.Set`; `true` = the request is sent. -/
def canSend (s : Sys) (c : Cfg) : Bool :=
  c.state ≠ .synchronizing && s.entity && !(c.aTerm < c.term) && c.master ≠ [] &&
  s.rels.contains c.master && s.conns.contains c.master

/-- what a branch of the reconciler comes to: `fall` = `ok == false` (nothing done, the caller
    falls through), a plan, or a panic (nil map assignment, nil `Rollback.Commit/Apply`). -/
inductive Outcome
  | fall
  | plan (p : Plan)
  | panic (p : Panic)
deriving Repr

/-- the `prevTransaction` test of `commitChange` (PENDING): `some true` = wait, `some false` = go
    on, `none` = `prevTransaction.Status.Rollback.Commit` is nil and is dereferenced. -/
def prevBusyCommit (s : Sys) (c : Cfg) : Option Bool :=
  match getTx s c.cIndex with
  | none => some false
  | some p =>
    if c.cTarget = c.cIndex && p.cc.leInProgress then some true
    else if c.cTarget < c.cIndex then p.rc.map PS.leInProgress
    else some false

/-- the `prevTransaction` test of `applyChange` (PENDING). -/
def prevBusyApply (s : Sys) (c : Cfg) : Option Bool :=
  match getTx s c.aIndex with
  | none => some false
  | some p =>
    if c.aTarget = c.aIndex && p.ca.leInProgress then some true
    else if c.aTarget < c.aIndex then p.ra.map PS.leInProgress
    else some false

/-- the `prevTransaction` test of `commitRollback` (PENDING). -/
def prevBusyRbCommit (s : Sys) (c : Cfg) (i : Nat) : Option Bool :=
  match getTx s c.cIndex with
  | none => some false
  | some p =>
    if c.cIndex = i && p.cc ≠ .complete then some true
    else if c.cIndex > i then p.rc.map (· ≠ .complete)
    else some false

/-- the `prevTransaction` test of `applyRollback` where it aborts a pending change apply. -/
def prevBusyRbAbort (s : Sys) (c : Cfg) : Option Bool :=
  match getTx s c.aIndex with
  | none => some false
  | some p =>
    if c.aTarget = c.aIndex && p.ca.ltComplete then some true
    else if c.aTarget < c.aIndex then p.ra.map PS.ltComplete
    else some false

/-- the `prevTransaction` test of `applyRollback` before it moves the applied target. -/
def prevBusyRbApply (s : Sys) (c : Cfg) (i : Nat) : Option Bool :=
  match getTx s c.aIndex with
  | none => some false
  | some p =>
    if c.aIndex = i && p.ca.ltComplete then some true
    else if c.aIndex > i then p.ra.map PS.ltComplete
    else some false

/-- `commitChange` -/
def commitChange (s : Sys) (i : Nat) (t : Tx) (v : View) (verdict : Verdict) : Outcome :=
  let c := v.c
  match t.cc with
  | .pending =>
    if c.cChange ≠ i - 1 then .fall
    else if c.cTarget = i then
      .plan { acts := [.tCommitBegin i c.cRevision (rollbackValues v.cVals t.values)] }
    else if c.cIndex ≠ c.cTarget then .fall
    else match prevBusyCommit s c with
      | none => .panic .nilPtr
      | some true => .fall
      | some false =>
        .plan { acts := [.cTarget i, .tCommitBegin i c.cRevision (rollbackValues v.cVals t.values)] }
  | .inProgress =>
    if c.cChange = i then
      .plan { acts := [.tCommitDone i c.cOrdinal], requeue := some (i + 1) }
    else if treeFails ((validationValues v.cVals t.values).map (·.2)) then
      .plan { err := true }
    else match verdict with
      | .noPlugin | .invalid => .plan { acts := [.tCommitFailed i, .cSkip i] }
      | .valid =>
        -- `configuration.Committed.Values[path] = value` on a nil map
        if v.cVals.isEmpty && !t.values.isEmpty then .panic .nilMap
        else .plan { acts := [.cCommit i t.values, .tCommitDone i (c.cOrdinal + 1)], requeue := some (i + 1) }
  | .failed =>
    if c.cChange < i then .plan { acts := [.cSkip i] } else .fall
  | _ => .fall

/-- the tail shared by the IN_PROGRESS branches of `applyChange` and `applyRollback` after
    `applyValues`: `okActs` on success, `failActs f` on a rejected request.  `sendable` = the
    SetRequest could be built (every path parses). -/
def afterSend (s : Sys) (c : Cfg) (values : Values) (cls : AnsClass) (i : Nat)
    (okActs : List Act) (failActs : Fail → List Act) : Plan :=
  if !canSend s c || !sendable values then {} else
  match cls with
  | .ok => { send := some values, acts := okActs, requeue := some (i + 1) }
  | .retry => { send := some values, err := true }
  | .superseded => { send := some values }
  | .fail f => { send := some values, acts := failActs f }

/-- `applyChange` -/
def applyChange (s : Sys) (i : Nat) (t : Tx) (v : View) (ans : DevAns) : Outcome :=
  let c := v.c
  if t.cc ≠ .complete then .fall else
  match t.ca with
  | .pending =>
    if c.aOrdinal ≠ pred64 t.cord then .fall
    else if c.aTarget = i then .plan { acts := [.tApplyBegin i] }
    else match prevBusyApply s c with
      | none => .panic .nilPtr
      | some true => .fall
      | some false =>
        if c.aRevision < t.ridx then .plan { acts := [.tApplyAbort i, .aSkip i t.cord] }
        else .plan { acts := [.aTarget i, .tApplyBegin i] }
  | .inProgress =>
    if c.aOrdinal = t.cord && c.aRevision = i then
      .plan { acts := [.tApplyDone i], requeue := some (i + 1) }
    else
      let values := addDeleteChildren i t.values v.cVals
      .plan (afterSend s c values (classify ans) i
        [.aApply i t.cord values, .tApplyDone i]
        (fun f => [.tApplyFailed i f, .aFailed i t.cord]))
  | .aborted | .failed =>
    if c.aOrdinal < t.cord then .plan { acts := [.aSkip i t.cord] } else .fall
  | _ => .fall

/-- `commitRollback` -/
def commitRollback (s : Sys) (i : Nat) (t : Tx) (v : View) : Outcome :=
  let c := v.c
  match t.rc with
  | some .pending =>
    if c.cRevision ≠ i then .fall
    else if c.cTarget = i then
      if c.cIndex ≠ c.cTarget then .fall
      else match prevBusyRbCommit s c i with
        | none => .panic .nilPtr
        | some true => .fall
        | some false => .plan { acts := [.cRbTarget i t.ridx, .tRbCommitBegin i], failNil := true }
    else if c.cTarget = t.ridx then .plan { acts := [.tRbCommitBegin i], failNil := true }
    else .fall
  | some .inProgress =>
    if c.cRevision = i then
      if v.cVals.isEmpty && !t.rvals.isEmpty then .panic .nilMap
      else .plan { acts := [.cRbCommit i t.ridx t.rvals, .tRbCommitDone i (c.cOrdinal + 1)] }
    else .plan { acts := [.tRbCommitDone i c.cOrdinal] }
  | _ => .fall

/-- the part of `applyRollback` (rollback apply PENDING) that first finishes the change's own apply
    phase: `fall` here means "go on to the rollback apply proper". -/
def finishChangeApply (s : Sys) (i : Nat) (t : Tx) (c : Cfg) : Outcome × Bool :=
  match t.ca with
  | .pending =>
    if c.aOrdinal = pred64 t.cord && c.aTarget ≠ i then
      match prevBusyRbAbort s c with
      | none => (.panic .nilPtr, true)
      | some true => (.fall, true)
      | some false => (.plan { acts := [.tApplyAbort i, .aSkip i t.cord] }, true)
    else (.fall, true)
  | .inProgress =>
    if c.aOrdinal ≠ t.cord then (.plan { acts := [.tApplyFailed i .canceled, .aSkip i t.cord] }, true)
    else (.fall, true)
  | .aborted | .failed =>
    if c.aOrdinal < t.cord then (.plan { acts := [.aSkip i t.cord] }, true) else (.fall, false)
  | _ => (.fall, false)

/-- `applyRollback` -/
def applyRollback (s : Sys) (i : Nat) (t : Tx) (v : View) (ans : DevAns) : Outcome :=
  let c := v.c
  match t.rc, t.ra with
  | some .complete, some .pending =>
    let (o, stop) := finishChangeApply s i t c
    if stop then o
    else if c.aOrdinal ≠ pred64 t.rord then .fall
    else if c.aTarget = t.ridx then .plan { acts := [.tRbApplyBegin i] }
    else match prevBusyRbApply s c i with
      | none => .panic .nilPtr
      | some true => .fall
      | some false => .plan { acts := [.aRbTarget i t.ridx, .tRbApplyBegin i] }
  | some .complete, some .inProgress =>
    if c.aOrdinal = t.rord && c.aRevision = t.ridx then
      .plan { acts := [.tRbApplyDone i], requeue := some (i + 1) }
    else
      let values := addDeleteChildren i t.rvals v.cVals
      .plan (afterSend s c values (classifyRb ans) i
        [.aRbApply i t.rord t.ridx values, .tRbApplyDone i]
        (fun f => [.aRbFailed i t.rord, .tRbApplyFailed i f]))
  | _, _ => .fall

/-- `first` unless it fell through -/
def Outcome.orElse (a b : Outcome) : Outcome :=
  match a with
  | .fall => b
  | x => x

/-- `Reconcile` → `reconcileTransaction` → `reconcileChange` / `reconcileRollback` -/
def planTx (s : Sys) (i : Nat) (verdict : Verdict) (ans : DevAns) : Outcome :=
  match getTx s i with
  | none => .fall
  | some t =>
    let v := view s
    match t.phase with
    | .change => (commitChange s i t v verdict).orElse (applyChange s i t v ans)
    | .rollback => (commitRollback s i t v).orElse (applyRollback s i t v ans)

end OnosVerif.V3
