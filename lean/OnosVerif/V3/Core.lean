/-
The protocol core of the v3 twin: what is left of the state when path values, record versions,
mastership and the device are forgotten — the per-transaction phase states and ordinals, the
configuration's progress cursors and the ghost history.  The transaction reconciler's control flow
reads nothing else, so its branches can be stated as guards over the core (`Enabled`), and the
invariants of the protocol are invariants of the small transition system `CStep`.

`OnosVerif/Proofs/V3Bridge.lean` proves that every step of the twin (`step`) under a schedule
without swallowed conflicts is a stutter or a short sequence of `CStep`s.
-/
import OnosVerif.V3.System

namespace OnosVerif.V3

/-- the protocol fields of a transaction record -/
structure TxC where
  phase : Phase := .change
  cc : PS := .pending
  ca : PS := .pending
  rc : Option PS := none
  ra : Option PS := none
  cord : Nat := 0
  rord : Nat := 0
  ridx : Nat := 0
deriving DecidableEq, Repr, Inhabited

/-- the progress cursors of the configuration -/
structure Cur where
  cIndex : Nat := 0
  cChange : Nat := 0
  cTarget : Nat := 0
  cOrdinal : Nat := 0
  cRevision : Nat := 0
  aIndex : Nat := 0
  aTarget : Nat := 0
  aOrdinal : Nat := 0
  aRevision : Nat := 0
deriving DecidableEq, Repr, Inhabited

structure Core where
  txs : List TxC := []
  cur : Cur := {}
  hist : List Event := []
deriving DecidableEq, Repr, Inhabited

def Tx.core (t : Tx) : TxC :=
  { phase := t.phase, cc := t.cc, ca := t.ca, rc := t.rc, ra := t.ra, cord := t.cord, rord := t.rord, ridx := t.ridx }

def Cfg.cur (c : Cfg) : Cur :=
  { cIndex := c.cIndex, cChange := c.cChange, cTarget := c.cTarget, cOrdinal := c.cOrdinal, cRevision := c.cRevision,
    aIndex := c.aIndex, aTarget := c.aTarget, aOrdinal := c.aOrdinal, aRevision := c.aRevision }

def core (s : Sys) : Core := { txs := s.txs.map Tx.core, cur := s.cfg.cur, hist := s.hist }

/-- transaction `i` (1-based) -/
def Core.tx (k : Core) (i : Nat) : Option TxC := if i = 0 then none else k.txs[i - 1]?

def Core.setTx (k : Core) (i : Nat) (t : TxC) : Core :=
  if i = 0 then k else { k with txs := k.txs.set (i - 1) t }

/-! ## The acts on the core -/

def cActTx (t : TxC) : Act → TxC
  | .tCommitBegin _ ridx _ => { t with cc := .inProgress, ridx := ridx }
  | .tCommitFailed _ => { t with cc := .failed, ca := .canceled }
  | .tCommitDone _ ord => { t with cc := .complete, cord := ord }
  | .tApplyBegin _ => { t with ca := .inProgress }
  | .tApplyAbort _ => { t with ca := .aborted }
  | .tApplyDone _ => { t with ca := .complete }
  | .tApplyFailed _ _ => { t with ca := .failed }
  | .tRbCommitBegin _ => { t with rc := some .inProgress }
  | .tRbCommitDone _ ord => { t with rc := some .complete, rord := ord }
  | .tRbApplyBegin _ => { t with ra := some .inProgress }
  | .tRbApplyFailed _ _ => { t with ra := some .failed }
  | .tRbApplyDone _ => { t with ra := some .complete }
  | _ => t

def cActCur (c : Cur) : Act → Cur
  | .cTarget i => { c with cTarget := i }
  | .cSkip i => { c with cIndex := i, cChange := i }
  | .cCommit i _ => { c with cIndex := i, cChange := i, cRevision := i, cOrdinal := c.cOrdinal + 1 }
  | .aSkip i ord => { c with aTarget := i, aIndex := i, aOrdinal := ord }
  | .aTarget i => { c with aTarget := i }
  | .aFailed i ord => { c with aIndex := i, aOrdinal := ord }
  | .aApply i ord _ => { c with aIndex := i, aOrdinal := ord, aRevision := i }
  | .cRbTarget _ r => { c with cTarget := r }
  | .cRbCommit i r _ => { c with cIndex := i, cOrdinal := c.cOrdinal + 1, cRevision := r }
  | .aRbTarget _ r => { c with aTarget := r }
  | .aRbFailed i ord => { c with aIndex := i, aOrdinal := ord }
  | .aRbApply i ord r _ => { c with aIndex := i, aOrdinal := ord, aRevision := r }
  | _ => c

def Core.addEvent (k : Core) (a : Act) : Core :=
  match actEvent a with
  | some e => { k with hist := k.hist ++ [e] }
  | none => k

/-- the effect of a successful write on the core -/
def cAct (k : Core) (a : Act) : Core :=
  if a.isCfg then ({ k with cur := cActCur k.cur a } : Core).addEvent a
  else
    match k.tx a.txIndex with
    | some t => (k.setTx a.txIndex (cActTx t a)).addEvent a
    | none => k

/-! ## The guards of the reconciler, over the core -/

def cPrevBusyCommit (k : Core) : Option Bool :=
  match k.tx k.cur.cIndex with
  | none => some false
  | some p =>
    if k.cur.cTarget = k.cur.cIndex && p.cc.leInProgress then some true
    else if k.cur.cTarget < k.cur.cIndex then p.rc.map PS.leInProgress
    else some false

def cPrevBusyApply (k : Core) : Option Bool :=
  match k.tx k.cur.aIndex with
  | none => some false
  | some p =>
    if k.cur.aTarget = k.cur.aIndex && p.ca.leInProgress then some true
    else if k.cur.aTarget < k.cur.aIndex then p.ra.map PS.leInProgress
    else some false

def cPrevBusyRbCommit (k : Core) (i : Nat) : Option Bool :=
  match k.tx k.cur.cIndex with
  | none => some false
  | some p =>
    if k.cur.cIndex = i && p.cc ≠ .complete then some true
    else if k.cur.cIndex > i then p.rc.map (· ≠ .complete)
    else some false

def cPrevBusyRbAbort (k : Core) : Option Bool :=
  match k.tx k.cur.aIndex with
  | none => some false
  | some p =>
    if k.cur.aTarget = k.cur.aIndex && p.ca.ltComplete then some true
    else if k.cur.aTarget < k.cur.aIndex then p.ra.map PS.ltComplete
    else some false

def cPrevBusyRbApply (k : Core) (i : Nat) : Option Bool :=
  match k.tx k.cur.aIndex with
  | none => some false
  | some p =>
    if k.cur.aIndex = i && p.ca.ltComplete then some true
    else if k.cur.aIndex > i then p.ra.map PS.ltComplete
    else some false

/-- `Enabled k i t acts`: in core state `k`, reconciling transaction `i` (whose record is `t`)
    takes a branch whose store writes are `acts`, in this order.  One constructor per branch of
    `commitChange` / `applyChange` / `commitRollback` / `applyRollback` that writes. -/
inductive Enabled (k : Core) (i : Nat) (t : TxC) : List Act → Prop
  -- commitChange
  | commitBegin (rv : Values) (hp : t.phase = .change) (hcc : t.cc = .pending)
      (hK : k.cur.cChange = i - 1) (hT : k.cur.cTarget ≠ i) (hI : k.cur.cIndex = k.cur.cTarget)
      (hB : cPrevBusyCommit k = some false) :
      Enabled k i t [.cTarget i, .tCommitBegin i k.cur.cRevision rv]
  | commitBeginResume (rv : Values) (hp : t.phase = .change) (hcc : t.cc = .pending)
      (hK : k.cur.cChange = i - 1) (hT : k.cur.cTarget = i) :
      Enabled k i t [.tCommitBegin i k.cur.cRevision rv]
  | commitRecover (hp : t.phase = .change) (hcc : t.cc = .inProgress) (hK : k.cur.cChange = i) :
      Enabled k i t [.tCommitDone i k.cur.cOrdinal]
  | commitValid (vals : Values) (hp : t.phase = .change) (hcc : t.cc = .inProgress) (hK : k.cur.cChange ≠ i) :
      Enabled k i t [.cCommit i vals, .tCommitDone i (k.cur.cOrdinal + 1)]
  | commitInvalid (hp : t.phase = .change) (hcc : t.cc = .inProgress) (hK : k.cur.cChange ≠ i) :
      Enabled k i t [.tCommitFailed i, .cSkip i]
  | commitFailedRecover (hp : t.phase = .change) (hcc : t.cc = .failed) (hK : k.cur.cChange < i) :
      Enabled k i t [.cSkip i]
  -- applyChange
  | applyBeginResume (hp : t.phase = .change) (hcc : t.cc = .complete) (hca : t.ca = .pending)
      (hO : k.cur.aOrdinal = pred64 t.cord) (hT : k.cur.aTarget = i) :
      Enabled k i t [.tApplyBegin i]
  | applyAbort (hp : t.phase = .change) (hcc : t.cc = .complete) (hca : t.ca = .pending)
      (hO : k.cur.aOrdinal = pred64 t.cord) (hT : k.cur.aTarget ≠ i) (hB : cPrevBusyApply k = some false)
      (hR : k.cur.aRevision < t.ridx) :
      Enabled k i t [.tApplyAbort i, .aSkip i t.cord]
  | applyBegin (hp : t.phase = .change) (hcc : t.cc = .complete) (hca : t.ca = .pending)
      (hO : k.cur.aOrdinal = pred64 t.cord) (hT : k.cur.aTarget ≠ i) (hB : cPrevBusyApply k = some false)
      (hR : ¬ k.cur.aRevision < t.ridx) :
      Enabled k i t [.aTarget i, .tApplyBegin i]
  | applyRecover (hp : t.phase = .change) (hcc : t.cc = .complete) (hca : t.ca = .inProgress)
      (hO : k.cur.aOrdinal = t.cord) (hR : k.cur.aRevision = i) :
      Enabled k i t [.tApplyDone i]
  | applyOk (vals : Values) (hp : t.phase = .change) (hcc : t.cc = .complete) (hca : t.ca = .inProgress)
      (hN : ¬ (k.cur.aOrdinal = t.cord ∧ k.cur.aRevision = i)) :
      Enabled k i t [.aApply i t.cord vals, .tApplyDone i]
  | applyFail (f : Fail) (hp : t.phase = .change) (hcc : t.cc = .complete) (hca : t.ca = .inProgress)
      (hN : ¬ (k.cur.aOrdinal = t.cord ∧ k.cur.aRevision = i)) :
      Enabled k i t [.tApplyFailed i f, .aFailed i t.cord]
  | applySkip (hp : t.phase = .change) (hcc : t.cc = .complete) (hca : t.ca = .aborted ∨ t.ca = .failed)
      (hO : k.cur.aOrdinal < t.cord) :
      Enabled k i t [.aSkip i t.cord]
  -- commitRollback
  | rbCommitBegin (hp : t.phase = .rollback) (hrc : t.rc = some .pending)
      (hR : k.cur.cRevision = i) (hT : k.cur.cTarget = i) (hI : k.cur.cIndex = k.cur.cTarget)
      (hB : cPrevBusyRbCommit k i = some false) :
      Enabled k i t [.cRbTarget i t.ridx, .tRbCommitBegin i]
  | rbCommitBeginResume (hp : t.phase = .rollback) (hrc : t.rc = some .pending)
      (hR : k.cur.cRevision = i) (hT : k.cur.cTarget ≠ i) (hT' : k.cur.cTarget = t.ridx) :
      Enabled k i t [.tRbCommitBegin i]
  | rbCommit (vals : Values) (hp : t.phase = .rollback) (hrc : t.rc = some .inProgress) (hR : k.cur.cRevision = i) :
      Enabled k i t [.cRbCommit i t.ridx vals, .tRbCommitDone i (k.cur.cOrdinal + 1)]
  | rbCommitRecover (hp : t.phase = .rollback) (hrc : t.rc = some .inProgress) (hR : k.cur.cRevision ≠ i) :
      Enabled k i t [.tRbCommitDone i k.cur.cOrdinal]
  -- applyRollback
  | rbAbortPending (hp : t.phase = .rollback) (hrc : t.rc = some .complete) (hra : t.ra = some .pending)
      (hca : t.ca = .pending) (hO : k.cur.aOrdinal = pred64 t.cord) (hT : k.cur.aTarget ≠ i)
      (hB : cPrevBusyRbAbort k = some false) :
      Enabled k i t [.tApplyAbort i, .aSkip i t.cord]
  | rbCancelInProgress (hp : t.phase = .rollback) (hrc : t.rc = some .complete) (hra : t.ra = some .pending)
      (hca : t.ca = .inProgress) (hO : k.cur.aOrdinal ≠ t.cord) :
      Enabled k i t [.tApplyFailed i .canceled, .aSkip i t.cord]
  | rbSkip (hp : t.phase = .rollback) (hrc : t.rc = some .complete) (hra : t.ra = some .pending)
      (hca : t.ca = .aborted ∨ t.ca = .failed) (hO : k.cur.aOrdinal < t.cord) :
      Enabled k i t [.aSkip i t.cord]
  | rbApplyBeginResume (hp : t.phase = .rollback) (hrc : t.rc = some .complete) (hra : t.ra = some .pending)
      (hca : t.ca = .complete ∨ t.ca = .canceled ∨ ((t.ca = .aborted ∨ t.ca = .failed) ∧ ¬ k.cur.aOrdinal < t.cord))
      (hO : k.cur.aOrdinal = pred64 t.rord) (hT : k.cur.aTarget = t.ridx) :
      Enabled k i t [.tRbApplyBegin i]
  | rbApplyBegin (hp : t.phase = .rollback) (hrc : t.rc = some .complete) (hra : t.ra = some .pending)
      (hca : t.ca = .complete ∨ t.ca = .canceled ∨ ((t.ca = .aborted ∨ t.ca = .failed) ∧ ¬ k.cur.aOrdinal < t.cord))
      (hO : k.cur.aOrdinal = pred64 t.rord) (hT : k.cur.aTarget ≠ t.ridx) (hB : cPrevBusyRbApply k i = some false) :
      Enabled k i t [.aRbTarget i t.ridx, .tRbApplyBegin i]
  | rbApplyRecover (hp : t.phase = .rollback) (hrc : t.rc = some .complete) (hra : t.ra = some .inProgress)
      (hO : k.cur.aOrdinal = t.rord) (hR : k.cur.aRevision = t.ridx) :
      Enabled k i t [.tRbApplyDone i]
  | rbApplyOk (vals : Values) (hp : t.phase = .rollback) (hrc : t.rc = some .complete) (hra : t.ra = some .inProgress)
      (hN : ¬ (k.cur.aOrdinal = t.rord ∧ k.cur.aRevision = t.ridx)) :
      Enabled k i t [.aRbApply i t.rord t.ridx vals, .tRbApplyDone i]
  | rbApplyFail (f : Fail) (hp : t.phase = .rollback) (hrc : t.rc = some .complete) (hra : t.ra = some .inProgress)
      (hN : ¬ (k.cur.aOrdinal = t.rord ∧ k.cur.aRevision = t.ridx)) :
      Enabled k i t [.aRbFailed i t.rord, .tRbApplyFailed i f]

/-! ## The transition system of the core -/

def freshTx : TxC := {}

/-- spec RollbackChange on the core -/
def cCanRollback (t : TxC) : Bool := t.phase = .change && t.cc = .complete

def cRollback (t : TxC) : TxC := { t with phase := .rollback, rc := some .pending, ra := some .pending }

/-- one step of the core under schedules without swallowed conflicts: a northbound request, or
    the first write of an enabled branch, or both writes of a two-write branch. -/
inductive CStep : Core → Core → Prop
  | append (k : Core) : CStep k { k with txs := k.txs ++ [freshTx] }
  | rollback (k : Core) (i : Nat) (t : TxC) (ht : k.tx i = some t) (hc : cCanRollback t = true) :
      CStep k (k.setTx i (cRollback t))
  | first (k : Core) (i : Nat) (t : TxC) (a : Act) (rest : List Act) (ht : k.tx i = some t)
      (he : Enabled k i t (a :: rest)) : CStep k (cAct k a)
  | both (k : Core) (i : Nat) (t : TxC) (a b : Act) (ht : k.tx i = some t)
      (he : Enabled k i t [a, b]) : CStep k (cAct (cAct k a) b)

inductive CReach : Core → Prop
  | init : CReach {}
  | step (k k' : Core) (h : CReach k) (hs : CStep k k') : CReach k'

end OnosVerif.V3
