/-
Bridge between the twin of the v3 transaction reconciler (`V3/Model.lean`) and the control skeletons
regenerated from pkg/controller/v3/transaction/controller.go (`Generated.v3sk_*`, translator
`harness/cmd/extract/skelsym.go`: the symbolic variant — a field read after it was assigned in the
same invocation sees the assigned term, so the skeleton is a function of the state at the START of
the invocation, like the twin's plans).
-/
import OnosVerif.V2.SkelTypes
import OnosVerif.V3.Model

namespace OnosVerif.V3.Skel
open OnosVerif.Generated (V2G Tok)
open OnosVerif.V3

def constCode (k : String) : Nat :=
  match k with
  | "configapi.TransactionPhaseStatus_PENDING" => 0
  | "configapi.TransactionPhaseStatus_IN_PROGRESS" => 1
  | "configapi.TransactionPhaseStatus_COMPLETE" => 2
  | "configapi.TransactionPhaseStatus_ABORTED" => 3
  | "configapi.TransactionPhaseStatus_CANCELED" => 4
  | "configapi.TransactionPhaseStatus_FAILED" => 5
  | "configapi.TransactionStatus_CHANGE" => 0
  | "configapi.TransactionStatus_ROLLBACK" => 1
  | "configapi.Failure_CANCELED" => 1
  | "configapi.Failure_INVALID" => 7
  | _ => 0

def optPS (p : Option PS) : Nat := (p.getD .pending).toNat

/-- the state one invocation for transaction `i` reads: the transaction, the configuration entry,
    the transaction the function looks up as `prevTransaction` (`Committed.Index` in the commit
    functions, `Applied.Index` in the apply functions) -/
def gV3Of (i : Nat) (t : Tx) (c : Cfg) (prevNone : Bool) (p : Tx) : V2G :=
  { n := fun k =>
      match k with
      | "transaction.ID.Index" => i
      | "transaction.ID.Target" => 0
      | "transaction.Status.Phase" => if t.phase = .rollback then 1 else 0
      | "transaction.Status.Change.Commit.State" => t.cc.toNat
      | "transaction.Status.Change.Apply.State" => t.ca.toNat
      | "transaction.Status.Rollback.Commit.State" => optPS t.rc
      | "transaction.Status.Rollback.Apply.State" => optPS t.ra
      | "transaction.Status.Change.Ordinal" => t.cord
      | "transaction.Status.Rollback.Ordinal" => t.rord
      | "transaction.Status.Rollback.Index" => t.ridx
      | "configuration.Committed.Index" => c.cIndex
      | "configuration.Committed.Change" => c.cChange
      | "configuration.Committed.Target" => c.cTarget
      | "configuration.Committed.Ordinal" => c.cOrdinal
      | "configuration.Committed.Revision" => c.cRevision
      | "configuration.Applied.Index" => c.aIndex
      | "configuration.Applied.Target" => c.aTarget
      | "configuration.Applied.Ordinal" => c.aOrdinal
      | "configuration.Applied.Revision" => c.aRevision
      | "prevTransaction.Status.Change.Commit.State" => p.cc.toNat
      | "prevTransaction.Status.Change.Apply.State" => p.ca.toNat
      | "prevTransaction.Status.Rollback.Commit.State" => optPS p.rc
      | "prevTransaction.Status.Rollback.Apply.State" => optPS p.ra
      | k => constCode k
    b := fun k =>
      match k with
      | "transaction.Status.Change.Commit != nil" => true
      | "transaction.Status.Change.Apply != nil" => true
      | "transaction.Status.Rollback.Commit != nil" => t.rc.isSome
      | "transaction.Status.Rollback.Apply != nil" => t.ra.isSome
      | "err@r.transactions.Get#1" => prevNone
      | "errors.IsNotFound(err)@r.transactions.Get#1" => true
      | "err@r.transactions.Get#2" => prevNone
      | "errors.IsNotFound(err)@r.transactions.Get#2" => true
      | "configuration.Committed.Values != nil" => true
      | "configuration.Applied.Values != nil" => true
      | _ => false }

/-- value plumbing: what the loops over path values assign -/
def plumbing (lhs : String) : Bool :=
  lhs ∈ ["configuration.Committed.Values[path]", "configuration.Applied.Values[path]", "rollbackValues",
    "rollbackValues[path]", "rollbackValues[path].Path", "rollbackValues[path].Deleted",
    "rollbackValues[deletedParentPath]", "changeValues", "changeValues[path]", "values", "values[path]",
    "configuration.Committed.Values", "configuration.Applied.Values", "transaction.Status.Rollback.Values",
    "pathValues", "updatedChangeValues"]

def proj : List Tok → List Tok
  | [] => []
  | .set lhs r :: t => if plumbing lhs then proj t else .set lhs r :: proj t
  | .setN lhs v :: t => if plumbing lhs then proj t else .setN lhs v :: proj t
  | .write f :: t => .write f :: proj t
  | .ret a b :: t => .ret a b :: proj t
  | .misc m :: t => .misc m :: proj t
  | .call _ :: t => proj t
  | .loop _ :: t => proj t
  | .endLoop :: t => proj t

theorem proj_append (a b : List Tok) : proj (a ++ b) = proj a ++ proj b := by
  induction a with
  | nil => rfl
  | cons x t ih =>
    cases x <;> simp only [List.cons_append, proj, ih] <;> split <;> simp

/-- one act as the assignments and the write call it is in the Go code (`c`: the configuration the
    invocation read) -/
def actToks (c : Cfg) : Act → List Tok
  | .cRbTarget _ r => [.setN "configuration.Committed.Target" r, .write "r.updateConfigurationStatus"]
  | .tRbCommitBegin _ => [.setN "transaction.Status.Rollback.Commit.State" 1, .write "r.updateTransactionStatus"]
  | .cRbCommit i r _ => [.setN "configuration.Committed.Index" i, .setN "configuration.Committed.Ordinal" (c.cOrdinal + 1),
      .setN "configuration.Committed.Revision" r, .write "r.updateConfigurationStatus"]
  | .tRbCommitDone _ ord => [.setN "transaction.Status.Rollback.Ordinal" ord,
      .setN "transaction.Status.Rollback.Commit.State" 2, .write "r.updateTransactionStatus"]
  | _ => [.misc "act of another function"]

def retOf (i : Nat) (p : Plan) : Tok :=
  if p.err then .ret "controller.Result{}, false, err" []
  else match p.requeue with
    | none => .ret "controller.Result{}, true, nil" []
    | some n => .ret "controller.Result{Requeue: controller.NewID(configapi.TransactionID{Target: _, Index: _})}, true, nil" [0, n]

def outcomeTrace (i : Nat) (c : Cfg) : Outcome → List Tok
  | .fall => [.ret "controller.Result{}, false, nil" []]
  | .plan p => p.acts.flatMap (actToks c) ++ [retOf i p]
  | .panic _ => [.misc "panic"]

end OnosVerif.V3.Skel
