/-
Bridge between the twin of the v3 transaction reconciler (`V3/Model.lean`) and the control skeletons
regenerated from pkg/controller/v3/transaction/controller.go (`Generated.v3sk_*`, translator
`harness/cmd/extract/skelsym.go`: the symbolic variant — a field read after it was assigned in the
same invocation sees the assigned term, so the skeleton is a function of the state at the START of
the invocation, like the twin's plans).
-/
import OnosVerif.V2.SkelTypes
import OnosVerif.V3.Model

namespace OnosVerif.V3.Skel
open OnosVerif.Generated (V2G Tok)
open OnosVerif.V3

def constCode (k : String) : Nat :=
  match k with
  | "configapi.TransactionPhaseStatus_PENDING" => 0
  | "configapi.TransactionPhaseStatus_IN_PROGRESS" => 1
  | "configapi.TransactionPhaseStatus_COMPLETE" => 2
  | "configapi.TransactionPhaseStatus_ABORTED" => 3
  | "configapi.TransactionPhaseStatus_CANCELED" => 4
  | "configapi.TransactionPhaseStatus_FAILED" => 5
  | "configapi.TransactionStatus_CHANGE" => 0
  | "configapi.TransactionStatus_ROLLBACK" => 1
  | "configapi.Failure_CANCELED" => 1
  | "configapi.Failure_INVALID" => 7
  | "codes.Canceled" => 1
  | "codes.Unknown" => 2
  | "codes.InvalidArgument" => 3
  | "codes.DeadlineExceeded" => 4
  | "codes.NotFound" => 5
  | "codes.AlreadyExists" => 6
  | "codes.PermissionDenied" => 7
  | "codes.FailedPrecondition" => 9
  | "codes.Unimplemented" => 12
  | "codes.Internal" => 13
  | "codes.Unavailable" => 14
  | "codes.Unauthenticated" => 16
  | _ => 0

def optPS (p : Option PS) : Nat := (p.getD .pending).toNat

/-- `configapi.Failure_Type` as a number -/
def failCode : Fail → Nat
  | .unknown => 0 | .canceled => 1 | .notFound => 2 | .alreadyExists => 3 | .unauthorized => 4
  | .forbidden => 5 | .conflict => 6 | .invalid => 7 | .unavailable => 8 | .notSupported => 9
  | .timeout => 10 | .internal => 11

/-- `codes.Code` of a device answer (google.golang.org/grpc/codes) -/
def ansCode : DevAns → Nat
  | .ok => 0 | .canceled => 1 | .unknown => 2 | .invalidArgument => 3 | .deadlineExceeded => 4
  | .notFound => 5 | .alreadyExists => 6 | .permissionDenied => 7 | .failedPrecondition => 9
  | .unimplemented => 12 | .internal => 13 | .unavailable => 14 | .unauthenticated => 16

/-- what one invocation meets outside the records it reads (the environment of the twin's
    reconcile functions and, for the dispatch functions, what the functions called return) -/
structure SkX where
  okSend : Bool := false       -- `applyValues` reached `conn.Set` (`canSend ∧ sendable`)
  ans : DevAns := .ok          -- the device's answer
  failureType : Nat := 0       -- the failure type the inner switch on `errorCode(err)` assigns
  treeErr : Bool := false      -- `tree.BuildTree` fails on the candidate configuration
  plugin : Bool := true        -- `r.plugins.GetPlugin` finds the model plugin
  invalid : Bool := false      -- `modelPlugin.Validate` refuses the candidate configuration
  okFirst : Bool := false      -- dispatch: the first function called (commit…) returns ok
  errFirst : Bool := false     -- … returns an error
  okSecond : Bool := false     -- dispatch: the second function called (apply…) returns ok
  errSecond : Bool := false

/-- the state one invocation for transaction `i` reads: the transaction, the configuration entry,
    the transaction the function looks up as `prevTransaction` (`Committed.Index` in the commit
    functions, `Applied.Index` in the apply functions) -/
def gV3Of (i : Nat) (t : Tx) (c : Cfg) (prevNone : Bool) (p : Tx) (x : SkX) : V2G :=
  { n := fun k =>
      match k with
      | "transaction.ID.Index" => i
      | "transaction.ID.Target" => 0
      | "transaction.Status.Phase" => if t.phase = .rollback then 1 else 0
      | "transaction.Status.Change.Commit.State" => t.cc.toNat
      | "transaction.Status.Change.Apply.State" => t.ca.toNat
      | "transaction.Status.Rollback.Commit.State" => optPS t.rc
      | "transaction.Status.Rollback.Apply.State" => optPS t.ra
      | "transaction.Status.Change.Ordinal" => t.cord
      | "transaction.Status.Rollback.Ordinal" => t.rord
      | "transaction.Status.Rollback.Index" => t.ridx
      | "configuration.Committed.Index" => c.cIndex
      | "configuration.Committed.Change" => c.cChange
      | "configuration.Committed.Target" => c.cTarget
      | "configuration.Committed.Ordinal" => c.cOrdinal
      | "configuration.Committed.Revision" => c.cRevision
      | "configuration.Applied.Index" => c.aIndex
      | "configuration.Applied.Target" => c.aTarget
      | "configuration.Applied.Ordinal" => c.aOrdinal
      | "configuration.Applied.Revision" => c.aRevision
      | "prevTransaction.Status.Change.Commit.State" => p.cc.toNat
      | "prevTransaction.Status.Change.Apply.State" => p.ca.toNat
      | "prevTransaction.Status.Rollback.Commit.State" => optPS p.rc
      | "prevTransaction.Status.Rollback.Apply.State" => optPS p.ra
      | "code" => ansCode x.ans
      | "failureType" => x.failureType
      | k => constCode k
    b := fun k =>
      match k with
      | "transaction.Status.Change.Commit != nil" => true
      | "transaction.Status.Change.Apply != nil" => true
      | "transaction.Status.Rollback.Commit != nil" => t.rc.isSome
      | "transaction.Status.Rollback.Apply != nil" => t.ra.isSome
      | "err@r.transactions.Get#1" => prevNone
      | "errors.IsNotFound(err)@r.transactions.Get#1" => true
      | "err@r.transactions.Get#2" => prevNone
      | "errors.IsNotFound(err)@r.transactions.Get#2" => true
      | "configuration.Committed.Values != nil" => true
      | "configuration.Applied.Values != nil" => true
      | "ok@r.applyValues#1" => x.okSend
      | "err@r.applyValues#1" => x.ans != .ok
      | "err@tree.BuildTree#1" => x.treeErr
      | "ok@r.plugins.GetPlugin#1" => x.plugin
      | "err@modelPlugin.Validate#1" => x.invalid
      | "ok@r.commitChange#1" => x.okFirst
      | "err@r.commitChange#1" => x.errFirst
      | "ok@r.applyChange#1" => x.okSecond
      | "err@r.applyChange#1" => x.errSecond
      | "ok@r.commitRollback#1" => x.okFirst
      | "err@r.commitRollback#1" => x.errFirst
      | "ok@r.applyRollback#1" => x.okSecond
      | "err@r.applyRollback#1" => x.errSecond
      | "ok@r.reconcileChange#1" => x.okFirst
      | "err@r.reconcileChange#1" => x.errFirst
      | "ok@r.reconcileRollback#1" => x.okFirst
      | "err@r.reconcileRollback#1" => x.errFirst
      | _ => false }

/-- value plumbing: what the loops over path values assign -/
def plumbing (lhs : String) : Bool :=
  lhs ∈ ["configuration.Committed.Values[path]", "configuration.Applied.Values[path]", "rollbackValues",
    "rollbackValues[path]", "rollbackValues[path].Path", "rollbackValues[path].Deleted",
    "rollbackValues[deletedParentPath]", "changeValues", "changeValues[path]", "values", "values[path]",
    "configuration.Committed.Values", "configuration.Applied.Values", "transaction.Status.Rollback.Values",
    "pathValues", "updatedChangeValues"]

def proj : List Tok → List Tok
  | [] => []
  | .set lhs r :: t => if plumbing lhs then proj t else .set lhs r :: proj t
  | .setN lhs v :: t => if plumbing lhs then proj t else .setN lhs v :: proj t
  | .write f :: t => .write f :: proj t
  | .ret a b :: t => .ret a b :: proj t
  | .misc m :: t => .misc m :: proj t
  | .call _ :: t => proj t
  | .loop _ :: t => proj t
  | .endLoop :: t => proj t

theorem proj_append (a b : List Tok) : proj (a ++ b) = proj a ++ proj b := by
  induction a with
  | nil => rfl
  | cons x t ih =>
    cases x <;> simp only [List.cons_append, proj, ih] <;> split <;> simp

/-- one act as the assignments and the write call it is in the Go code (`c`: the configuration the
    invocation read; `swap`: the site in `applyChange` (apply ABORTED/FAILED) that assigns
    `Applied.Index` before `Applied.Target`) -/
def actToks (swap : Bool) (c : Cfg) : Act → List Tok
  -- commitChange
  | .cTarget i => [.setN "configuration.Committed.Target" i, .write "r.updateConfigurationStatus"]
  | .tCommitBegin _ ridx _ => [.setN "rollbackIndex" ridx, .setN "transaction.Status.Rollback.Index" ridx,
      .setN "transaction.Status.Change.Commit.State" 1, .write "r.updateTransactionStatus"]
  | .tCommitFailed _ => [.setN "transaction.Status.Change.Commit.State" 5,
      .setN "transaction.Status.Change.Commit.Failure.Type" 7,
      .setN "transaction.Status.Change.Apply.State" 4, .write "r.updateTransactionStatus"]
  | .cSkip i => [.setN "configuration.Committed.Index" i, .setN "configuration.Committed.Change" i,
      .write "r.updateConfigurationStatus"]
  | .cCommit i _ => [.setN "configuration.Committed.Index" i, .setN "configuration.Committed.Change" i,
      .setN "configuration.Committed.Revision" i, .setN "configuration.Committed.Ordinal" (c.cOrdinal + 1),
      .write "r.updateConfigurationStatus"]
  | .tCommitDone _ ord => [.setN "transaction.Status.Change.Commit.State" 2,
      .setN "transaction.Status.Change.Ordinal" ord, .write "r.updateTransactionStatus"]
  -- applyChange
  | .tApplyBegin _ => [.setN "transaction.Status.Change.Apply.State" 1, .write "r.updateTransactionStatus"]
  | .tApplyAbort _ => [.setN "transaction.Status.Change.Apply.State" 3, .write "r.updateTransactionStatus"]
  | .aSkip i ord =>
      (if swap then [.setN "configuration.Applied.Index" i, .setN "configuration.Applied.Target" i]
       else [.setN "configuration.Applied.Target" i, .setN "configuration.Applied.Index" i]) ++
      [.setN "configuration.Applied.Ordinal" ord, .write "r.updateConfigurationStatus"]
  | .aTarget i => [.setN "configuration.Applied.Target" i, .write "r.updateConfigurationStatus"]
  | .tApplyDone _ => [.setN "transaction.Status.Change.Apply.State" 2, .write "r.updateTransactionStatus"]
  | .tApplyFailed _ f => [.setN "transaction.Status.Change.Apply.State" 5,
      .setN "transaction.Status.Change.Apply.Failure.Type" (failCode f), .write "r.updateTransactionStatus"]
  | .aFailed i ord => [.setN "configuration.Applied.Index" i, .setN "configuration.Applied.Ordinal" ord,
      .write "r.updateConfigurationStatus"]
  | .aApply i ord _ => [.setN "configuration.Applied.Index" i, .setN "configuration.Applied.Ordinal" ord,
      .setN "configuration.Applied.Revision" i, .write "r.updateConfigurationStatus"]
  -- commitRollback
  | .cRbTarget _ r => [.setN "configuration.Committed.Target" r, .write "r.updateConfigurationStatus"]
  | .tRbCommitBegin _ => [.setN "transaction.Status.Rollback.Commit.State" 1, .write "r.updateTransactionStatus"]
  | .cRbCommit i r _ => [.setN "configuration.Committed.Index" i, .setN "configuration.Committed.Ordinal" (c.cOrdinal + 1),
      .setN "configuration.Committed.Revision" r, .write "r.updateConfigurationStatus"]
  | .tRbCommitDone _ ord => [.setN "transaction.Status.Rollback.Ordinal" ord,
      .setN "transaction.Status.Rollback.Commit.State" 2, .write "r.updateTransactionStatus"]
  -- applyRollback
  | .aRbTarget _ r => [.setN "configuration.Applied.Target" r, .write "r.updateConfigurationStatus"]
  | .tRbApplyBegin _ => [.setN "transaction.Status.Rollback.Apply.State" 1, .write "r.updateTransactionStatus"]
  | .aRbFailed i ord => [.setN "configuration.Applied.Index" i, .setN "configuration.Applied.Ordinal" ord,
      .write "r.updateConfigurationStatus"]
  | .tRbApplyFailed _ f => [.setN "transaction.Status.Rollback.Apply.State" 5,
      .setN "transaction.Status.Rollback.Apply.Failure.Type" (failCode f), .write "r.updateTransactionStatus"]
  | .aRbApply i ord r _ => [.setN "configuration.Applied.Index" i, .setN "configuration.Applied.Ordinal" ord,
      .setN "configuration.Applied.Revision" r, .write "r.updateConfigurationStatus"]
  | .tRbApplyDone _ => [.setN "transaction.Status.Rollback.Apply.State" 2, .write "r.updateTransactionStatus"]

def retOf (i : Nat) (p : Plan) : Tok :=
  if p.err then .ret "controller.Result{}, false, err" []
  else match p.requeue with
    | none => .ret "controller.Result{}, true, nil" []
    | some n => .ret "controller.Result{Requeue: controller.NewID(configapi.TransactionID{Target: _, Index: _})}, true, nil" [0, n]

/-- the trace a twin outcome of `commitChange` / `commitRollback` stands for -/
def outcomeTrace (i : Nat) (c : Cfg) : Outcome → List Tok
  | .fall => [.ret "controller.Result{}, false, nil" []]
  | .plan p => p.acts.flatMap (actToks false c) ++ [retOf i p]
  | .panic _ => [.misc "panic"]

/-- the plan went through `applyValues` (the twin's `afterSend`): the request was sent, or the plan
    does nothing at all (the guards of `applyValues` or the request construction stopped it) -/
def viaSend (p : Plan) : Bool := p.send.isSome || p.acts.isEmpty

/-- how an apply function returns -/
def applyRet (p : Plan) : Tok :=
  if p.send.isNone && p.acts.isEmpty then .ret "controller.Result{}, false, err" []  -- not sent: `applyValues`' own (nil) error
  else if p.err then .ret "controller.Result{}, false, err" []                         -- transient answer: retried
  else if p.acts.isEmpty then .ret "controller.Result{}, false, nil" []               -- PermissionDenied: superseded
  else match p.requeue with
    | none => .ret "controller.Result{}, true, nil" []
    | some n => .ret "controller.Result{Requeue: controller.NewID(configapi.TransactionID{Target: _, Index: _})}, true, nil" [0, n]

/-- the trace a twin outcome of `applyChange` / `applyRollback` stands for -/
def outcomeTraceA (swap : Bool) (c : Cfg) : Outcome → List Tok
  | .fall => [.ret "controller.Result{}, false, nil" []]
  | .plan p => (if viaSend p then [.write "r.applyValues"] else []) ++ p.acts.flatMap (actToks swap c) ++ [applyRet p]
  | .panic _ => [.misc "panic"]

/-- the environment of one apply invocation as the skeleton's abstract state sees it -/
def xApply (s : Sys) (c : Cfg) (values : Values) (ans : DevAns) (cls : AnsClass) : SkX :=
  { okSend := canSend s c && sendable values, ans := ans,
    failureType := match cls with | .fail f => failCode f | _ => 0 }

/-- the environment of one `commitChange` invocation -/
def xCommit (treeErr : Bool) (verdict : Verdict) : SkX :=
  { treeErr := treeErr, plugin := verdict != .noPlugin, invalid := verdict == .invalid }

/-- how a function of the reconciler returns to the dispatch function that called it -/
def retOk : Outcome → Bool
  | .plan p => !p.err && !p.acts.isEmpty
  | _ => false

def retErr : Outcome → Bool
  | .plan p => p.err
  | _ => false

/-- what `reconcileChange` / `reconcileRollback` return, given what the two functions they call return -/
def chainTrace (first second : Outcome) : List Tok :=
  if retErr first then [.ret "controller.Result{}, false, err" []]
  else if retOk first then [.ret "result, true, nil" []]
  else if retErr second then [.ret "controller.Result{}, false, err" []]
  else if retOk second then [.ret "result, true, nil" []]
  else [.ret "controller.Result{}, false, nil" []]

end OnosVerif.V3.Skel
