/- Line-protocol handlers for the v3 protocol twin (I/O glue, not part of the model).
   The state lives in an `IO.Ref`; every script starts with `v3.init`. -/
import OnosVerif.Base.Wire
import OnosVerif.V3.System

namespace OnosVerif.V3
open OnosVerif.Wire

structure WState where
  sys : Sys := {}
  started : Bool := false
  txVers : List Nat := []
  cfgVer : Nat := 0
  first : Bool := true
deriving Inhabited

initialize wref : IO.Ref WState ← IO.mkRef {}

def sOf (l : Str) : String := String.ofList l

def psChar : PS → String
  | .pending => "P" | .inProgress => "I" | .complete => "C" | .aborted => "A" | .canceled => "X" | .failed => "F"

def opsChar : Option PS → String
  | none => "-"
  | some p => psChar p

def failStr : Option Fail → String
  | none => "-"
  | some .unknown => "unknown" | some .canceled => "canceled" | some .notFound => "not_found"
  | some .alreadyExists => "already_exists" | some .unauthorized => "unauthorized"
  | some .forbidden => "forbidden" | some .conflict => "conflict" | some .invalid => "invalid"
  | some .unavailable => "unavailable" | some .notSupported => "not_supported"
  | some .timeout => "timeout" | some .internal => "internal"

def fmtValues (m : Values) : String :=
  "{" ++ ",".intercalate (m.map fun kv =>
    let key := if kv.2.path = kv.1 then sOf kv.1 else sOf kv.1 ++ ">" ++ sOf kv.2.path
    key ++ "=" ++ (if kv.2.deleted then "~" else sOf kv.2.value) ++ "@" ++ toString kv.2.index) ++ "}"

def fmtDev (m : List (Str × Str)) : String :=
  "{" ++ ",".intercalate (m.map fun kv => sOf kv.1 ++ "=" ++ sOf kv.2) ++ "}"

def cstStr : CState → String
  | .unknown => "unknown" | .synchronizing => "synchronizing" | .synchronized => "synchronized"
  | .persisted => "persisted"

def flag (changed : Bool) : String := if changed then "+" else "="

def fmtReq (r : DevReq) : String :=
  "e" ++ toString r.election ++ ":del[" ++ ",".intercalate (r.deletes.map sOf) ++ "]upd[" ++
  ",".intercalate (r.updates.map fun u => sOf u.1 ++ "=" ++ sOf u.2) ++ "]->" ++ sOf r.answer

def fmtEvent (e : Event) : String :=
  (match e.phase with | .change => "chg" | .rollback => "rbk") ++ "." ++
  (match e.stage with | .commit => "commit" | .apply => "apply") ++ "." ++ psChar e.status ++ "." ++ toString e.index

def injChar : Inj → String
  | .ok => "1" | .fail => "f" | .conflict => "c" | .sideOnly => "s" | .race => "r"

def fmtTrace (t : List (Bool × Inj)) : String :=
  String.join (t.map fun x => (if x.1 then "C" else "T") ++ injChar x.2)

def fmtRes (o : Out) : String :=
  match o.res with
  | .panic .nilMap => "panic nilmap"
  | .panic .nilPtr => "panic nilptr"
  | .done rq err =>
    (match rq with | some n => "rq" ++ toString n | none => "-") ++ (if err then ",err" else ",nil") ++
    " w=" ++ fmtTrace o.trace

def insertS (x : String) : List String → List String
  | [] => [x]
  | y :: rest => if x < y then x :: y :: rest else y :: insertS x rest

def sortS (l : List String) : List String := l.foldr insertS []

def trimRight (s : String) : String := (s.dropEndWhile (· == ' ')).toString

/-- print the state line and remember the versions printed -/
def render (head : String) (reqs : List DevReq) (events : List Event) : IO String := do
  let w ← wref.get
  let s := w.sys
  let mut out := head
  let mut idx := 0
  for t in s.txs do
    idx := idx + 1
    let changed := w.first || (match w.txVers[idx - 1]? with | some v => v ≠ t.ver | none => true)
    out := out ++ s!" | T{idx} " ++ (match t.phase with | .change => "chg" | .rollback => "rbk") ++ " " ++
      psChar t.cc ++ psChar t.ca ++ opsChar t.rc ++ opsChar t.ra ++
      s!" co={t.cord} ro={t.rord} ri={t.ridx} rv=" ++ fmtValues t.rvals ++
      " f=" ++ failStr t.ccFail ++ "/" ++ failStr t.caFail ++ "/" ++ failStr t.raFail ++ " v" ++ flag changed
  let c := s.cfg
  let v := view s
  let changed := w.first || w.cfgVer ≠ c.ver
  out := out ++ s!" | C i={c.cIndex} ch={c.cChange} tg={c.cTarget} or={c.cOrdinal} rv={c.cRevision} " ++ fmtValues v.cVals ++
    s!" | A i={c.aIndex} tg={c.aTarget} or={c.aOrdinal} rv={c.aRevision} tm={c.aTerm} " ++ fmtValues v.aVals ++
    " | S " ++ cstStr c.state ++ " m=" ++ (if c.master.isEmpty then "-" else sOf c.master) ++ s!" t={c.term} v" ++ flag changed
  out := out ++ " | D " ++ (if s.devUp then "up" else "down") ++ s!" e={s.devEpoch} " ++ fmtDev s.dev
  out := out ++ " | Q " ++ ";".intercalate (sortS (reqs.map fmtReq))
  out := out ++ " | E " ++ ";".intercalate (events.map fmtEvent)
  wref.set { w with txVers := s.txs.map (·.ver), cfgVer := c.ver, first := false }
  pure (trimRight out)

def decInj (p : String) : Option (List Inj) :=
  if p == "-" then some [] else
  p.toList.mapM fun c =>
    match c with
    | '1' => some Inj.ok | 'f' => some .fail | 'c' => some .conflict | 's' => some .sideOnly | 'r' => some .race
    | _ => none

def decVerdict : String → Option Verdict
  | "valid" => some .valid | "invalid" => some .invalid | "noplugin" => some .noPlugin | _ => none

def decPV (tok : String) : Option (Str × PV) :=
  match tok.splitOn ":" with
  | [p, v, d, i] => do
    let path ← decStr p
    let value ← decStr v
    let idx ← i.toNat?
    let del ← (if d == "1" then some true else if d == "0" then some false else none)
    pure (path, { path := path, value := if del then [] else value, deleted := del, index := idx })
  | _ => none

structure Hints where
  last : Option Str := none
  pick : Option Str := none
  order : List Nat := []

/-- split trailing hints (`last=<hex>`, `pick=<name>`, `rs=<i,j,…>`) off the argument list -/
def splitHints (args : List String) : List String × Hints :=
  args.foldl (fun (acc : List String × Hints) a =>
    if a.startsWith "last=" then (acc.1, { acc.2 with last := decStr (a.drop 5).toString })
    else if a.startsWith "pick=" then (acc.1, { acc.2 with pick := some (a.drop 5).toString.toList })
    else if a.startsWith "rs=" then (acc.1, { acc.2 with order := ((a.drop 3).toString.splitOn ",").filterMap String.toNat? })
    else (acc.1 ++ [a], acc.2)) ([], {})

def runOut (r : Sys × Out) (histBefore : Nat) : IO String := do
  wref.modify fun w => { w with sys := r.1 }
  render (fmtRes r.2) r.2.reqs (r.1.hist.drop histBefore)

def handleIO (op : String) (args0 : List String) : IO (Option String) := do
  let (args, hints) := splitHints args0
  let last := hints.last
  let pick := hints.pick
  let w ← wref.get
  if op != "init" && !w.started then return none
  let s := w.sys
  match op, args with
  | "init", opts =>
    let seed := if opts.contains "seed=1" then 1 else if opts.contains "seed=2" then 2 else 0
    if !(opts.all fun o => o == "seed=1" || o == "seed=0" || o == "seed=2") then return none
    wref.set { sys := initSys seed, started := true }
    return some (← render "ok" [] [])
  | "append", toks =>
    match toks.mapM decPV with
    | none => return none
    | some kvs =>
      let vals := kvs.foldl (fun m kv => vInsert kv.1 kv.2 m) ([] : Values)
      let s' := nbAppend s vals
      wref.set { w with sys := s' }
      return some (← render s!"ok {s'.txs.length}" [] [])
  | "rollback", [i] =>
    match i.toNat? with
    | none => return none
    | some i =>
      let (s', ok) := nbRollback s i
      wref.set { w with sys := s' }
      return some (← render (if ok then "ok" else "refused") [] [])
  | "tx", [i, verdict, ans, plan] =>
    match i.toNat?, decVerdict verdict, decInj plan with
    | some i, some verdict, some inj =>
      if (ansOfName ans.toList).isNone then return none
      return some (← runOut (stepTx s i verdict ans.toList inj last) s.hist.length)
    | _, _, _ => return none
  | "cfg", [ans, plan] =>
    match decInj plan with
    | some inj =>
      if (ansOfName ans.toList).isNone then return none
      return some (← runOut (stepCfg s ans.toList inj last hints.order) s.hist.length)
    | none => return none
  | "mast", [plan] =>
    match decInj plan with
    | some inj => return some (← runOut (stepMast s pick inj last) s.hist.length)
    | none => return none
  | "drain", [] => return some (← render "ok" [] [])
  | "end", [] => return some (← render "ok" [] [])
  | "topo", opts =>
    let mut s' := s
    for o in opts do
      if o == "entity=1" then s' := stepEnv s' (.entity true)
      else if o == "entity=0" then s' := stepEnv s' (.entity false)
      else if o == "persistent=1" then s' := stepEnv s' (.persistent true)
      else if o == "persistent=0" then s' := stepEnv s' (.persistent false)
      else return none
    wref.set { w with sys := s' }
    return some (← render "ok" [] [])
  | "rel", [what, r] =>
    if r.isEmpty then return none
    let e ← (match what with
      | "add" => pure (some (EnvOp.relAdd r.toList)) | "del" => pure (some (EnvOp.relDel r.toList)) | _ => pure none)
    match e with
    | none => return none
    | some e =>
      wref.set { w with sys := stepEnv s e }
      return some (← render "ok" [] [])
  | "conn", [what, r] =>
    if r.isEmpty then return none
    let e ← (match what with
      | "add" => pure (some (EnvOp.connAdd r.toList)) | "del" => pure (some (EnvOp.connDel r.toList)) | _ => pure none)
    match e with
    | none => return none
    | some e =>
      wref.set { w with sys := stepEnv s e }
      return some (← render "ok" [] [])
  | "dev", [what] =>
    let e ← (match what with
      | "stop" => pure (some EnvOp.devStop) | "start" => pure (some EnvOp.devStart) | _ => pure none)
    match e with
    | none => return none
    | some e =>
      wref.set { w with sys := stepEnv s e }
      return some (← render "ok" [] [])
  | _, _ => return none

end OnosVerif.V3
