/- Line-protocol handlers for the northbound twin (I/O glue, not part of the model).
   Formats are documented in harness/internal/nbwire/nbwire.go (the Go side of the same codec). -/
import OnosVerif.Base.Wire
import OnosVerif.Path.Wire
import OnosVerif.NB.Model

namespace OnosVerif.NB
open OnosVerif.Wire OnosVerif.Path

/-! ### decoding -/

def decBool (s : String) : Option Bool :=
  if s == "1" then some true else if s == "0" then some false else none

def splitList (sep : String) (s : String) : List String :=
  if s.isEmpty then [] else s.splitOn sep

/-- `<target>|<elem>,<elem>…|<element>,<element>…` -/
def decPathMsg (tok : String) : Option PathMsg :=
  match tok.splitOn "|" with
  | [t, es, ls] => do
    let target ← decStr t
    let elem ← (splitList "," es).mapM decElem
    let element ← (splitList "," ls).mapM decStr
    pure ⟨target, elem, element⟩
  | _ => none

/-- `_` is the absent message -/
def decOptPath (tok : String) : Option (Option PathMsg) :=
  if tok == "_" then some none else (decPathMsg tok).map some

def decJson (body : String) : Option JsonDoc :=
  if body == "!" then some .bad
  else do
    let ms ← (splitList ";" body).mapM fun kv =>
      match kv.splitOn "=" with
      | [k, v] => do pure ((← decStr k), (← decStr v))
      | _ => none
    pure (.flat ms)

def decVal (tok : String) : Option (Option GVal) :=
  if tok == "_" then some none
  else if tok == "N" then some (some .unset)
  else if tok == "X" then some (some .unsupported)
  else
    match tok.splitOn ":" with
    | ["S", h] => (decStr h).map fun s => some (.str s)
    | ["A", h] => (decStr h).map fun s => some (.ascii s)
    | ["I", n] => (decInt n).map fun i => some (.int i)
    | ["U", n] => (decNat n).map fun i => some (.uint i)
    | ["B", b] => (decBool b).map fun x => some (.bool x)
    | ["J", body] => (decJson body).map fun d => some (.json d)
    | "O" :: ok :: r :: _ => do
      let b ← decBool ok
      let s ← decStr r
      pure (some (.opaque b s))
    | _ => none

def decUpdate (tok : String) : Option Update :=
  match tok.splitOn "@" with
  | [p, v] => do pure ⟨← decOptPath p, ← decVal v⟩
  | _ => none

def decStrategy (s : String) : Option (Option Strategy) :=
  if s == "!" then some none
  else
    match s.splitOn "." with
    | [a, b] => do pure (some ⟨← decNat a, ← decNat b⟩)
    | _ => none

def decOvMap (s : String) : Option (Option OvMap) :=
  if s == "!" then some none
  else do
    let es ← (splitList ";" s).mapM fun e =>
      match e.splitOn "~" with
      | [k, "!"] => do pure ((← decStr k), (none : Option TTV))
      | [k, t, v] => do pure ((← decStr k), some (⟨← decStr t, ← decStr v⟩ : TTV))
      | _ => none
    pure (some es)

def decExt (tok : String) : Option Ext :=
  if tok == "E" then some .other
  else
    match tok.splitOn ":" with
    | ["R", id, s, o, _] => do pure (.registered (← decNat id) (← decStrategy s) (← decOvMap o))
    | _ => none

structure ReqToks where
  pfx : Option PathMsg := none
  exts : List Ext := []
  dels : List PathMsg := []
  reps : List Update := []
  upds : List Update := []
  paths : List PathMsg := []
  enc : Nat := 0
  ty : Nat := 0

def dropPfx (p : String) (tok : String) : Option String :=
  if tok.startsWith p then some (tok.drop p.length).toString else none

/-- the tokens shared by the request lines: `pfx= x= d= r= u= p= enc= ty=` -/
def decReqToks : List String → ReqToks → Option ReqToks
  | [], acc => some acc
  | tok :: r, acc =>
    if let some b := dropPfx "pfx=" tok then do
      let p ← decPathMsg b
      decReqToks r { acc with pfx := some p }
    else if let some b := dropPfx "x=" tok then do
      let e ← decExt b
      decReqToks r { acc with exts := acc.exts ++ [e] }
    else if let some b := dropPfx "d=" tok then do
      let p ← decPathMsg b
      decReqToks r { acc with dels := acc.dels ++ [p] }
    else if let some b := dropPfx "r=" tok then do
      let u ← decUpdate b
      decReqToks r { acc with reps := acc.reps ++ [u] }
    else if let some b := dropPfx "u=" tok then do
      let u ← decUpdate b
      decReqToks r { acc with upds := acc.upds ++ [u] }
    else if let some b := dropPfx "p=" tok then do
      let p ← decPathMsg b
      decReqToks r { acc with paths := acc.paths ++ [p] }
    else if let some b := dropPfx "enc=" tok then do
      decReqToks r { acc with enc := ← decNat b }
    else if let some b := dropPfx "ty=" tok then do
      decReqToks r { acc with ty := ← decNat b }
    else none

def ReqToks.toSet (t : ReqToks) : SetReq := ⟨t.pfx, t.dels, t.reps, t.upds, t.exts⟩
def ReqToks.toGet (t : ReqToks) : GetReq := ⟨t.pfx, t.paths, t.enc, t.ty, t.exts⟩

def decEnv : List String → Env → Option Env
  | [], e => some e
  | tok :: r, e =>
    if let some b := dropPfx "L=" tok then do
      decEnv r { e with limit := ← decInt b }
    else if let some b := dropPfx "T=" tok then
      match b.splitOn "|" with
      | [id, asp, ty, ver, pers] => do
        let id ← decStr id
        let asp ← decBool asp
        let ty ← decStr ty
        let ver ← decStr ver
        let pers ← decBool pers
        let c : Option Configurable := if asp then some ⟨ty, ver, pers⟩ else none
        -- a repeated id keeps its first entity (as the fake topology does with its last: the generator never repeats)
        decEnv r { e with topo := e.topo ++ [(id, c)] }
      | _ => none
    else if let some b := dropPfx "G=" tok then
      match b.splitOn "|" with
      | [name, ver, rws] => do
        let name ← decStr name
        let ver ← decStr ver
        let rw ← (splitList "," rws).mapM fun x =>
          match x.splitOn ";" with
          | [p, k, a] => do pure ((← decStr p), (⟨← decBool k, ← decStr a⟩ : RWPath))
          | _ => none
        decEnv r { e with plugins := e.plugins ++ [((name, ver), ⟨name, ver, rw⟩)] }
      | _ => none
    else none

def decSubMsg (tok : String) : Option SubMsg :=
  if tok == "P" then some .poll
  else if tok == "O" then some .other
  else
    match tok.splitOn "@" with
    | "S" :: pfx :: subs => do pure (.subscribe (← decOptPath pfx) (← subs.mapM decOptPath))
    | _ => none

/-! ### encoding -/

def insertSorted (lt : String → String → Bool) (x : String) : List String → List String
  | [] => [x]
  | y :: r => if lt y x then y :: insertSorted lt x r else x :: y :: r

def sortStrings (l : List String) : List String :=
  l.foldl (fun acc x => insertSorted (fun a b => a < b) x acc) []

def encCode : Code → String
  | .unknown => "Unknown" | .invalidArgument => "InvalidArgument" | .notFound => "NotFound"
  | .internal => "Internal" | .unavailable => "Unavailable" | .alreadyExists => "AlreadyExists"

def encCause : Cause → String
  | .badOverrides => "badExt" | .badStrategy => "badExt" | .noOps => "noOps"
  | .topoNotFound => "topoNotFound" | .noAspect => "noAspect" | .noPlugin => "noPlugin"
  | .noExactPath => "noExactPath" | .noModelPath => "noModelPath" | .valueConv => "valueConv"
  | .indexChars => "indexChars" | .keyMismatch => "keyMismatch" | .pluginErr => "pluginErr"
  | .tooManyTargets => "tooManyTargets" | .tooManyOps => "tooManyOps" | .invalidPath => "invalidPath"
  | .badEncoding => "badEncoding" | .noTarget => "noTarget" | .noConfig => "noConfig" | .noConn => "noConn"
  | .dupSubscribe => "dupSubscribe" | .pollFirst => "pollFirst" | .unknownSubMsg => "unknownSubMsg"
  | .noSubTarget => "noSubTarget" | .txNotFound => "txNotFound"

def encSite : Site → String
  | .sliceBounds => "sliceBounds" | .nilDeref => "nilDeref" | .nilMapWrite => "nilMapWrite"
  | .mustCompile => "mustCompile" | .unsupportedRegex => "unsupportedRegex"

def encFail : Fail → String
  | .refused c k => "err " ++ encCode c ++ " " ++ encCause k
  | .panic s => "panic " ++ encSite s

def encKind : TVKind → String
  | .empty => "E" | .string => "S" | .int => "I" | .uint => "U" | .bool => "B" | .opaque => "O"

def encPV (pv : PV) : String :=
  if pv.deleted then "D" else encKind pv.value.kind ++ "." ++ encStr pv.value.repr

def encTx (tx : TxRecord) (resp : Bool) : String :=
  let ov := sortStrings (tx.overrides.map fun e => match e.2 with
    | some ttv => encStr e.1 ++ "~" ++ encStr ttv.type ++ "~" ++ encStr ttv.version
    | none => encStr e.1 ++ "~!")
  let ts := sortStrings (tx.changes.map fun tc => "t:" ++ encStr tc.1)
  let cs := sortStrings (tx.changes.flatMap fun tc => tc.2.map fun e =>
    "c:" ++ encStr tc.1 ++ ":" ++ encStr e.1 ++ ":" ++ encPV e.2)
  joinToks (["ok", "resp=" ++ (if resp then "ok" else "err"),
    "st=" ++ toString tx.strategy.sync ++ "." ++ toString tx.strategy.isolation,
    "ov=" ++ (if ov.isEmpty then "-" else ";".intercalate ov)] ++ ts ++ cs)

def encSubOutcome : Except Fail SubOutcome → String
  | .ok (.split tr) => "split:" ++ ",".intercalate (sortStrings (tr.map fun e => encStr e.1 ++ "*" ++ toString e.2))
  | .ok .polled => "polled"
  | .error (.refused c k) => "err:" ++ encCode c ++ ":" ++ encCause k
  | .error (.panic s) => "panic:" ++ encSite s

/-- does the request name a target whose configuration was written by the controllers?  Whether
    such a configuration exists at all (a transaction can stall behind an earlier one that waits
    for a master) is not modelled: the answer is then prefixed with `maybe`, and the harness accepts
    "no such configuration" as well. -/
def consultsTouched (st : NBState) (targets : List Path.Str) : Bool :=
  st.configs.any fun c => c.2 == .touched && targets.any fun t => !t.isEmpty && hasPrefix c.1 (t ++ ['-'])

def maybeIf (b : Bool) (s : String) : String := if b then "maybe " ++ s else s

/-! ### the stateful driver side -/

initialize stRef : IO.Ref NBState ← IO.mkRef (NBState.init ⟨0, [], []⟩)

def handleIO (op : String) (args : List String) : IO (Option String) := do
  match op with
  | "env" =>
    match decEnv args ⟨0, [], []⟩ with
    | none => pure none
    | some e => do
      stRef.set (NBState.init e)
      pure (some "ok")
  | "set" =>
    match decReqToks args {} with
    | none => pure none
    | some t => do
      let st ← stRef.get
      let (o, st') := handleSet concreteAbs st t.toSet
      stRef.set st'
      match o with
      | .accepted tx r => pure (some (encTx tx r))
      | .failed f => pure (some (encFail f))
  | "log" => do
    let st ← stRef.get
    pure (some ("log " ++ toString st.log.length))
  | "get" =>
    match decReqToks args {} with
    | none => pure none
    | some t => do
      let st ← stRef.get
      let req := t.toGet
      let unc := consultsTouched st ((req.paths.map fun p => getTargetOf req.pfx p) ++ [prefixTarget req.pfx])
      match handleGet st req with
      | .ok .allTargets => pure (some "all")
      | .ok .reached => pure (some (maybeIf unc "reached"))
      | .ok .relayed => pure (some "relayed")
      | .error f => pure (some (maybeIf unc (encFail f)))
  | "sub" => do
    let ms := args.mapM fun a => (dropPfx "m=" a).bind decSubMsg
    match ms with
    | none => pure none
    | some ms => do
      let st ← stRef.get
      -- every stream has its own subContext
      let outs := handleSubStream { st with subscribed := false } ms
      pure (some (joinToks ("sub" :: outs.map encSubOutcome)))
  | "rollback" =>
    match args with
    | [i] =>
      match decNat i with
      | none => pure none
      | some i => do
        stRef.modify fun st => handleRollback st i
        pure (some "ok")
    | _ => pure none
  | "gettx" =>
    match args with
    | [i] =>
      match decNat i with
      | none => pure none
      | some i => do
        let st ← stRef.get
        match handleGetTx st i with
        | .ok () => pure (some "ok")
        | .error f => pure (some (encFail f))
    | _ => pure none
  | "cap" => do
    let st ← stRef.get
    pure (some ("cap " ++ toString (handleCapabilities st)))
  | "cfg" =>
    match args with
    | [t, ty, v, n] =>
      match decStr t, decStr ty, decStr v, decNat n with
      | some t, some ty, some v, some n => do
        let st ← stRef.get
        let id := configID t ty v
        match mapGet id st.configs with
        | some _ => pure (some "err AlreadyExists cfgExists")
        | none => do
          stRef.set { st with configs := st.configs ++ [(id, if n = 0 then .empty else .values)] }
          pure (some "ok")
      | _, _, _, _ => pure none
    | _ => pure none
  | "leafsel" =>
    match args with
    | t :: ty :: v :: sp :: rest =>
      match decStr t, decStr ty, decStr v, decStr sp with
      | some t, some ty, some v, some sp =>
        let ch : Option (Option SetReq) :=
          match rest with
          | [] => some none
          | "ctx" :: toks => (decReqToks toks {}).map fun r => some r.toSet
          | _ => none
        match ch with
        | none => pure none
        | some ch => do
          let st ← stRef.get
          let unc := mapGet (configID t ty v) st.configs == some .touched
          match handleLeafSel concreteAbs st ⟨t, ty, v, sp, ch⟩ with
          | .ok .reached => pure (some (maybeIf unc "reached"))
          | .error f => pure (some (maybeIf unc (encFail f)))
      | _, _, _, _ => pure none
    | _ => pure none
  -- pure text helpers (differential tests of the path.go functions)
  | "rmidx" =>
    match args with
    | [h] => pure ((decStr h).map fun s => "ok " ++ encStr (removePathIndices s))
    | _ => pure none
  | "anon" =>
    match args with
    | [h] => pure ((decStr h).map fun s => "ok " ++ encStr (anonymizePathIndices s))
    | _ => pure none
  | "idx" =>
    match args with
    | [h] => pure ((decStr h).map fun s =>
        match extractIndexNames s with
        | .ok (ns, vs) => joinToks ("ok" :: (ns.zip vs).map fun nv => encStr nv.1 ++ "=" ++ encStr nv.2)
        | .error e => "panic " ++ encSite e)
    | _ => pure none
  | "valid" =>
    match args with
    | [h] => pure ((decStr h).map fun s =>
        match isPathValid s with
        | .ok b => if b then "ok 1" else "ok 0"
        | .error e => "panic " ++ encSite e)
    | _ => pure none
  | "idxok" =>
    match args with
    | [h] => pure ((decStr h).map fun s =>
        match indexValueAllowed s with
        | .ok b => if b then "ok 1" else "ok 0"
        | .error e => "panic " ++ encSite e)
    | _ => pure none
  | "wild" =>
    match args with
    | [h, ex] => pure (do
        let s ← decStr h
        let e ← decBool ex
        match matchWildcardRegexp s e with
        | .ok t => pure ("ok " ++ encStr t)
        | .error e => pure ("panic " ++ encSite e))
    | _ => pure none
  | "find" =>
    -- nb.find <path> <exact> rw=<rw>,<rw>…   (rw = path;isKey;attr)
    match args with
    | [h, ex, rws] => pure (do
        let s ← decStr h
        let e ← decBool ex
        let rws ← dropPfx "rw=" rws
        let rw ← (splitList "," rws).mapM fun x =>
          match x.splitOn ";" with
          | [p, k, a] => do pure ((← decStr p), (⟨← decBool k, ← decStr a⟩ : RWPath))
          | _ => none
        match findPathFromModel s rw e with
        | .ok (ex, r) => pure ("ok " ++ (if ex then "1" else "0") ++ (if ex then " " ++ encStr r.attrName else ""))
        | .error f => pure (encFail f))
    | _ => pure none
  | _ => pure none

end OnosVerif.NB
