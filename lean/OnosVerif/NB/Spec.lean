/-
Specification-side definitions for the C13 / C12 theorems: what an operation of a Set request
*should* be resolved against, stated without the handler's running state.
-/
import OnosVerif.NB.Model

namespace OnosVerif.NB
open OnosVerif.Path

/-- the plugin a target's operations are checked against: the entity must exist and carry the
    Configurable aspect; the model is the one named by the request's overrides extension for
    that target (an entry without value counts as absent), else the aspect's; a plugin must be registered for it. -/
def pluginFor (env : Env) (ov0 : OvMap) (t : Str) : Option Plugin :=
  match mapGet t env.topo with
  | some (some cfg) =>
    match mapGet t ov0 with
    | some (some ttv) => pluginGet (ttv.type, ttv.version) env.plugins
    | _ => pluginGet (cfg.type, cfg.version) env.plugins
  | _ => none

/-- the operation passes its own checks against plugin `pl` -/
def opPasses (abs : Abs) (pl : Plugin) (pfx : Option PathMsg) : Op → Bool
  | .del p => match delPath pl pfx p with
    | .ok _ => true
    | .error _ => false
  | .upd u => match updEntries abs pl pfx u with
    | .ok _ => true
    | .error _ => false

/-- the paths an operation writes to, given the plugin of its target -/
def opPaths (abs : Abs) (pl : Plugin) (pfx : Option PathMsg) : Op → List Str
  | .del p => match delPath pl pfx p with
    | .ok x => [x]
    | .error _ => []
  | .upd u => match updEntries abs pl pfx u with
    | .ok es => es.map Prod.fst
    | .error _ => []

/-- an operation that is acceptable on its own -/
def opOK (abs : Abs) (env : Env) (ov0 : OvMap) (pfx : Option PathMsg) (op : Op) : Prop :=
  ∃ pl, pluginFor env ov0 (effTarget pfx (opTarget op)) = some pl ∧ opPasses abs pl pfx op = true

/-- is the update JSON-valued? -/
def Update.isJson (u : Update) : Bool :=
  match u.val with
  | some (.json _) => true
  | _ => false

/-- the number of operations of a request -/
def SetReq.nOps (req : SetReq) : Nat := req.delete.length + req.replace.length + req.update.length

/-- no two update/replace operations of the request have the same effective (target, path) -/
def distinctUpdatePaths (req : SetReq) : Bool :=
  ((req.replace ++ req.update).map fun u => (effTarget req.pfx (opTarget (.upd u)), effPath req.pfx u.path)).Nodup


/-- the path message of an operation -/
def opPathMsg : Op → Option PathMsg
  | .del p => some p
  | .upd u => u.path

/-- `p` is where the operation says it goes: a plain update lands on prefix+path; a delete on
    prefix+path or, for the key leaf of a list entry, on that path cut at its last `/` (the entry);
    the members of a JSON-valued update land below prefix+path. -/
def landsAsNamed (pfx : Option PathMsg) (op : Op) (p : Str) : Bool :=
  match op with
  | .del d =>
    p == effPath pfx (some d) ||
      (match lastIndexChar '/' (effPath pfx (some d)) with
       | some i => p == (effPath pfx (some d)).take i
       | none => false)
  | .upd u => if u.isJson then hasPrefix p (effPath pfx u.path) else p == effPath pfx u.path

/-- `p` names the model path `m` itself or a node above it: equal, or a prefix that ends at an
    element boundary (`/`) or at the start of a key group (`[`) -/
def elementBoundaryPrefix (p m : Str) : Bool :=
  m == p || hasPrefix m (p ++ ['/']) || hasPrefix m (p ++ ['['])

/-- the request has no JSON-valued update -/
def noJson (req : SetReq) : Bool := (req.replace ++ req.update).all fun u => !u.isJson

/-! ### reading the translator's call lists -/

def strHasPrefix (s p : String) : Bool := hasPrefix s.toList p.toList

/-- a call on one of the three stores the gNMI server holds -/
def isStoreCall (c : String) : Bool :=
  strHasPrefix c "s.transactions." || strHasPrefix c "s.proposals." || strHasPrefix c "s.configurations."

def storeReadMethods : List String := ["Get", "GetByIndex", "List", "Watch"]

/-- a store call that is not one of the read-only methods -/
def isStoreWrite (c : String) : Bool :=
  isStoreCall c && !(storeReadMethods.any fun m =>
    c == "s.transactions." ++ m || c == "s.proposals." ++ m || c == "s.configurations." ++ m)

/-- the calls of `Set` that validate the request -/
def validationCalls : List String :=
  ["getTargetVersionOverrides", "getTransactionStrategy", "s.getTargetInfo", "s.doDelete",
   "s.doUpdateOrReplace", "newTransaction"]

def firstIdx (x : String) : List String → Option Nat
  | [] => none
  | c :: r => if c = x then some 0 else (firstIdx x r).map (· + 1)

def lastIdx (x : String) (l : List String) : Option Nat :=
  (firstIdx x l.reverse).map fun i => l.length - 1 - i

/-- every occurrence of every validation call comes before the first store write, which is `create` -/
def validationBefore (create : String) (calls : List String) : Bool :=
  match firstIdx create calls with
  | none => false
  | some ci =>
    (calls.find? isStoreWrite == some create) &&
    validationCalls.all fun v =>
      match lastIdx v calls with
      | none => false
      | some vi => decide (vi < ci)

end OnosVerif.NB
