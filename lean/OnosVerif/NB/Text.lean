/-
Twin of the textual helpers the northbound handlers lean on:

* pkg/utils/path/path.go — `RemovePathIndices`, `AnonymizePathIndices`, `ExtractIndexNames`,
  `CheckPathIndexIsValid`, `IsPathValid` (the regular expressions `MatchOnIndex`,
  `IndexAllowedChars`, `validPathRegexp` come from the translator, `OnosVerif.Generated`);
* pkg/utils/wildcards.go — `MatchWildcardRegexp` (the text handed to `regexp.MustCompile`) and a
  recogniser of the regular-expression class that text has to stay in for `MustCompile` not to panic.

A Go string is a `List Char` (see OnosVerif/Path/Model.lean).  Operations that can panic in Go
(slices with computed bounds) return `Except Site`.  Core-only: linked into the `oracle` driver.
-/
import OnosVerif.Path.Model
import OnosVerif.Generated.Facts

namespace OnosVerif.NB
open OnosVerif.Path

/-- where a Go panic would come from -/
inductive Site
  | sliceBounds     -- s[lo:hi] with lo > hi or hi > len(s)
  | nilDeref        -- field access through a nil message pointer
  | nilMapWrite     -- assignment to an entry of a nil map
  | mustCompile     -- regexp.MustCompile on text that is not a regular expression
  | unsupportedRegex -- a regular expression of path.go the hand-written matchers were not written for
deriving DecidableEq, Repr

/-! ### strings.* -/

/-- `strings.HasPrefix(s, p)` -/
def hasPrefix : Str → Str → Bool
  | _, [] => true
  | [], _ :: _ => false
  | c :: cs, d :: ds => if c = d then hasPrefix cs ds else false

/-- `strings.HasSuffix(s, suf)` -/
def hasSuffix (s suf : Str) : Bool := hasPrefix s.reverse suf.reverse

/-- `strings.Replace(s, old, new, 1)` for a non-empty `old` -/
def replaceFirst (old new : Str) : Str → Str
  | [] => []
  | c :: cs =>
    if hasPrefix (c :: cs) old then new ++ (c :: cs).drop old.length
    else c :: replaceFirst old new cs

/-- `strings.ReplaceAll(s, old, new)` for a non-empty `old` (leftmost, non-overlapping matches),
    as one pass over the text: `skip` counts the characters of the current match still to drop. -/
def replaceAllSkip (old new : Str) : Nat → Str → Str
  | _, [] => []
  | skip + 1, _ :: cs => replaceAllSkip old new skip cs
  | 0, c :: cs =>
    if hasPrefix (c :: cs) old then new ++ replaceAllSkip old new (old.length - 1) cs
    else c :: replaceAllSkip old new 0 cs

def replaceAll (old new s : Str) : Str := replaceAllSkip old new 0 s

/-- `strings.Split(s, string(sep))` -/
def splitOnChar (sep : Char) : Str → List Str
  | [] => [[]]
  | c :: cs =>
    if c = sep then [] :: splitOnChar sep cs
    else
      match splitOnChar sep cs with
      | [] => [[c]]
      | h :: t => (c :: h) :: t

/-- `strings.Join(parts, sep)` -/
def joinWith (sep : Str) : List Str → Str
  | [] => []
  | [a] => a
  | a :: b :: r => a ++ sep ++ joinWith sep (b :: r)

/-- `strings.LastIndex(s, string(c))` -/
def lastIndexChar (c : Char) (s : Str) : Option Nat := lastIndexOf c 0 s none

/-- `s[lo:hi]`: panics unless `lo ≤ hi ≤ len(s)` -/
def slice (s : Str) (lo hi : Nat) : Except Site Str :=
  if lo ≤ hi ∧ hi ≤ s.length then .ok ((s.take hi).drop lo) else .error .sliceBounds

/-! ### the index expression `(\[.*?]).*?` -/

/-- the expression the matcher below was written for -/
def supportedMatchOnIndex : String := "(\\[.*?]).*?"

/-- `rOnIndex.FindAllStringSubmatch(path, -1)`, hand-written for exactly `(\[.*?]).*?`:
    every match is the text from a `[` to the first following `]` with no newline in between
    (`.` does not match `\n`); the trailing lazy `.*?` matches nothing, so `m[0] = m[1]`.
    The scanner carries the text of the bracket group that is open, if any. -/
def idxScan : Option Str → Str → List Str
  | _, [] => []
  | none, c :: cs => if c = '[' then idxScan (some ['[']) cs else idxScan none cs
  | some acc, c :: cs =>
    if c = ']' then (acc ++ [']']) :: idxScan none cs
    else if c = '\n' then idxScan none cs
    else idxScan (some (acc ++ [c])) cs

def indexMatches (path : Str) : List Str := idxScan none path

/-- `RemovePathIndices` -/
def removePathIndices (path : Str) : Str :=
  (indexMatches path).foldl (fun p m => replaceFirst m [] p) path

/-- what `AnonymizePathIndices` puts in place of one match -/
def anonymizeMatch (m : Str) : Str :=
  let parts := splitOnChar '=' m
  joinWith ['='] (parts.dropLast ++ [['*', ']']])

/-- `AnonymizePathIndices` -/
def anonymizePathIndices (path : Str) : Str :=
  (indexMatches path).foldl (fun p m => replaceFirst m (anonymizeMatch m) p) path

/-- the loop of `ExtractIndexNames` (as repaired: a bracket group without `=` is skipped);
    the two slices are Go slice expressions with computed bounds. -/
def extractIndexLoop : List Str → Except Site (List Str × List Str)
  | [] => .ok ([], [])
  | m :: ms =>
    match lastIndexChar '=' m with
    | none => extractIndexLoop ms
    | some eq =>
      match slice m 1 eq with
      | .error e => .error e
      | .ok name =>
        match slice m (eq + 1) (m.length - 1) with
        | .error e => .error e
        | .ok value =>
          match extractIndexLoop ms with
          | .error e => .error e
          | .ok (ns, vs) => .ok (name :: ns, value :: vs)

/-- `ExtractIndexNames` -/
def extractIndexNames (path : Str) : Except Site (List Str × List Str) :=
  extractIndexLoop (indexMatches path)

/-! ### character classes taken from the translator's constants -/

def stripPrefix? : Str → Str → Option Str
  | s, [] => some s
  | [], _ :: _ => none
  | c :: cs, d :: ds => if c = d then stripPrefix? cs ds else none

def stripSuffix? (s suf : Str) : Option Str :=
  (stripPrefix? s.reverse suf.reverse).map List.reverse

/-- one member of a bracket class: `\x` or a plain character -/
def readAtom : Str → Option (Char × Str)
  | [] => none
  | '\\' :: c :: r => some (c, r)
  | c :: r => some (c, r)

/-- the members of a bracket class body as inclusive ranges (`a-z`, `\-`, `x`) -/
def classItems : Nat → Str → List (Char × Char)
  | 0, _ => []
  | fuel + 1, s =>
    match readAtom s with
    | none => []
    | some (a, r) =>
      match r with
      | '-' :: r2 =>
        match readAtom r2 with
        | some (b, r3) => (a, b) :: classItems fuel r3
        | none => [(a, a), ('-', '-')]
      | _ => (a, a) :: classItems fuel r

def inClass (items : List (Char × Char)) (c : Char) : Bool :=
  items.any fun r => r.1.toNat ≤ c.toNat && c.toNat ≤ r.2.toNat

/-- body of the class of an expression of the shape `pre[BODY]post` -/
def classOf (pre post : String) (re : String) : Option (List (Char × Char)) :=
  match stripPrefix? re.toList pre.toList with
  | none => none
  | some r =>
    match stripSuffix? r post.toList with
    | none => none
    | some body => some (classItems body.length body)

/-- the class of `IndexAllowedChars = ^([…])+$` -/
def indexAllowedClass : Option (List (Char × Char)) :=
  classOf "^([" "])+$" Generated.indexAllowedChars

/-- the class of `validPathRegexp = (/[…]+)+`; usable only if `/` is not a member -/
def validPathClass : Option (List (Char × Char)) :=
  match classOf "(/[" "]+)+" Generated.validPathRegexp with
  | none => none
  | some cls => if inClass cls '/' then none else some cls

/-- `rIndexAllowedChars.MatchString(index)`: non-empty and every character in the class -/
def indexValueAllowed (v : Str) : Except Site Bool :=
  match indexAllowedClass with
  | none => .error .unsupportedRegex
  | some cls => .ok (!v.isEmpty && v.all (inClass cls))

inductive PVState | start | slash | seg
deriving DecidableEq

/-- whole-string match of `(/[C]+)+` (`/ ∉ C`): a DFA over start → slash → seg -/
def pvRun (cls : List (Char × Char)) : PVState → Str → Bool
  | .seg, [] => true
  | _, [] => false
  | .start, c :: cs => if c = '/' then pvRun cls .slash cs else false
  | .slash, c :: cs => if inClass cls c then pvRun cls .seg cs else false
  | .seg, c :: cs =>
    if c = '/' then pvRun cls .slash cs else if inClass cls c then pvRun cls .seg cs else false

/-- `IsPathValid(path) == nil`: `r1.FindString(path) == path`.  The leftmost match equals the whole
    text iff the whole text matches — or the text is empty (no match is reported as `""`). -/
def isPathValid (path : Str) : Except Site Bool :=
  match validPathClass with
  | none => .error .unsupportedRegex
  | some cls => .ok (path.isEmpty || pvRun cls .start path)

/-! ### MatchWildcardRegexp -/

def regexMetaChars : Str := "\\.+*?()|[]{}^$".toList

def isMeta (c : Char) : Bool := regexMetaChars.contains c

/-- `regexp.QuoteMeta` -/
def quoteMeta : Str → Str
  | [] => []
  | c :: cs => if isMeta c then '\\' :: c :: quoteMeta cs else c :: quoteMeta cs

/-- the text `[legalChars]*?` a `*` is replaced by -/
def starClass : Str := '[' :: (Generated.wildcardLegalChars.toList ++ "]*?".toList)

/-- the text `MatchWildcardRegexp(query, exact)` hands to `regexp.MustCompile` -/
def wildcardRegexpText (query : Str) (exact : Bool) : Str :=
  let q1 := quoteMeta query
  let q2 := replaceAll "\\*".toList starClass q1
  let q3 := replaceAll "\\.\\.\\.".toList ".*".toList q2
  '^' :: (q3 ++ (if exact then ['$'] else []))

/-- recogniser of the expression class the text above must stay in (a sound under-approximation of
    what `regexp.Compile` accepts): a sequence of escaped punctuation `\p`, the class text
    `[legalChars]*?`, `.*`, characters that are not metacharacters, and a final `$`.
    One pass; `skip` counts the characters of the class text still to pass over. -/
def regexScan : Nat → Str → Bool
  | _, [] => true
  | skip + 1, _ :: cs => regexScan skip cs
  | 0, c :: cs =>
    if c = '\\' then
      match cs with
      | d :: r => isMeta d && regexScan 0 r
      | [] => false
    else if c = '.' then
      match cs with
      | d :: r => decide (d = '*') && regexScan 0 r
      | [] => false
    else if hasPrefix (c :: cs) starClass then regexScan (starClass.length - 1) cs
    else if c = '$' then cs.isEmpty
    else !isMeta c && regexScan 0 cs

/-- `regexp.MustCompile(text)` does not panic (for texts of the shape `^body` / `^body$`) -/
def compiles (text : Str) : Bool :=
  match text with
  | '^' :: body => regexScan 0 body
  | _ => false

/-- `MatchWildcardRegexp`: the panic of `MustCompile` as a value -/
def matchWildcardRegexp (query : Str) (exact : Bool) : Except Site Str :=
  let t := wildcardRegexpText query exact
  if compiles t then .ok t else .error .mustCompile

end OnosVerif.NB
