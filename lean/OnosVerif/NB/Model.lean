/-
Twin of the pre-store phase of the northbound handlers:

* pkg/northbound/gnmi/v2/set.go, set_utils.go, extensions.go — `Set` up to and including
  `transactions.Create` (extension parsing, emptiness, per-operation target resolution with the
  prefix target winning, `doUpdateOrReplace` / `doDelete`, the size limit, `computeChange`), and
  whether the response can be built (`newUpdateResult`);
* pkg/utils/path/path.go — `FindPathFromModel` (exact / non-exact, the non-exact lookup being the
  textual prefix test it is), `CheckKeyValue`;
* pkg/northbound/gnmi/v2/get.go — `Get` up to the first read of stored values;
* pkg/northbound/gnmi/v2/subscribe.go — `processSubscribeRequest` / `splitSubscribeRequest`;
* pkg/northbound/admin/admin.go — `RollbackTransaction`, `LeafSelectionQuery` (pre-store phase and
  the local merge of the change context); pkg/northbound/gnmi/v2/service.go — `Capabilities`.

Requests are structures with `Option` for every message-typed field (what protobuf decoding can
produce).  Handlers are `Except Fail` programs: a refusal carries the gRPC code the client sees and
its cause, a Go panic is a value.  The value conversion (`GnmiTypedValueToNativeType`,
`ValueToString`) and the plugin's `GetPathValues` are parameters (`Abs`).

Core-only: linked into the `oracle` driver.
-/
import OnosVerif.NB.Text

namespace OnosVerif.NB
open OnosVerif.Path

/-! ## outcomes -/

/-- gRPC status codes the handlers produce -/
inductive Code
  | unknown | invalidArgument | notFound | internal | unavailable | alreadyExists
deriving DecidableEq, Repr

inductive Cause
  -- Set
  | badOverrides | badStrategy | noOps | topoNotFound | noAspect | noPlugin
  | noExactPath | noModelPath | valueConv | indexChars | keyMismatch | pluginErr
  | tooManyTargets | tooManyOps | invalidPath
  -- Get
  | badEncoding | noTarget | noConfig | noConn
  -- Subscribe
  | dupSubscribe | pollFirst | unknownSubMsg | noSubTarget
  -- admin
  | txNotFound
deriving DecidableEq, Repr

inductive Fail
  | refused (code : Code) (cause : Cause)
  | panic (site : Site)
deriving DecidableEq, Repr

/-! ## request structures -/

/-- gnmi.Path: `elem` (v0.4) and the deprecated `element` (v0.3) -/
structure PathMsg where
  target : Str
  elem : GPath
  element : List Str
deriving DecidableEq, Repr, Inhabited

/-- `utils.StrPath` -/
def strPathMsg : Option PathMsg → Str
  | none => ['/']
  | some p =>
    if !p.elem.isEmpty then strPathElem p.elem
    else if !p.element.isEmpty then '/' :: joinWith ['/'] p.element
    else ['/']

/-- the JSON document of an update, as the fake plugin's contract sees it: not parseable, or a
    flat object of strings -/
inductive JsonDoc
  | bad
  | flat (members : List (Str × Str))
deriving DecidableEq, Repr

/-- the `value` oneof of gnmi.TypedValue, as far as `Set` distinguishes its members -/
inductive GVal
  | unset                       -- TypedValue present, oneof not set
  | str (s : Str)
  | ascii (s : Str)
  | int (i : Int)
  | uint (n : Nat)
  | bool (b : Bool)
  | json (doc : JsonDoc)
  | unsupported                 -- json_ietf_val, any_val, proto_bytes: no case in GnmiTypedValueToNativeType
  | opaque (convOk : Bool) (repr : Str)  -- bytes / decimal / float / leaf-list: result and ValueToString supplied
deriving DecidableEq, Repr

structure Update where
  path : Option PathMsg
  val : Option GVal
deriving DecidableEq, Repr

structure TTV where
  type : Str
  version : Str
deriving DecidableEq, Repr

/-- a decoded TargetVersionOverrides: a map entry may lack its value (decodes to a nil pointer) -/
abbrev OvMap := List (Str × Option TTV)

structure Strategy where
  sync : Nat
  isolation : Nat
deriving DecidableEq, Repr

/-- gnmi_ext.Extension: a registered extension carries bytes; what they decode to as a
    TransactionStrategy and as TargetVersionOverrides (`none` = `proto.Unmarshal` fails) is the
    protobuf library's business and supplied with the request. -/
inductive Ext
  | registered (id : Nat) (asStrategy : Option Strategy) (asOverrides : Option OvMap)
  | other
deriving DecidableEq, Repr

structure SetReq where
  pfx : Option PathMsg
  delete : List PathMsg
  replace : List Update
  update : List Update
  exts : List Ext
deriving DecidableEq, Repr

/-! ## environment -/

structure RWPath where
  isAKey : Bool
  attrName : Str
deriving DecidableEq, Repr

structure Plugin where
  name : Str
  version : Str
  rw : List (Str × RWPath)       -- ReadWritePaths, in the iteration order of the Go map
deriving DecidableEq, Repr

structure Configurable where
  type : Str
  version : Str
  persistent : Bool
deriving DecidableEq, Repr

structure Env where
  limit : Int                                  -- gnmiSetSizeLimit
  topo : List (Str × Option Configurable)      -- entity ↦ its Configurable aspect, if any
  plugins : List ((Str × Str) × Plugin)        -- registry: (type, version) ↦ plugin
deriving Repr

inductive TVKind | empty | string | int | uint | bool | opaque
deriving DecidableEq, Repr

/-- a configapi.TypedValue as far as the northbound looks at it: its kind and `ValueToString()` -/
structure TV where
  kind : TVKind
  repr : Str
deriving DecidableEq, Repr

/-- the parameters: value conversion and the plugin's JSON expansion -/
structure Abs where
  conv : Option GVal → RWPath → Except Cause TV
  pathValues : Plugin → Str → JsonDoc → Except Cause (List (Str × TV))

/-! ## association lists (Go maps) -/

/-- `m[k] = v` -/
def mapPut {β : Type} (k : Str) (v : β) : List (Str × β) → List (Str × β)
  | [] => [(k, v)]
  | (k', v') :: r => if k' = k then (k, v) :: r else (k', v') :: mapPut k v r

def mapGet {β : Type} (k : Str) : List (Str × β) → Option β
  | [] => none
  | (k', v) :: r => if k' = k then some v else mapGet k r

def mapPutAll {β : Type} (es : List (Str × β)) (m : List (Str × β)) : List (Str × β) :=
  es.foldl (fun acc e => mapPut e.1 e.2 acc) m

def pluginGet (k : Str × Str) : List ((Str × Str) × Plugin) → Option Plugin
  | [] => none
  | (k', p) :: r => if k' = k then some p else pluginGet k r

/-! ## FindPathFromModel, CheckKeyValue -/

/-- the text the non-exact lookup searches for: the path without indices, plus the name of the
    last index when the path ends with `]` -/
def searchText (path : Str) : Except Site Str :=
  let search := removePathIndices path
  if hasSuffix path [']'] then
    match extractIndexNames path with
    | .error s => .error s
    | .ok (names, _) =>
      match names.getLast? with
      | some n => .ok (search ++ '/' :: n)
      | none => .ok search
  else .ok search

/-- `FindPathFromModel(path, rwPaths, exact)`: (isExactMatch, entry) or the error.  The exact
    failure is a bare gRPC status error, which `errors.Status` reports as Internal. -/
def findPathFromModel (path : Str) (rw : List (Str × RWPath)) (exact : Bool) : Except Fail (Bool × RWPath) :=
  match mapGet (anonymizePathIndices path) rw with
  | some e => .ok (true, e)
  | none =>
    if exact then .error (.refused .internal .noExactPath)
    else
      match searchText path with
      | .error s => .error (.panic s)
      | .ok search =>
        match rw.find? (fun kv => hasPrefix (removePathIndices kv.1) search) with
        | some kv => .ok (false, kv.2)
        | none => .error (.refused .invalidArgument .noModelPath)

/-- `own` of `CheckKeyValue`: the last index whose name is the leaf's attribute name — the key of
    the leaf's own list entry (an enclosing list may have a key of the same name) -/
def ownIdx (attr : Str) : Nat → List Str → Option Nat → Option Nat
  | _, [], last => last
  | i, n :: ns, last => ownIdx attr (i + 1) ns (if n = attr then some i else last)

/-- the second loop of `CheckKeyValue` over the (name, value) pairs of the path's indices; `i` is
    the position of the pair at the head -/
def checkKeyLoop (rw : RWPath) (valStr : Str) (own : Option Nat) : Nat → List Str → List Str → Except Fail Unit
  | _, [], _ => .error (.refused .invalidArgument .keyMismatch)
  | _, _ :: _, [] => .error (.panic .sliceBounds)      -- indexValues[i] out of range (never: same length)
  | i, _ :: ns, v :: vs =>
    match indexValueAllowed v with
    | .error s => .error (.panic s)
    | .ok false => .error (.refused .invalidArgument .indexChars)
    | .ok true =>
      if !rw.isAKey || (own = some i && v = valStr) then .ok ()
      else checkKeyLoop rw valStr own (i + 1) ns vs

/-- `CheckKeyValue(path, rwPath, val)` with `valStr = val.ValueToString()` -/
def checkKeyValue (path : Str) (rw : RWPath) (valStr : Str) : Except Fail Unit :=
  match extractIndexNames path with
  | .error s => .error (.panic s)
  | .ok (names, values) =>
    if names.isEmpty then .ok ()
    else checkKeyLoop rw valStr (ownIdx rw.attrName 0 names none) 0 names values

/-! ## Set -/

structure TInfo where
  plugin : Plugin
  updates : List (Str × TV)      -- target.updates (a Go map: one entry per path)
  removes : List Str             -- target.removes
deriving Repr

structure SetSt where
  targets : List (Str × TInfo)
  overrides : OvMap
deriving Repr

def prefixTarget : Option PathMsg → Str
  | none => []
  | some p => p.target

/-- the target an operation is applied to: `getTargetInfo(…, idPrefix = path target, id = prefix target)` -/
def effTarget (pfx : Option PathMsg) (opTarget : Str) : Str :=
  if Generated.setPrefixTargetWins && (prefixTarget pfx).length > 0 then prefixTarget pfx else opTarget

/-- `prefixPath + path`, the prefix counting only when it is not `/` -/
def effPath (pfx : Option PathMsg) (p : Option PathMsg) : Str :=
  if strPathMsg pfx = ['/'] then strPathMsg p else strPathMsg pfx ++ strPathMsg p

/-- the part of `getTargetInfo` that runs for a target not seen before in this request; an
    override entry decoded without value (a nil pointer) counts as absent and is overwritten -/
def resolveNew (env : Env) (ov : OvMap) (t : Str) : Except Fail (Plugin × OvMap) :=
  match mapGet t env.topo with
  | none => .error (.refused .notFound .topoNotFound)
  | some none => .error (.refused .internal .noAspect)
  | some (some cfg) =>
    match mapGet t ov with
    | some (some ttv) =>
      match pluginGet (ttv.type, ttv.version) env.plugins with
      | none => .error (.refused .notFound .noPlugin)
      | some p => .ok (p, ov)
    | _ =>
      match pluginGet (cfg.type, cfg.version) env.plugins with
      | none => .error (.refused .notFound .noPlugin)
      | some p => .ok (p, mapPut t (some ⟨cfg.type, cfg.version⟩) ov)

/-- `getTargetInfo` -/
def getTargetInfo (env : Env) (st : SetSt) (t : Str) : Except Fail (SetSt × TInfo) :=
  match mapGet t st.targets with
  | some ti => .ok (st, ti)
  | none =>
    match resolveNew env st.overrides t with
    | .error e => .error e
    | .ok (p, ov') =>
      let ti : TInfo := ⟨p, [], []⟩
      .ok (⟨st.targets ++ [(t, ti)], ov'⟩, ti)

/-- what `doUpdateOrReplace` adds to `target.updates` -/
def updEntries (abs : Abs) (pl : Plugin) (pfx : Option PathMsg) (u : Update) : Except Fail (List (Str × TV)) :=
  match u.val with
  | some (.json doc) =>
    match abs.pathValues pl (strPathMsg pfx) doc with
    | .error c => .error (.refused .invalidArgument c)
    | .ok l => .ok l
  | v =>
    let path := effPath pfx u.path
    match findPathFromModel path pl.rw true with
    | .error e => .error e
    | .ok (_, rw) =>
      match abs.conv v rw with
      | .error c => .error (.refused .internal c)
      | .ok tv =>
        match checkKeyValue path rw tv.repr with
        | .error e => .error e
        | .ok () => .ok [(path, tv)]

/-- the path `doDelete` appends to `target.removes` -/
def delPath (pl : Plugin) (pfx : Option PathMsg) (p : PathMsg) : Except Fail Str :=
  let path := effPath pfx (some p)
  match findPathFromModel path pl.rw false with
  | .error e => .error e
  | .ok (isExact, rw) =>
    if isExact && rw.isAKey && !hasSuffix path [']'] then
      match lastIndexChar '/' path with
      | none => .error (.panic .sliceBounds)            -- path[:-1]
      | some i =>
        match slice path 0 i with
        | .error s => .error (.panic s)
        | .ok p' => .ok p'
    else .ok path

inductive Op
  | del (p : PathMsg)
  | upd (u : Update)
deriving DecidableEq, Repr

def opTarget : Op → Str
  | .del p => p.target
  | .upd u => match u.path with
    | none => []
    | some p => p.target

def setTInfo (t : Str) (ti : TInfo) (st : SetSt) : SetSt :=
  { st with targets := mapPut t ti st.targets }

/-- one iteration of one of the three loops of `Set` -/
def applyOp (abs : Abs) (env : Env) (pfx : Option PathMsg) (st : SetSt) (op : Op) : Except Fail SetSt :=
  let t := effTarget pfx (opTarget op)
  match getTargetInfo env st t with
  | .error e => .error e
  | .ok (st1, ti) =>
    match op with
    | .del p =>
      match delPath ti.plugin pfx p with
      | .error e => .error e
      | .ok path => .ok (setTInfo t { ti with removes := ti.removes ++ [path] } st1)
    | .upd u =>
      match updEntries abs ti.plugin pfx u with
      | .error e => .error e
      | .ok es => .ok (setTInfo t { ti with updates := mapPutAll es ti.updates } st1)

def applyOps (abs : Abs) (env : Env) (pfx : Option PathMsg) : SetSt → List Op → Except Fail SetSt
  | st, [] => .ok st
  | st, op :: r =>
    match applyOp abs env pfx st op with
    | .error e => .error e
    | .ok st' => applyOps abs env pfx st' r

/-- the operations in the order `Set` walks them (translator: `setLoopOrder`) -/
def opsOf (req : SetReq) : List Op :=
  Generated.setLoopOrder.flatMap fun k =>
    if k = "Delete" then req.delete.map Op.del
    else if k = "Replace" then req.replace.map Op.upd
    else if k = "Update" then req.update.map Op.upd
    else []

/-- the GNMI_SET_SIZE_LIMIT block (guards from the translator) -/
def limitCheck (limit : Int) (nOps : Nat) (targets : List (Str × TInfo)) : Except Fail Unit :=
  if Generated.setLimitOn limit then
    if Generated.setLimitTargetsGuard targets.length limit then .error (.refused .invalidArgument .tooManyTargets)
    else if targets.any (fun t => Generated.setLimitOpsGuard nOps t.2.updates.length t.2.removes.length limit) then
      .error (.refused .invalidArgument .tooManyOps)
    else .ok ()
  else .ok ()

structure PV where
  deleted : Bool
  value : TV
deriving DecidableEq, Repr

def emptyTV : TV := ⟨.empty, []⟩

def pathsValid : List Str → Except Fail Unit
  | [] => .ok ()
  | p :: r =>
    match isPathValid p with
    | .error s => .error (.panic s)
    | .ok false => .error (.refused .invalidArgument .invalidPath)
    | .ok true => pathsValid r

/-- the checks of `computeChange` on every path: `NewChangeValue` (`IsPathValid`) and
    `checkPathParses` (the path must parse back into gNMI elements, as the response needs it) -/
def pathsUsable : List Str → Except Fail Unit
  | [] => .ok ()
  | p :: r =>
    match isPathValid p with
    | .error s => .error (.panic s)
    | .ok false => .error (.refused .invalidArgument .invalidPath)
    | .ok true =>
      match parsePath p with
      | .error _ => .error (.refused .invalidArgument .invalidPath)
      | .ok _ => pathsUsable r

/-- `computeChange`: every path is checked; deletes are written after updates and win on the same path -/
def computeChange (ti : TInfo) : Except Fail (List (Str × PV)) :=
  match pathsUsable (ti.updates.map Prod.fst ++ ti.removes) with
  | .error e => .error e
  | .ok () =>
    .ok (ti.removes.foldl (fun m p => mapPut p ⟨true, emptyTV⟩ m) (ti.updates.map fun e => (e.1, ⟨false, e.2⟩)))

def computeChanges : List (Str × TInfo) → Except Fail (List (Str × List (Str × PV)))
  | [] => .ok []
  | (t, ti) :: r =>
    match computeChange ti with
    | .error e => .error e
    | .ok ch =>
      match computeChanges r with
      | .error e => .error e
      | .ok rest => .ok ((t, ch) :: rest)

def extIdStrategy : Nat := 111
def extIdOverrides : Nat := 112

/-- `getTargetVersionOverrides`: the first registered extension with id 112 decides -/
def findOverrides : List Ext → Option OvMap
  | [] => some []
  | .registered id _ o :: r => if id = extIdOverrides then o else findOverrides r
  | .other :: r => findOverrides r

/-- `getTransactionStrategy`: the first registered extension with id 111 decides -/
def findStrategy : List Ext → Option Strategy
  | [] => some ⟨0, 0⟩
  | .registered id s _ :: r => if id = extIdStrategy then s else findStrategy r
  | .other :: r => findStrategy r

/-- what `Set` hands to `transactions.Create` -/
structure TxRecord where
  changes : List (Str × List (Str × PV))
  overrides : OvMap
  strategy : Strategy
deriving Repr

/-- `Set` from the extension parsing to `newTransaction` (everything before the first store call) -/
def setPre (abs : Abs) (env : Env) (req : SetReq) : Except Fail TxRecord :=
  match findOverrides req.exts with
  | none => .error (.refused .invalidArgument .badOverrides)
  | some ov =>
    match findStrategy req.exts with
    | none => .error (.refused .invalidArgument .badStrategy)
    | some strat =>
      if Generated.setEmptyGuard req.update.length req.replace.length req.delete.length then
        .error (.refused .invalidArgument .noOps)
      else
        match applyOps abs env req.pfx ⟨[], ov⟩ (opsOf req) with
        | .error e => .error e
        | .ok st =>
          match limitCheck env.limit (req.update.length + req.replace.length + req.delete.length) st.targets with
          | .error e => .error e
          | .ok () =>
            match computeChanges st.targets with
            | .error e => .error e
            | .ok ch => .ok ⟨ch, st.overrides, strat⟩

/-- the (target, path) pairs of a transaction -/
def TxRecord.pairs (tx : TxRecord) : List (Str × Str) :=
  tx.changes.flatMap fun tc => tc.2.map fun e => (tc.1, e.1)

/-- can the SetResponse be built?  `newUpdateResult` parses every path back into elements. -/
def respondOK (tx : TxRecord) : Bool :=
  tx.pairs.all fun tp => match parsePath tp.2 with
    | .ok _ => true
    | .error _ => false

/-! ## server state: the transaction log and which configurations exist -/

inductive LogEntry
  | change (tx : TxRecord)
  | rollback (index : Nat)
deriving Repr

/-- what is known about a stored configuration's `Values` map -/
inductive CfgState
  | empty      -- exists, no committed value: `Values` is a nil map
  | values     -- exists with committed values
  | touched    -- created or changed by a transaction driven through the controllers
deriving DecidableEq, Repr

structure NBState where
  env : Env
  log : List LogEntry
  configs : List (Str × CfgState)
  subscribed : Bool              -- subContext.req != nil
deriving Repr

def NBState.init (env : Env) : NBState := ⟨env, [], [], false⟩

instance : Inhabited NBState := ⟨NBState.init ⟨0, [], []⟩⟩

/-- `configuration.NewID`: `target-type-version` -/
def configID (t ty ver : Str) : Str := t ++ '-' :: ty ++ '-' :: ver

def touch (id : Str) (cs : List (Str × CfgState)) : List (Str × CfgState) :=
  match mapGet id cs with
  | some .values => cs
  | _ => mapPut id .touched cs

/-- configurations the controllers create / change for an accepted transaction: one per target,
    named by the type/version recorded in the transaction's overrides -/
def touchedBy (tx : TxRecord) (cs : List (Str × CfgState)) : List (Str × CfgState) :=
  tx.changes.foldl (fun acc tc =>
    match mapGet tc.1 tx.overrides with
    | some (some ttv) => touch (configID tc.1 ttv.type ttv.version) acc
    | _ => acc) cs

inductive SetOutcome
  | accepted (tx : TxRecord) (respOK : Bool)
  | failed (f : Fail)
deriving Repr

/-- the `Set` handler on the server state: the log grows exactly when `setPre` accepts -/
def handleSet (abs : Abs) (st : NBState) (req : SetReq) : SetOutcome × NBState :=
  match setPre abs st.env req with
  | .error f => (.failed f, st)
  | .ok tx => (.accepted tx (respondOK tx),
      { st with log := st.log ++ [.change tx], configs := touchedBy tx st.configs })

/-! ## Get -/

structure GetReq where
  pfx : Option PathMsg
  paths : List PathMsg
  encoding : Nat           -- JSON 0, BYTES 1, PROTO 2, ASCII 3, JSON_IETF 4
  dtype : Nat              -- ALL 0, CONFIG 1, STATE 2, OPERATIONAL 3
  exts : List Ext
deriving DecidableEq, Repr

inductive GetOutcome
  | allTargets             -- answered by reportAllTargets
  | reached                -- the stored values were read: the rest is the value layer's business
  | relayed                -- STATE / OPERATIONAL: relayed to the targets
deriving DecidableEq, Repr

/-- `addTarget` up to and including `configurations.Get` -/
def addTarget (st : NBState) (ov : OvMap) (t : Str) : Except Fail Unit :=
  match mapGet t st.env.topo with
  | none => .error (.refused .notFound .topoNotFound)
  | some none => .error (.refused .internal .noAspect)
  | some (some cfg) =>
    let key := match mapGet t ov with
      | some (some ttv) => (ttv.type, ttv.version)
      | _ => (cfg.type, cfg.version)       -- an entry without value counts as absent
    (
      match pluginGet key st.env.plugins with
      | none => .error (.refused .notFound .noPlugin)
      | some p =>
        match mapGet (configID t p.name p.version) st.configs with
        | none => .error (.refused .notFound .noConfig)
        | some _ => .ok ())

def getTargetOf (pfx : Option PathMsg) (p : PathMsg) : Str :=
  if p.target.isEmpty then prefixTarget pfx else p.target

/-- the regular expression `getUpdate` builds for one path: `MatchWildcardRegexp(pathAsString, false)` -/
def getPathRegexp (pfx : Option PathMsg) (p : PathMsg) : Except Site Str :=
  let s := strPathMsg (some p)
  let s := match pfx with
    | some q => if !q.elem.isEmpty then strPathMsg pfx ++ s else s
    | none => s
  let s := if hasSuffix s ['/'] then s.dropLast else s
  matchWildcardRegexp s false

/-- the path loop of `processRequest`; `seen` are the targets already added -/
def getLoop (st : NBState) (ov : OvMap) (pfx : Option PathMsg) : List Str → List PathMsg → Except Fail (Option GetOutcome)
  | _, [] => .ok none
  | seen, p :: r =>
    if p.target = ['*'] || prefixTarget pfx = ['*'] then .ok (some .allTargets)
    else
      let t := getTargetOf pfx p
      if t.isEmpty then .error (.refused .invalidArgument .noTarget)
      else
        match (if seen.contains t then Except.ok () else addTarget st ov t) with
        | .error e => .error e
        | .ok () => getLoop st ov pfx (if seen.contains t then seen else t :: seen) r

/-- the `getUpdate` calls that follow the loop: one `MatchWildcardRegexp` per path -/
def getRegexps (pfx : Option PathMsg) : List PathMsg → Except Fail Unit
  | [] => .ok ()
  | p :: r =>
    match getPathRegexp pfx p with
    | .error s => .error (.panic s)
    | .ok _ => getRegexps pfx r

/-- `processStateOrOperationalRequest`: every path needs a target, every target a connection -/
def getState (st : NBState) (pfx : Option PathMsg) (paths : List PathMsg) : Except Fail GetOutcome :=
  if paths.any (fun p => (getTargetOf pfx p).isEmpty) then .error (.refused .invalidArgument .noTarget)
  else if paths.all (fun p => match mapGet (getTargetOf pfx p) st.env.topo with
      | some (some _) => true
      | _ => false) then .ok .relayed
  else .error (.refused .unavailable .noConn)

/-- `Get` -/
def handleGet (st : NBState) (req : GetReq) : Except Fail GetOutcome :=
  if req.encoding ≠ 2 ∧ req.encoding ≠ 4 ∧ req.encoding ≠ 0 then .error (.refused .invalidArgument .badEncoding)
  else
    match findStrategy req.exts with
    | none => .error (.refused .invalidArgument .badStrategy)
    | some _ =>
      if req.dtype = 2 ∨ req.dtype = 3 then getState st req.pfx req.paths
      else
        match findOverrides req.exts with
        | none => .error (.refused .internal .badOverrides)     -- a status error wrapped twice
        | some ov =>
          match getLoop st ov req.pfx [] req.paths with
          | .error e => .error e
          | .ok (some o) => .ok o
          | .ok none =>
            if req.paths.isEmpty then
              match req.pfx with
              | none => .ok .reached
              | some q =>
                if q.target.isEmpty then .error (.refused .invalidArgument .noTarget)
                else
                  match addTarget st ov q.target with
                  | .error (.refused _ c) => .error (.refused .invalidArgument c)   -- errors.NewInvalid(err.Error())
                  | .error e => .error e
                  | .ok () =>
                    match matchWildcardRegexp (strPathMsg req.pfx) false with
                    | .error s => .error (.panic s)
                    | .ok _ => .ok .reached
            else
              match getRegexps req.pfx req.paths with
              | .error e => .error e
              | .ok () => .ok .reached

/-! ## Subscribe -/

inductive SubMsg
  | subscribe (pfx : Option PathMsg) (subs : List (Option PathMsg))
  | poll
  | other                  -- aliases, or no request at all
deriving DecidableEq, Repr

def subPathTarget : Option PathMsg → Str
  | none => []
  | some p => p.target

/-- group the subscriptions by the target of their path; entries without target are left out -/
def splitSubs : List (Option PathMsg) → List (Str × Nat) → List (Str × Nat)
  | [], acc => acc
  | s :: r, acc =>
    let t := subPathTarget s
    if t.isEmpty then splitSubs r acc
    else
      match mapGet t acc with
      | some n => splitSubs r (mapPut t (n + 1) acc)
      | none => splitSubs r (acc ++ [(t, 1)])

/-- `splitSubscribeRequest`: target ↦ number of subscriptions in its request -/
def splitSubscribe (pfx : Option PathMsg) (subs : List (Option PathMsg)) : Except Fail (List (Str × Nat)) :=
  let pt := prefixTarget pfx
  if !pt.isEmpty then .ok [(pt, subs.length)]
  else
    let tr := splitSubs subs []
    if tr.isEmpty then .error (.refused .unknown .noSubTarget) else .ok tr

inductive SubOutcome
  | split (treqs : List (Str × Nat))
  | polled
deriving DecidableEq, Repr

/-- `processSubscribeRequest` -/
def handleSubMsg (st : NBState) (m : SubMsg) : Except Fail SubOutcome × NBState :=
  match m with
  | .subscribe pfx subs =>
    if st.subscribed then (.error (.refused .unknown .dupSubscribe), st)
    else
      let st' := { st with subscribed := true }
      match splitSubscribe pfx subs with
      | .error e => (.error e, st')
      | .ok tr => (.ok (.split tr), st')
  | .poll =>
    if !st.subscribed then (.error (.refused .unknown .pollFirst), st) else (.ok .polled, st)
  | .other => (.error (.refused .unknown .unknownSubMsg), st)

/-- one stream: messages are processed until the first error -/
def handleSubStream : NBState → List SubMsg → List (Except Fail SubOutcome)
  | _, [] => []
  | st, m :: r =>
    match handleSubMsg st m with
    | (.error e, _) => [.error e]
    | (.ok o, st') => .ok o :: handleSubStream st' r

/-! ## admin -/

/-- `RollbackTransaction`: appends a rollback record, whatever the index -/
def handleRollback (st : NBState) (index : Nat) : NBState :=
  { st with log := st.log ++ [.rollback index],
            configs := st.configs.map fun c => match c.2 with
              | .empty => c
              | _ => (c.1, .touched) }

structure LeafSelReq where
  target : Str
  type : Str
  version : Str
  selectionPath : Str
  change : Option SetReq
deriving DecidableEq, Repr

inductive LeafSelOutcome
  | reached                -- the configuration was rendered and handed to the plugin
deriving DecidableEq, Repr

/-- the change-context loops of `LeafSelectionQuery`: updates, replaces, deletes against one plugin -/
def leafUpdates (abs : Abs) (pl : Plugin) (pfx : Option PathMsg) : List Update → List (Str × TV) → Except Fail (List (Str × TV))
  | [], acc => .ok acc
  | u :: r, acc =>
    match updEntries abs pl pfx u with
    | .error e => .error e
    | .ok es => leafUpdates abs pl pfx r (mapPutAll es acc)

def leafDeletes (pl : Plugin) (pfx : Option PathMsg) : List PathMsg → Except Fail Unit
  | [] => .ok ()
  | p :: r =>
    match delPath pl pfx p with
    | .error e => .error e
    | .ok _ => leafDeletes pl pfx r

/-- the local merge of the change context: the number of merged update paths, if a context with
    operations was given -/
def leafMerge (abs : Abs) (pl : Plugin) (change : Option SetReq) : Except Fail (Option Nat) :=
  match change with
  | none => .ok none
  | some ch =>
    if ch.update.length + ch.replace.length + ch.delete.length > 0 then
      match leafUpdates abs pl ch.pfx (ch.update ++ ch.replace) [] with
      | .error e => .error e
      | .ok ups =>
        match leafDeletes pl ch.pfx ch.delete with
        | .error e => .error e
        | .ok () =>
          match pathsValid (ups.map Prod.fst) with
          | .error (.refused _ c) => .error (.refused .unknown c)    -- returned bare, not as a status
          | .error e => .error e
          | .ok () => .ok (some ups.length)
    else .ok none

/-- `LeafSelectionQuery` -/
def handleLeafSel (abs : Abs) (st : NBState) (req : LeafSelReq) : Except Fail LeafSelOutcome :=
  match mapGet (configID req.target req.type req.version) st.configs with
  | none => .error (.refused .notFound .noConfig)
  | some _ =>
    match pluginGet (req.type, req.version) st.env.plugins with
    | none => .error (.refused .invalidArgument .noPlugin)
    | some pl =>
      match leafMerge abs pl req.change with
      | .error e => .error e
      | .ok _ => .ok .reached      -- the value map is allocated before the merge, whatever `cs`

def capStep (acc : List Str) (kp : (Str × Str) × Plugin) : List Str :=
  if acc.contains (kp.2.name ++ '!' :: kp.2.version) then acc else (kp.2.name ++ '!' :: kp.2.version) :: acc

/-- `Capabilities`: the number of distinct (name, version) models of the registered plugins -/
def handleCapabilities (st : NBState) : Nat := (st.env.plugins.foldl capStep []).length

/-- `GetTransaction` by index -/
def handleGetTx (st : NBState) (index : Nat) : Except Fail Unit :=
  if 0 < index ∧ index ≤ st.log.length then .ok () else .error (.refused .notFound .txNotFound)

/-! ## the concrete parameters the driver runs with -/

def natToStr (n : Nat) : Str := (toString n).toList
def intToStr (i : Int) : Str := (toString i).toList

/-- `GnmiTypedValueToNativeType` followed by `ValueToString`, for the value kinds the harness sends -/
def concreteConv (v : Option GVal) (_ : RWPath) : Except Cause TV :=
  match v with
  | some (.str s) => .ok ⟨.string, s⟩
  | some (.ascii s) => .ok ⟨.string, s⟩
  | some (.int i) => .ok ⟨.int, intToStr i⟩
  | some (.uint n) => .ok ⟨.uint, natToStr n⟩
  | some (.bool b) => .ok ⟨.bool, if b then "true".toList else "false".toList⟩
  | some (.opaque true r) => .ok ⟨.opaque, r⟩
  | _ => .error .valueConv

/-- the fake plugin's `GetPathValues` (harness/internal/nbenv): every member of the flat document
    becomes the string value of `pathPrefix + member` (`/` counting as the empty prefix) -/
def concretePathValues (_ : Plugin) (prefixPath : Str) (doc : JsonDoc) : Except Cause (List (Str × TV)) :=
  match doc with
  | .bad => .error .pluginErr
  | .flat ms =>
    let pp := if prefixPath = ['/'] then [] else prefixPath
    .ok (ms.map fun kv => (pp ++ kv.1, ⟨.string, kv.2⟩))

def concreteAbs : Abs := ⟨concreteConv, concretePathValues⟩

end OnosVerif.NB
