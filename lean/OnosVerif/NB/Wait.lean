/-
Twin of the wait loop of `Set` (pkg/northbound/gnmi/v2/set.go) and `RollbackTransaction`
(pkg/northbound/admin/admin.go): the handler creates the transaction, subscribes to it
(`Watch(WithReplay, WithTransactionID)`), and reads events until one decides the answer.

* The two comparison expressions of the loop (success, failure) and the `Failure.Type → errors.New<Kind>`
  switch are NOT written here: they are the truth tables and the table the translator regenerates from
  the Go sources (`OnosVerif.Generated.WaitFacts`).
* The transaction's status is a path: the status at creation followed by every later status write.
  What the handler is shown of it follows from the watch semantics of the v2 transaction store (C15:
  listener registered before the replay read, the dispatcher forwards everything it takes after the
  registration, in order): the status current at the replay read (`path[j]`), then every write the
  dispatcher had not yet taken when the listener registered (`path.drop (k+1)`, `k ≤ j`) — so events
  OLDER than the replayed one and duplicates of it may follow it, nothing after the registration is
  lost.  `k` and `j` range over every placement of the controllers' progress relative to the handler's
  "create" and "subscribe" steps (none, some, all phases done in between).
* The response of a successful Set is built from the handler's own transaction object: one result per
  (target, path) of its change map, `DELETE` iff the path value is a delete, plus the id and the index
  that `Create` wrote back into the object.

Core-only: linked into the `oracle` driver.
-/
import OnosVerif.Generated.Facts

namespace OnosVerif.NB.Wait
open OnosVerif.Generated.WaitFacts

abbrev Str := List Char

/-- `Transaction.Status`: the state and the recorded failure (`none` = nil `Failure`). -/
structure Status where
  state : TxState
  failure : Option FailType := none
deriving DecidableEq, Repr

inductive Handler
  | set | rollback
deriving DecidableEq, Repr

def successTable : Handler → List (TxSync × TxState)
  | .set => setWaitSuccess
  | .rollback => rollbackWaitSuccess

def failedTable : Handler → List (TxSync × TxState)
  | .set => setWaitFailed
  | .rollback => rollbackWaitFailed

def failureSwitch : Handler → List (FailType × ErrKind)
  | .set => setFailureSwitch
  | .rollback => rollbackFailureSwitch

def failureDefault : Handler → ErrKind
  | .set => setFailureDefault
  | .rollback => rollbackFailureDefault

def failureNil : Handler → ErrKind
  | .set => setFailureNil
  | .rollback => rollbackFailureNil

/-- `switch Failure.Type { … default: … }`, or the nil branch. -/
def failureKind (h : Handler) : Option FailType → ErrKind
  | none => failureNil h
  | some t => (((failureSwitch h).find? (fun r => r.1 == t)).map (·.2)).getD (failureDefault h)

inductive Outcome
  | ok
  | err (k : ErrKind)
  /-- the event channel was closed: the request's context is done, the handler returns `ctx.Err()` -/
  | ctxDone
deriving DecidableEq, Repr

/-- the loop over a success table, a failure table and a failure mapping. -/
def waitLoopT (succ failed : List (TxSync × TxState)) (fk : Option FailType → ErrKind) (sync : TxSync) :
    List Status → Outcome
  | [] => .ctxDone
  | e :: rest =>
    if succ.contains (sync, e.state) then .ok
    else if failed.contains (sync, e.state) then .err (fk e.failure)
    else waitLoopT succ failed fk sync rest

/-- `for transactionEvent := range eventCh { if … else if … }` of the handler as it is now. -/
def waitLoop (h : Handler) (sync : TxSync) (evs : List Status) : Outcome :=
  waitLoopT (successTable h) (failedTable h) (failureKind h) sync evs

/-- what the handler is shown of a status path: replay read after `j` writes, the dispatcher had taken `k ≤ j`
    writes when the listener registered. -/
def shown (path : List Status) (k j : Nat) : List Status := (path[j]?).toList ++ path.drop (k + 1)

/-- the synchronicity the handler's transaction carries (`RollbackTransaction` fixes it). -/
def effectiveSync (h : Handler) (requested : TxSync) : TxSync :=
  match h with
  | .set => requested
  | .rollback => rollbackSynchronicity

/-! ### the response -/

/-- `Transaction.GetChange().Values`: target ↦ path ↦ deleted? -/
abbrev Change := List (Str × List (Str × Bool))

/-- the `UpdateResult`s, in the order the two nested map iterations yield them. -/
def results (c : Change) : List (Str × Str × Bool) :=
  c.flatMap (fun tp => tp.2.map (fun pd => (tp.1, pd.1, pd.2)))

structure Response where
  outcome : Outcome
  results : List (Str × Str × Bool)
  index : Nat
deriving Repr

/-- the whole answer of `Set`: the outcome of the wait loop; on success the results, and the index `Create`
    handed back. -/
def answer (h : Handler) (requested : TxSync) (path : List Status) (k j : Nat) (c : Change) (index : Nat) : Response :=
  let o := waitLoop h (effectiveSync h requested) (shown path k j)
  match o, h with
  | .ok, .set => { outcome := o, results := results c, index := index }
  | .ok, .rollback => { outcome := o, results := [], index := index }
  | _, _ => { outcome := o, results := [], index := 0 }

/-! ### the property's own vocabulary -/

/-- the stage the caller asked to wait for: committed or any later successful stage for asynchronous requests,
    applied for synchronous ones. -/
def awaited (sync : TxSync) (st : TxState) : Bool :=
  match sync, st with
  | .asynchronous, .committed => true
  | .asynchronous, .applied => true
  | .synchronous, .applied => true
  | _, _ => false

/-- nothing the caller waits for can still happen. -/
def finished (sync : TxSync) (st : TxState) : Bool := awaited sync st || st == .failed

/-- the error kind that carries a failure type's own class. -/
def ownKind : Option FailType → ErrKind
  | none => .unknown
  | some .unknown => .unknown | some .canceled => .canceled | some .notFound => .notFound
  | some .alreadyExists => .alreadyExists | some .unauthorized => .unauthorized | some .forbidden => .forbidden
  | some .conflict => .conflict | some .invalid => .invalid | some .unavailable => .unavailable
  | some .notSupported => .notSupported | some .timeout => .timeout | some .internal => .internal
  | some .other => .unknown

/-- the success table before commit 9f3a01d: an asynchronous request answered on COMMITTED only. -/
def preFixSuccess : List (TxSync × TxState) := [(.asynchronous, .committed), (.synchronous, .applied)]

end OnosVerif.NB.Wait
