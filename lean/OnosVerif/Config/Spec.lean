/-
gNMI reference semantics for the value path (C03, C06 values part), over the same *textual* paths
the configuration store uses, but with **element-boundary** containment.

`under q p` — "q is p or lies beneath p at a path-element boundary" — is the formal reading of
"the addressed node and everything beneath it at path-element boundaries" for the textual form:
an element of a path text ends at `/` (next element) or at `[` (the keys of the list the element
names), so
    under q p  :=  q = p  ∨  q starts with p ++ "/"  ∨  q starts with p ++ "["
(the same relation as `elemPrefix` of harness/props/v2proto/gen.go and `boundaryPrefix` of the C18
specification).  For the canonical text of structured paths (`OnosVerif.Path.strPathElem`) "q starts
with p ++ "/"" is "the elements of p are a proper prefix of the elements of q"
(`OnosVerif.Tree.prefix_of_text`, proved for C18); the general correspondence with C16's parse is
not restated here.

`Spec.apply st change` removes every leaf under a deleted path of `change`, then sets the updated
leaves (deletes before updates, gNMI specification 3.4.3); `Spec.run` folds it over a history.
Core-only (no Mathlib): nothing here mirrors Go code.
-/
import OnosVerif.Config.Model

namespace OnosVerif.Config
open OnosVerif.Path (Str strLt)

/-- `q` is `p` or lies beneath `p` at a path-element boundary. -/
def under (q p : Str) : Bool := q = p || hasPrefix q (p ++ ['/']) || hasPrefix q (p ++ ['['])

/-- the code's notion: `p` is a proper *textual* prefix of `q`. -/
def strictlyBelow (q p : Str) : Bool := hasPrefix q p && q ≠ p

namespace Spec

/-- a configuration: leaves (path, value) with pairwise different paths, in any order. -/
abbrev State := List (Str × Str)

def get (st : State) (p : Str) : Option Str := (st.find? (fun kv => kv.1 = p)).map (·.2)

/-- set the leaf `p` to `v` (an existing leaf keeps its position). -/
def set (st : State) (p v : Str) : State :=
  if st.any (fun kv => kv.1 = p) then st.map (fun kv => if kv.1 = p then (p, v) else kv) else st ++ [(p, v)]

/-- the deleted paths of a request. -/
def deletes (change : VMap) : List Str := (change.filter (·.deleted)).map (·.path)

/-- one Set request with gNMI semantics: first every leaf under a deleted path goes, then the
    updated leaves are set. -/
def apply (st : State) (change : VMap) : State :=
  (change.filter (fun c => !c.deleted)).foldl (fun s c => set s c.path c.value)
    (st.filter (fun kv => !(deletes change).any (fun d => under kv.1 d)))

def run (st : State) (hist : List VMap) : State := hist.foldl apply st

def insertPair (e : Str × Str) : List (Str × Str) → List (Str × Str)
  | [] => [e]
  | x :: xs => if strLt e.1 x.1 then e :: x :: xs else x :: insertPair e xs

/-- what a Get of the whole configuration shows: the leaves in path order (comparable with `live`). -/
def view (st : State) : List (Str × Str) := st.foldr insertPair []

end Spec

/-! ### histories -/

/-- one committed request as the twin sees it: transaction index, change values (in the
    iteration order of the Go map) and the order in which the updated change is applied. -/
structure Step where
  idx : Nat
  change : VMap
  ordU : VMap → VMap

/-- the stored side map after the commits of a history. -/
def runTwin (side : VMap) (steps : List Step) : VMap :=
  steps.foldl (fun s t => commitValues t.idx s t.change t.ordU) side

/-- the paths of a map are pairwise different (it is a Go map). -/
def nodupPaths : VMap → Bool
  | [] => true
  | e :: r => r.all (fun x => x.path ≠ e.path) && nodupPaths r

def paths (m : VMap) : List Str := m.map (·.path)
def written (m : VMap) : List Str := (m.filter (fun c => !c.deleted)).map (·.path)

/-- one request of a clean history, relative to the paths deleted (`D`), used (`U`) and written
    (`W`) by the earlier requests.  (a)–(d) are the conditions of the Go function `CleanHistory`
    (harness/props/v2proto/monitors.go); (e) is needed in addition (see
    `C03_leaf_with_descendants_full_fails`): a written leaf has nothing used beneath it. -/
def cleanStep (D U W : List Str) (ch : VMap) : Bool :=
  nodupPaths ch && ch.all (fun c => !c.path.isEmpty) &&
  ch.all (fun c =>
    -- (a) nothing strictly (textually) below a path deleted earlier
    D.all (fun d => !strictlyBelow c.path d) &&
    -- (b) no delete above a path deleted earlier (nested tombstones)
    (!c.deleted || D.all (fun d => !strictlyBelow d c.path)) &&
    -- (c) nothing textually below another, deleted path of the same request
    ch.all (fun c' => c'.path = c.path || !c'.deleted || !hasPrefix c.path c'.path) &&
    -- (d) a deleted path is a textual prefix only of paths it contains at an element boundary
    (!c.deleted || (U ++ paths ch).all (fun q => !hasPrefix q c.path || under q c.path)) &&
    -- (e) a written leaf has no used path beneath it, and nothing is used beneath a written leaf
    (c.deleted || (U ++ paths ch).all (fun q => !under q c.path || q = c.path)) &&
    W.all (fun w => !under c.path w || c.path = w))

def cleanFrom (D U W : List Str) : List VMap → Bool
  | [] => true
  | ch :: rest =>
    cleanStep D U W ch && cleanFrom (D ++ Spec.deletes ch) (U ++ paths ch) (W ++ written ch) rest

/-- `Clean`: the decidable predicate on histories (lists of change maps) for which the value path
    refines the gNMI semantics.  No rollback: a history here consists of Set requests only. -/
def Clean (hist : List VMap) : Bool := cleanFrom [] [] [] hist

/-- the index discipline of the transaction controller: every change value carries the index of
    its transaction (`Tx.lean`: `{ pv with index := t.index }`), indices strictly increase and
    exceed `lo`. -/
def indexed (lo : Nat) : List Step → Bool
  | [] => true
  | t :: rest => decide (lo < t.idx) && t.change.all (fun c => c.index = t.idx) && indexed t.idx rest

/-- a Get would return a value at `p`. -/
def readable (side : VMap) (p : Str) : Bool := side.any (fun e => e.path = p && !e.deleted)

/-- the change can be rolled back (C06): every path of the change that the change deletes, or that
    was not readable before (so that the rollback deletes it again), has no stored path strictly
    (textually) below it and no other path of the change below it.  Leaf updates, leaf deletes,
    overwrites and creation of new leaves without stored textual extensions qualify; the delete
    of a path with stored descendants does not. -/
def rollbackSafe (side ch : VMap) : Bool :=
  ch.all fun c' =>
    !(c'.deleted || !readable side c'.path) ||
      (side.all (fun e => !strictlyBelow e.path c'.path) &&
       ch.all (fun c => c.path = c'.path || !hasPrefix c.path c'.path))

/-- an admissible iteration order: some permutation. -/
def IsPerm (ordU : VMap → VMap) : Prop := ∀ m, (ordU m).Perm m

end OnosVerif.Config
