/-
Twin of the value path of a commit (DESIGN.md §6 C03/C06):
  AddDeleteChildren            pkg/controller/utils/utils.go
  applyChangeToConfig          pkg/controller/v2/proposal/controller.go
  reconcileCommit (values)     pkg/controller/v2/proposal/controller.go
  reconcileValidate (rollback capture, candidate values)
  PrunePathValues / PrunePathMap   pkg/utils/v2/tree/tree.go
  configurationStore.store / populate   pkg/store/v2/configuration/configuration.go
  Get's filter                 pkg/northbound/gnmi/v2/get.go (live values matching the query)

A Go `map[string]*PathValue` is a list of entries with unique paths; the order of the list is the
iteration order of the map, so "for every iteration order" is "for every permutation".
Core-only: linked into the `oracle` driver.
-/
import OnosVerif.Path.Model

namespace OnosVerif.Config
open OnosVerif.Path (Str getParentPath strLt)

/-- configapi.PathValue; the typed value is carried as an opaque byte string. -/
structure PV where
  path : Str
  value : Str
  deleted : Bool
  index : Nat
deriving DecidableEq, Repr, Inhabited

abbrev VMap := List PV

def VMap.get (m : VMap) (p : Str) : Option PV := m.find? (fun e => e.path = p)

def VMap.has (m : VMap) (p : Str) : Bool := m.any (fun e => e.path = p)

/-- `m[e.path] = e` (an existing key keeps its position in the iteration order). -/
def VMap.set (m : VMap) (e : PV) : VMap :=
  if m.has e.path then m.map (fun x => if x.path = e.path then e else x) else m ++ [e]

/-- `delete(m, p)` -/
def VMap.erase (m : VMap) (p : Str) : VMap := m.filter (fun e => e.path ≠ p)

/-- `strings.HasPrefix(s, pre)` -/
def hasPrefix : Str → Str → Bool
  | _, [] => true
  | [], _ :: _ => false
  | c :: cs, p :: ps => c = p && hasPrefix cs ps

/-- the inner loop of `AddDeleteChildren` for one deleted change value `c`: every stored value
    whose path has `c.path` as a proper textual prefix is marked deleted *in place* (the store's own
    entry object is mutated) and added to the updated change. -/
def cascadeOne (idx : Nat) (cpath : Str) : VMap → VMap → VMap → VMap × VMap
  | [], upd, store => (upd, store)
  | v :: rest, upd, store =>
    if hasPrefix v.path cpath && v.path ≠ cpath then
      let v' : PV := { v with index := idx, deleted := true }
      cascadeOne idx cpath rest (upd.set v') (store.set v')
    else cascadeOne idx cpath rest upd store

/-- `AddDeleteChildren(index, changeValues, configStore)`; returns the updated change and the
    (mutated) store map.  `change` is listed in the iteration order of the Go map. -/
def addDeleteChildren (idx : Nat) : VMap → VMap → VMap → VMap × VMap
  | [], upd, store => (upd, store)
  | c :: rest, upd, store =>
    if c.deleted then
      -- the inner loop ranges over the store as it is when the loop starts
      let r := cascadeOne idx c.path store upd store
      addDeleteChildren idx rest (r.1.set c) r.2
    else addDeleteChildren idx rest (upd.set c) store

/-- the walk up the parents in `applyChangeToConfig`: the nearest ancestor (by `GetParentPath`)
    that is in the map and marked deleted. -/
def deletedParent (values : VMap) : Nat → Str → Option PV
  | 0, _ => none
  | fuel + 1, path =>
    let parent := getParentPath path
    if parent.isEmpty then none
    else
      match values.get parent with
      | some v => if v.deleted then some v else deletedParent values fuel parent
      | none => deletedParent values fuel parent

/-- `applyChangeToConfig(values, path, value)`: the new map and the removed deleted parent. -/
def applyChangeToConfig (values : VMap) (value : PV) : VMap × Option PV :=
  let values := values.set value
  match deletedParent values value.path.length value.path with
  | some v => (values.erase v.path, some v)
  | none => (values, none)

/-- the loop of `reconcileCommit` over the updated change (in its iteration order). -/
def applyAll : VMap → VMap → VMap
  | [], values => values
  | u :: rest, values => applyAll rest (applyChangeToConfig values u).1

/-- sort by path (`sort.Slice` with `<` on the paths; paths are unique so stability is moot) -/
def insertSorted (e : PV) : List PV → List PV
  | [] => [e]
  | x :: xs => if strLt e.path x.path then e :: x :: xs else x :: insertSorted e xs

def sortByPath (l : List PV) : List PV := l.foldr insertSorted []

/-- the loop of `PrunePathValues` over the sorted paths. -/
def pruneLoop (leaveTop : Bool) : List PV → Str → List PV
  | [], _ => []
  | pv :: rest, deleting =>
    let starts := pv.deleted && (deleting.isEmpty || !hasPrefix pv.path deleting)
    let deleting1 := if starts then pv.path else deleting
    let top : List PV := if starts && leaveTop then [pv] else []
    if deleting1.isEmpty || !hasPrefix pv.path deleting1 then
      top ++ pv :: pruneLoop leaveTop rest []
    else top ++ pruneLoop leaveTop rest deleting1

/-- `PrunePathValues(paths, leaveTopDeletedPaths)` -/
def prunePathValues (paths : List PV) (leaveTop : Bool) : List PV :=
  pruneLoop leaveTop (sortByPath paths) []

/-- `configurationStore.store(sideMap, values)`: for every entry of `values` (and only those)
    insert / remove / update-if-index-differs against the side map. -/
def storeLoop (pruned : List PV) : VMap → VMap → VMap
  | [], side => side
  | pv :: rest, side =>
    let inPruned := pruned.any (fun e => e.path = pv.path)
    match side.get pv.path with
    | none => storeLoop pruned rest (if inPruned then side ++ [pv] else side)
    | some entry =>
      if !inPruned then storeLoop pruned rest (side.erase pv.path)
      else if pv.index ≠ entry.index then storeLoop pruned rest (side.set pv)
      else storeLoop pruned rest side

def store (side : VMap) (values : VMap) : VMap :=
  storeLoop (prunePathValues values true) values side

/-- the values half of `reconcileCommit` + `configurations.Update`: from the committed side map
    `side` (what `Get`/`populate` returns as `config.Values`) and the change, the new side map.
    `change` and the order in which the updated change is applied are iteration orders:
    `ordU` reorders the updated change before it is applied. -/
def commitValues (idx : Nat) (side : VMap) (change : VMap) (ordU : VMap → VMap) : VMap :=
  let r := addDeleteChildren idx change [] side
  let values := applyAll (ordU r.1) r.2
  store side values

/-- what a Get returns for the whole target: live (not deleted) values. -/
def live (side : VMap) : List (Str × Str) :=
  (sortByPath (side.filter (fun e => !e.deleted))).map (fun e => (e.path, e.value))

/-- rollback capture of `reconcileValidate` for a change proposal: the candidate map, the
    rollback values. -/
def captureLoop (config : VMap) : VMap → VMap → VMap → VMap × VMap
  | [], cand, rb => (cand, rb)
  | c :: rest, cand, rb =>
    let r := applyChangeToConfig cand c
    let rb1 := match r.2 with
      | some dv => rb.set dv
      | none => rb
    let rb2 := match config.get c.path with
      | some cv => rb1.set cv
      | none => rb1.set { path := c.path, value := [], deleted := true, index := 0 }
    captureLoop config rest r.1 rb2

def rollbackValues (side : VMap) (change : VMap) : VMap := (captureLoop side change side []).2

/-- the candidate the plugin validates for a change: `config.Values ⊕ change` (pruned inside
    BuildTree with leaveTop = false). -/
def validateCandidate (side : VMap) (change : VMap) : List (Str × Str) :=
  let cand := (captureLoop side change side []).1
  ((prunePathValues cand false).filter (fun e => !e.deleted)).map (fun e => (e.path, e.value))

end OnosVerif.Config
