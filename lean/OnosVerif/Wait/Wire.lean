/- Line-protocol handlers for the wait-loop twin of C08 (I/O glue, not part of the model).
   `wait.run h=<set|rollback> sync=<0|1> j=<n> path=<P,V,C,A,F,F7,…> change=<thex:phex:0|1;…|-> idx=<n>` -/
import OnosVerif.Base.Wire
import OnosVerif.NB.Wait

namespace OnosVerif.Wait
open OnosVerif.Wire
open OnosVerif.NB.Wait
open OnosVerif.Generated.WaitFacts

def failOfNat : Nat → FailType
  | 0 => .unknown | 1 => .canceled | 2 => .notFound | 3 => .alreadyExists | 4 => .unauthorized | 5 => .forbidden
  | 6 => .conflict | 7 => .invalid | 8 => .unavailable | 9 => .notSupported | 10 => .timeout | 11 => .internal
  | _ => .other

def decStatus (tok : String) : Option Status :=
  match tok with
  | "P" => some { state := .pending }
  | "V" => some { state := .validated }
  | "C" => some { state := .committed }
  | "A" => some { state := .applied }
  | "F" => some { state := .failed }
  | _ =>
    if tok.startsWith "F" then do
      let n ← (tok.drop 1).toString.toNat?
      pure { state := .failed, failure := some (failOfNat n) }
    else none

def encKind : ErrKind → String
  | .unknown => "Unknown" | .canceled => "Canceled" | .notFound => "NotFound" | .alreadyExists => "AlreadyExists"
  | .unauthorized => "Unauthorized" | .forbidden => "Forbidden" | .conflict => "Conflict" | .invalid => "Invalid"
  | .unavailable => "Unavailable" | .notSupported => "NotSupported" | .timeout => "Timeout" | .internal => "Internal"
  | .other => "other"

def decChange (s : String) : Option Change :=
  if s == "-" then some [] else do
    let items ← (s.splitOn ";").mapM fun it =>
      match it.splitOn ":" with
      | [t, p, d] => do pure ((← decStr t), (← decStr p), d == "1")
      | _ => none
    -- group by target, keeping first-appearance order
    pure (items.foldl (fun (acc : Change) (tpd : List Char × List Char × Bool) =>
      if acc.any (fun x => x.1 == tpd.1) then acc.map (fun x => if x.1 == tpd.1 then (x.1, x.2 ++ [(tpd.2.1, tpd.2.2)]) else x)
      else acc ++ [(tpd.1, [(tpd.2.1, tpd.2.2)])]) [])

def insertSorted (a : String) : List String → List String
  | [] => [a]
  | b :: bs => if a < b then a :: b :: bs else b :: insertSorted a bs

def argOf (args : List String) (key : String) : Option String :=
  args.findSome? fun a => if a.startsWith (key ++ "=") then some (a.drop (key.length + 1)).toString else none

def handle (op : String) (args : List String) : Option String :=
  match op with
  | "run" => do
    let h ← match (← argOf args "h") with
      | "set" => some Handler.set | "rollback" => some Handler.rollback | _ => none
    let sync := if (← argOf args "sync") == "1" then TxSync.synchronous else TxSync.asynchronous
    let j ← (← argOf args "j").toNat?
    let pathArg ← argOf args "path"
    let path ← if pathArg.isEmpty then some [] else (pathArg.splitOn ",").mapM decStatus
    let c ← decChange (← argOf args "change")
    let idx ← (← argOf args "idx").toNat?
    -- the harness holds the later writes back until the replayed event has been handed to the handler (replay read
    -- after exactly j writes); how far the store's dispatcher had got when the listener registered (k ≤ j) is
    -- not under its control: the answer is the set over k
    -- `win` further writes are made after the handler's Watch call has returned and before the consumer side takes the
    -- replayed event (a slow consumer): they follow the registration, so they are forwarded; the replay read itself
    -- may fall anywhere among them
    let win := ((argOf args "win").bind (·.toNat?)).getD 0
    let full := ({ state := .pending } : Status) :: path
    let renderAt := fun (k jr : Nat) =>
      let r := answer h sync full k jr c idx
      match r.outcome with
      | .ok =>
        let rs := (r.results.map fun (x : List Char × List Char × Bool) =>
          encStr x.1 ++ "|" ++ encStr x.2.1 ++ "|" ++ (if x.2.2 = true then "D" else "U")).foldr insertSorted []
        "ok idx=" ++ toString r.index ++ " results=" ++ ",".intercalate rs
      | .err k => "err " ++ encKind k
      | .ctxDone => "ctx"
    let jrs := (List.range (win + 1)).map (· + j) |>.filter (· < full.length)
    let answers := ((List.range (j + 1)).flatMap fun k => jrs.map fun jr => renderAt k jr).eraseDups.foldr insertSorted []
    match answers with
    | [a] => pure a
    | _ => pure ("oneof " ++ " || ".intercalate answers)
  | _ => none

def handleIO (op : String) (args : List String) : IO (Option String) := pure (handle op args)

end OnosVerif.Wait
