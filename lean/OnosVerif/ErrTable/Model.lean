/-
Twin of the error tables behind C11 (tables part):

* the apply-path classification of a southbound error — v2 `reconcileApply`
  (pkg/controller/v2/proposal/controller.go), v3 `applyChange` / `applyRollback`
  (pkg/controller/v3/transaction/controller.go): the outer `switch code` (retry / wait / fail) and
  the nested failure-type switch, both **regenerated** from the current sources
  (`Generated.v2ApplyOuter`, …), and the way `code` is computed from the error (`errorCode`,
  `Generated.v2CodeSource`);
* the conversion the southbound client applies (`errors.FromGRPC`, if `Generated.clientSetWrapsFromGRPC`);
* the dependency tables `errors.FromGRPC`, `errors.Status`, `status.Code` — hand-written here from
  onos-lib-go v0.10.17 / grpc-go, tied to the dependency by the correspondence over all 17 codes;
* the `Failure.Type → errors.NewX` switches of gnmi `Set` and admin `RollbackTransaction`
  (`Generated.reportedSet`, `reportedAdmin`).

Core-only: linked into the `oracle` driver.
-/
import OnosVerif.Generated.Facts
import OnosVerif.ErrTable.Types

namespace OnosVerif.ErrTable

/-- an `error` value as these tables distinguish them. -/
inductive Err
  | nil
  | typed (t : ErrType)     -- an onos-lib-go `*errors.TypedError`
  | status (c : Code)       -- a gRPC status error (`status.Error(c, …)`), c ≠ OK
  | plain                   -- any other error
deriving DecidableEq, Repr

/-- `status.Error(c, msg)`: nil for OK. -/
def statusError (c : Code) : Err := if c = .ok then .nil else .status c

/-- `errors.FromGRPC` (onos-lib-go): the switch on `stat.Code()`; a non-status error becomes
    `Unknown`; codes without a case become `Unknown`. -/
def fromGRPC : Err → Err
  | .nil => .nil
  | .plain => .typed .unknown
  | .typed _ => .typed .unknown      -- a TypedError is not a gRPC status: `status.FromError` fails
  | .status c =>
    match c with
    | .ok => .nil
    | .unknown => .typed .unknown
    | .canceled => .typed .canceled
    | .notFound => .typed .notFound
    | .alreadyExists => .typed .alreadyExists
    | .unauthenticated => .typed .unauthorized
    | .permissionDenied => .typed .forbidden
    | .failedPrecondition => .typed .conflict
    | .invalidArgument => .typed .invalid
    | .unavailable => .typed .unavailable
    | .unimplemented => .typed .notSupported
    | .deadlineExceeded => .typed .timeout
    | .internal => .typed .internal
    | _ => .typed .unknown

/-- `errors.Status(err).Code()` (onos-lib-go): nil is OK, a non-typed error is Internal. -/
def libStatusCode : Err → Code
  | .nil => .ok
  | .typed t => statusOfType t
  | _ => .internal

/-- `status.Code(err)` (grpc-go): nil is OK, anything that is not a status error is Unknown. -/
def grpcStatusCode : Err → Code
  | .nil => .ok
  | .status c => c
  | _ => .unknown

/-- the code the apply path switches on, following the extracted (guard, function) list. -/
def codeOf (src : List (String × String)) (e : Err) : Option Code :=
  match src with
  | [] => none
  | (guard, fn) :: rest =>
    let applies := match guard, e with
      | "typed", .typed _ => true
      | "typed", _ => false
      | "else", _ => true
      | _, _ => true
    if applies then
      match fn with
      | "errors.Status.Code" => some (libStatusCode e)
      | "status.Code" => some (grpcStatusCode e)
      | _ => none
    else codeOf rest e

/-- what the apply path does with a change whose southbound Set failed. -/
inductive Action
  | retry                       -- the error is returned: the change stays pending, re-queued with back-off
  | wait                        -- nothing is recorded: the change stays pending until mastership moves
  | fail (f : FailureType)      -- the change is recorded as failed with this class
  | unknown                     -- a construct the translator / this model does not understand
deriving DecidableEq, Repr

def clauseFor (outer : List (List String × String)) (c : Code) : Option String :=
  match outer.find? (fun cl => cl.1.contains c.name) with
  | some cl => some cl.2
  | none => (outer.find? (fun cl => cl.1.isEmpty)).map (·.2)

def failureFor (inner : List (String × String)) (dflt : String) (c : Code) : Option FailureType :=
  match inner.find? (fun p => p.1 == c.name) with
  | some p => FailureType.ofName p.2
  | none => FailureType.ofName dflt

/-- the two nested switches as a function of the code. -/
def actionOfCode (outer : List (List String × String)) (inner : List (String × String)) (dflt : String)
    (c : Code) : Action :=
  match clauseFor outer c with
  | some "retry" => .retry
  | some "wait" => .wait
  | some "fail" => (failureFor inner dflt c).elim .unknown .fail
  | _ => .unknown

/-- v2 `reconcileApply` on a non-nil southbound error. -/
def v2Action (e : Err) : Action :=
  match codeOf Generated.v2CodeSource e with
  | some c => actionOfCode Generated.v2ApplyOuter Generated.v2ApplyFailure Generated.v2ApplyFailureDefault c
  | none => .unknown

def v3ChangeAction (e : Err) : Action :=
  match codeOf Generated.v3ChangeCodeSource e with
  | some c => actionOfCode Generated.v3ChangeOuter Generated.v3ChangeFailure Generated.v3ChangeFailureDefault c
  | none => .unknown

def v3RollbackAction (e : Err) : Action :=
  match codeOf Generated.v3RollbackCodeSource e with
  | some c => actionOfCode Generated.v3RollbackOuter Generated.v3RollbackFailure Generated.v3RollbackFailureDefault c
  | none => .unknown

/-- the error the reconciler receives when the device answers a Set with gRPC code `c`. -/
def southboundErr (c : Code) : Err :=
  if Generated.clientSetWrapsFromGRPC then fromGRPC (statusError c) else statusError c

/-- the running composition: device code → client conversion → `code` → switches. -/
def v2DeviceAction (c : Code) : Action := v2Action (southboundErr c)
def v3ChangeDeviceAction (c : Code) : Action := v3ChangeAction (southboundErr c)
def v3RollbackDeviceAction (c : Code) : Action := v3RollbackAction (southboundErr c)

/-- the switches read directly on the device's code (what their author wrote them for). -/
def v2Table (c : Code) : Action :=
  actionOfCode Generated.v2ApplyOuter Generated.v2ApplyFailure Generated.v2ApplyFailureDefault c

/-! ### reporting a failed transaction to the caller -/

/-- `Failure.Type → errors.NewX` followed by `errors.Status(err).Code()`; `none` = the transaction
    carries no `Failure`; a type outside the enumeration takes the default. -/
def reportedCode (tbl : List (String × String)) (dflt nilCtor : String) (f : Option (Option FailureType)) : Option Code :=
  let ctor : String :=
    match f with
    | none => nilCtor
    | some none => dflt
    | some (some ft) =>
      match tbl.find? (fun p => p.1 == ft.name) with
      | some p => p.2
      | none => dflt
  (ErrType.ofName ctor).map statusOfType

def setReported := reportedCode Generated.reportedSet Generated.reportedSetDefault Generated.reportedSetNil
def adminReported := reportedCode Generated.reportedAdmin Generated.reportedAdminDefault Generated.reportedAdminNil

end OnosVerif.ErrTable
