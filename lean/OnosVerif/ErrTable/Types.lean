/-
gRPC status codes, onos-lib-go typed-error kinds and onos-api failure types: the three finite
vocabularies every error table of the system is written in (C11; also used by C14 for the code of
an RBAC refusal).  Names are the Go identifiers, so the translator's output (which speaks in Go
identifiers) is mapped into these types by `ofName`.

Core-only: linked into the `oracle` driver.
-/
namespace OnosVerif.ErrTable

/-- `google.golang.org/grpc/codes.Code` (0..16). -/
inductive Code
  | ok | canceled | unknown | invalidArgument | deadlineExceeded | notFound | alreadyExists
  | permissionDenied | resourceExhausted | failedPrecondition | aborted | outOfRange
  | unimplemented | internal | unavailable | dataLoss | unauthenticated
deriving DecidableEq, Repr, Inhabited

def Code.all : List Code :=
  [.ok, .canceled, .unknown, .invalidArgument, .deadlineExceeded, .notFound, .alreadyExists,
   .permissionDenied, .resourceExhausted, .failedPrecondition, .aborted, .outOfRange,
   .unimplemented, .internal, .unavailable, .dataLoss, .unauthenticated]

/-- the numeric value of the code (`codes.OK = 0` … `codes.Unauthenticated = 16`). -/
def Code.toNat : Code → Nat
  | .ok => 0 | .canceled => 1 | .unknown => 2 | .invalidArgument => 3 | .deadlineExceeded => 4
  | .notFound => 5 | .alreadyExists => 6 | .permissionDenied => 7 | .resourceExhausted => 8
  | .failedPrecondition => 9 | .aborted => 10 | .outOfRange => 11 | .unimplemented => 12
  | .internal => 13 | .unavailable => 14 | .dataLoss => 15 | .unauthenticated => 16

/-- the Go identifier in package `codes`. -/
def Code.name : Code → String
  | .ok => "OK" | .canceled => "Canceled" | .unknown => "Unknown"
  | .invalidArgument => "InvalidArgument" | .deadlineExceeded => "DeadlineExceeded"
  | .notFound => "NotFound" | .alreadyExists => "AlreadyExists"
  | .permissionDenied => "PermissionDenied" | .resourceExhausted => "ResourceExhausted"
  | .failedPrecondition => "FailedPrecondition" | .aborted => "Aborted" | .outOfRange => "OutOfRange"
  | .unimplemented => "Unimplemented" | .internal => "Internal" | .unavailable => "Unavailable"
  | .dataLoss => "DataLoss" | .unauthenticated => "Unauthenticated"

def Code.ofName (s : String) : Option Code := Code.all.find? (fun c => c.name == s)

def Code.ofNum (n : Nat) : Option Code := Code.all.find? (fun c => c.toNat == n)

/-- `onos-lib-go/pkg/errors.Type` (iota order). -/
inductive ErrType
  | unknown | canceled | notFound | alreadyExists | unauthorized | forbidden | conflict | invalid
  | unavailable | notSupported | timeout | internal
deriving DecidableEq, Repr, Inhabited

def ErrType.all : List ErrType :=
  [.unknown, .canceled, .notFound, .alreadyExists, .unauthorized, .forbidden, .conflict, .invalid,
   .unavailable, .notSupported, .timeout, .internal]

/-- the Go identifier (`errors.Unknown` …; also the suffix of the constructor `errors.NewUnknown`). -/
def ErrType.name : ErrType → String
  | .unknown => "Unknown" | .canceled => "Canceled" | .notFound => "NotFound"
  | .alreadyExists => "AlreadyExists" | .unauthorized => "Unauthorized" | .forbidden => "Forbidden"
  | .conflict => "Conflict" | .invalid => "Invalid" | .unavailable => "Unavailable"
  | .notSupported => "NotSupported" | .timeout => "Timeout" | .internal => "Internal"

def ErrType.ofName (s : String) : Option ErrType := ErrType.all.find? (fun c => c.name == s)

/-- `configapi.Failure_Type` (v2 and v3 have the same twelve members, 0..11). -/
inductive FailureType
  | unknown | canceled | notFound | alreadyExists | unauthorized | forbidden | conflict | invalid
  | unavailable | notSupported | timeout | internal
deriving DecidableEq, Repr, Inhabited

def FailureType.all : List FailureType :=
  [.unknown, .canceled, .notFound, .alreadyExists, .unauthorized, .forbidden, .conflict, .invalid,
   .unavailable, .notSupported, .timeout, .internal]

/-- the Go identifier without its `Failure_` prefix. -/
def FailureType.name : FailureType → String
  | .unknown => "UNKNOWN" | .canceled => "CANCELED" | .notFound => "NOT_FOUND"
  | .alreadyExists => "ALREADY_EXISTS" | .unauthorized => "UNAUTHORIZED" | .forbidden => "FORBIDDEN"
  | .conflict => "CONFLICT" | .invalid => "INVALID" | .unavailable => "UNAVAILABLE"
  | .notSupported => "NOT_SUPPORTED" | .timeout => "TIMEOUT" | .internal => "INTERNAL"

def FailureType.ofName (s : String) : Option FailureType := FailureType.all.find? (fun c => c.name == s)

/-- `errors.Status(err)` restricted to typed errors: the switch of onos-lib-go `errors.Status`
    (hand-written; tied to the dependency by the C11 correspondence over all twelve types). -/
def statusOfType : ErrType → Code
  | .unknown => .unknown | .canceled => .canceled | .notFound => .notFound
  | .alreadyExists => .alreadyExists | .unauthorized => .unauthenticated
  | .forbidden => .permissionDenied | .conflict => .failedPrecondition
  | .invalid => .invalidArgument | .unavailable => .unavailable | .notSupported => .unimplemented
  | .timeout => .deadlineExceeded | .internal => .internal

end OnosVerif.ErrTable
