/- Line-protocol handlers for the error tables (I/O glue, not part of the model).

  <err> = nil | s:<n> (gRPC status error with code n) | t:<TypeName> (onos-lib-go typed error) | plain
  errtable.fromgrpc <err>     errors.FromGRPC:              `nil` | `typed <TypeName>` | `status <Code>` | `plain`
  errtable.libstatus <err>    errors.Status(err).Code():     `<Code>`
  errtable.grpccode <err>     status.Code(err):              `<Code>`
  errtable.apply v2 <dev>     v2 reconcileApply with the device answering <dev> = ok | s:<n> | plain:
                              `applied` | `retry` | `wait` | `fail <FAILURE_TYPE>`
  errtable.reported set|admin nil|f:<n>   status reported for a FAILED transaction with that Failure.Type: `<Code>`
-/
import OnosVerif.Base.Wire
import OnosVerif.ErrTable.Model

namespace OnosVerif.ErrTable

def decErr (tok : String) : Option Err :=
  if tok == "nil" then some .nil
  else if tok == "plain" then some .plain
  else if tok.startsWith "s:" then do
    let n ← (tok.drop 2).toString.toNat?
    let c ← Code.ofNum n
    pure (statusError c)
  else if tok.startsWith "t:" then (ErrType.ofName (tok.drop 2).toString).map Err.typed
  else none

def encErr : Err → String
  | .nil => "nil"
  | .plain => "plain"
  | .typed t => "typed " ++ t.name
  | .status c => "status " ++ c.name

def encAction : Action → String
  | .retry => "retry"
  | .wait => "wait"
  | .fail f => "fail " ++ f.name
  | .unknown => "unknown"

def failureOfNum (n : Nat) : Option FailureType := FailureType.all[n]?

def handle (op : String) (args : List String) : Option String :=
  match op, args with
  | "fromgrpc", [e] => (decErr e).map fun x => encErr (fromGRPC x)
  | "libstatus", [e] => (decErr e).map fun x => (libStatusCode x).name
  | "grpccode", [e] => (decErr e).map fun x => (grpcStatusCode x).name
  | "apply", ["v2", d] =>
    if d == "ok" then some "applied"
    else if d == "plain" then
      -- the client hands back errors.FromGRPC(err) of a non-status error
      some (encAction (v2Action (if Generated.clientSetWrapsFromGRPC then fromGRPC .plain else .plain)))
    else if d.startsWith "s:" then do
      let n ← (d.drop 2).toString.toNat?
      let c ← Code.ofNum n
      if c = .ok then pure "applied" else pure (encAction (v2DeviceAction c))
    else none
  | "reported", [which, f] => do
    let arg : Option (Option FailureType) ←
      if f == "nil" then some none
      else if f.startsWith "f:" then (fun n => some (failureOfNum n)) <$> (f.drop 2).toString.toNat?
      else none
    let r ← match which with
      | "set" => some (setReported arg)
      | "admin" => some (adminReported arg)
      | _ => none
    pure ((r.map Code.name).getD "?")
  | _, _ => none

def handleIO (op : String) (args : List String) : IO (Option String) := pure (handle op args)

end OnosVerif.ErrTable
