/-
`oracle`: the line-protocol driver.  One operation per input line (`<area>.<op> args…`), one
answer line per operation.  Core-only so that it links as a `lean_exe`.
-/
import Driver.Handlers

def dispatch (line : String) : IO String := do
  let toks := (line.trimAscii.toString.splitOn " ").filter (· ≠ "")
  match toks with
  | [] => pure "bad-op"
  | cmd :: args =>
    match cmd.splitOn "." with
    | [modName, op] => do
      let r ← Driver.dispatchIO modName op args
      pure (r.getD "bad-op")
    | _ => pure "bad-op"

partial def loop (hin : IO.FS.Stream) (hout : IO.FS.Stream) : IO Unit := do
  let line ← hin.getLine
  if line.isEmpty then return ()
  hout.putStrLn (← dispatch line)
  hout.flush
  loop hin hout

def main : IO Unit := do
  loop (← IO.getStdin) (← IO.getStdout)
