/-
`oracle`: the line-protocol driver.  One operation per input line (`<module>.<op> args…`), one
answer line per operation.  Core-only so that it links as a `lean_exe`.
-/
import OnosVerif.Path.Wire

open OnosVerif

def dispatch (line : String) : String :=
  let toks := (line.trimAscii.toString.splitOn " ").filter (· ≠ "")
  match toks with
  | [] => "bad-op"
  | cmd :: args =>
    match cmd.splitOn "." with
    | [modName, op] =>
      let r : Option String :=
        match modName with
        | "path" => Path.handle op args
        | _ => none
      r.getD "bad-op"
    | _ => "bad-op"

partial def loop (hin : IO.FS.Stream) (hout : IO.FS.Stream) : IO Unit := do
  let line ← hin.getLine
  if line.isEmpty then return ()
  hout.putStrLn (dispatch line)
  hout.flush
  loop hin hout

def main : IO Unit := do
  loop (← IO.getStdin) (← IO.getStdout)
