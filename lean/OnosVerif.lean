-- Root of the `OnosVerif` library: every model, proof and property module.
import OnosVerif.Base.Wire
import OnosVerif.Path.Model
import OnosVerif.Path.Wire
