#!/bin/bash
# usage: tools/corr.sh <corr-id> [seed] [tier] [extra corr flags]  — developer helper: rebuilds and runs one correspondence stream
id=$1; seed=${2:-1}; tier=${3:-quick}; shift; shift; shift
V=$(cd "$(dirname "$0")/.." && pwd); cd "$V" && ./check --setup > .work/setup.out 2>&1 || { tail -20 .work/setup.out | cut -c1-300; exit 2; }
GOMAXPROCS=16 GOMEMLIMIT=8GiB .work/bin/corr -prop $id -tier $tier -seed $seed -oracle lean/.lake/build/bin/oracle -verif "$V" -out .work/$id.dev.json "$@" 2> .work/$id.dev.err | cut -c1-420 | tail -14
