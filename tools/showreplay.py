#!/usr/bin/env python3
"""print a replay: the script, and for the first disagreeing line the differing state segments"""
import json, sys, re
r = json.load(open(sys.argv[1]))
sc, ro, to = r['case']['script'], r['real_out'], r.get('twin_out') or []
print("verdict:", r.get('verdict', '')[:200])
dis = next((i for i in range(len(sc)) if i < len(ro) and i < len(to) and ro[i] != to[i]), None)
lo = max(0, (dis or 0) - int(sys.argv[2]) if len(sys.argv) > 2 else 0)
for i, l in enumerate(sc):
    if i < lo: continue
    mark = '>>' if i == dis else '  '
    print(mark, i, l[:220])
    if i == dis:
        def segs(s):
            head = s.split(' TX[')[0]
            d = {'head': head}
            for m in re.finditer(r'(TX|PR|CF|DEV|LOG)\[(.*?)\](?= |$)', s):
                d[m.group(1)] = m.group(2)
            return d
        a, b = segs(ro[i]), segs(to[i])
        for k in a:
            if a.get(k) != b.get(k):
                print('   real', k, a.get(k, '')[:1500]); print('   twin', k, b.get(k, '')[:1500])
        break
