#!/bin/bash
# usage: tools/eval_mutant.sh <worktree> <patch> <prop> [<prop>...]   — applies the patch in the scratch worktree,
# runs ./check <prop> against it (VERIF_REPO), reverts the patch. Prints one summary line per property.
wt=$1; patch=$2; shift 2
cd "$wt" || exit 2
git apply "$patch" || { echo "PATCH-DOES-NOT-APPLY $patch"; exit 2; }
export GOFLAGS=-mod=mod GOPROXY=off GOSUMDB=off GOTOOLCHAIN=local
if ! go build ./... >/dev/null 2>&1 || ! go build -tags verif ./... > /dev/null 2>&1; then echo "MUTANT-DOES-NOT-BUILD"; fi
for p in "$@"; do
  ( cd /verif && VERIF_REPO="$wt" timeout 1800 ./check $p > /verif/.work/mut.$p.out 2>&1; rc=$?
    echo "  $p rc=$rc $(grep -c '^VIOLATION' /verif/.work/mut.$p.out) violations: $(grep '^VIOLATION\|^NOTE' /verif/.work/mut.$p.out | head -3 | cut -c1-160 | tr '\n' '|')"
    grep '^DETAIL' /verif/.work/mut.$p.out | head -2 | cut -c1-260 )
done
cd "$wt" && git checkout -- . && git status --short | grep -v "^??" | head -3
