#!/usr/bin/env python3
# compact view of a v2proto replay: script lines, and for v2.auto/v2.drain lines only steps/quiescent + TX and PR summaries
import json,sys,re
d=json.load(open(sys.argv[1]))
sc=d['case'].get('script') or d['case'].get('Script')
print("verdict:",d.get('verdict','')[:200])
for i,(l,o) in enumerate(zip(sc,d['real_out'])):
    if l.startswith(('v2.auto','v2.drain','v2.state')):
        head=o.split(' trace=')[0][:60]
        tx=re.search(r'TX\[(.*?)\]( |$)',o); pr=re.search(r'PR\[(.*?)\]( |$)',o); cf=re.search(r'CF\[(.*?)\]( |$)',o)
        prs=';'.join(re.sub(r',rb=.*','',x) for x in (pr.group(1).split(';') if pr else []))
        cfs=';'.join(re.sub(r',vals=.*','',x) for x in (cf.group(1).split(';') if cf else []))
        tr=re.search(r'trace=(\S*)',o)
        print(i,l[:90],'=>',head,'\n     TX',tx.group(1)[:300] if tx else '','\n     PR',prs[:400],'\n     CF',cfs[:200],'\n     tail-trace',(tr.group(1)[-160:] if tr else ''))
    else:
        print(i,l[:130],'=>',o[:30])
