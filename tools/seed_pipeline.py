#!/usr/bin/env python3
"""Confirms, adopts and evaluates one seeded change delivered by a sub-agent.

usage: tools/seed_pipeline.py <PROP> <N> [--src /tmp/mut3/<PROP>/out/m<N>] [--wt /tmp/mut3/<PROP>/wt] [--no-eval]

1. confirm (in the scratch worktree <wt>, never in /repo): the demonstration passes on the unchanged
   tree, fails with patch.diff applied; the patched tree builds with and without -tags verif and
   passes the existing suite of both modules; the worktree is left clean.  -> confirm.log
2. adopt: copy patch.diff, demo/, NOTES.md, confirm.log to /verif/seeded/<PROP>-m<N>/ and write meta.json.
3. evaluate: rsync /verif to an evaluation copy (so that work in /verif is not disturbed), apply the
   patch in a second scratch worktree, run `VERIF_REPO=<worktree> ./check <PROP>` there, record the
   verdict in meta.json ("detected_by") and print it.
"""
import json, os, re, subprocess, sys, glob, shutil, time

env = dict(os.environ, GOFLAGS="-mod=mod", GOPROXY="off", GOSUMDB="off", GOTOOLCHAIN="local")
VERIF = "/verif"
VCOPY = os.environ.get("SEED_VCOPY", "/tmp/vcopy")
EVALWT = os.environ.get("SEED_EVALWT", "/tmp/mut/EVAL3")


def sh(cmd, cwd=None, timeout=None):
    p = subprocess.run(cmd, shell=True, cwd=cwd, env=env, stdout=subprocess.PIPE, stderr=subprocess.STDOUT, text=True, timeout=timeout)
    return p.returncode, p.stdout


def demo_dir(readme, default):
    m = re.search(r"mkdir(?:\s+-p)?\s+([^\s;&]+)", readme)
    if not m:
        return default
    d = m.group(1).strip("\"'").rstrip("/")
    d = re.sub(r"^\$\{?\w+\}?/", "", d)          # $WT/demo -> demo
    d = re.sub(r"^/tmp/mut3/\w+/wt/", "", d)
    return d if d and not d.startswith(("-", "$", "/")) else default


def confirm(prop, n, src, wt, log):
    def L(s):
        log.append(s)
    rc, out = sh("git status --short", cwd=wt)
    if out.strip():
        L("worktree not clean at start:\n" + out)
        sh("git checkout -q -- . && git clean -fdq", cwd=wt)
    readme = open(os.path.join(src, "demo", "README.md")).read() if os.path.exists(os.path.join(src, "demo", "README.md")) else ""
    d = demo_dir(readme, "zz_demo_%s_m%s" % (prop.lower(), n))
    if d.startswith("/"):
        d = os.path.relpath(d, wt)
    dd = os.path.join(wt, d)
    existed = os.path.isdir(dd)
    os.makedirs(dd, exist_ok=True)
    placed = []
    for f in sorted(glob.glob(os.path.join(src, "demo", "*.txt"))):
        dst = os.path.join(dd, os.path.basename(f)[:-4])
        shutil.copy(f, dst)
        placed.append(dst)
    L("demo placed in %s: %s" % (d, [os.path.basename(p) for p in placed]))
    test = "go test -tags verif -vet=off -count=1 ./%s/ 2>&1 | grep -E '^(--- |ok|FAIL|PASS|panic)' | head -20" % d

    def cleanup_demo():
        for p in placed:
            if os.path.exists(p):
                os.remove(p)
        if not existed:
            shutil.rmtree(dd, ignore_errors=True)
    rc, out1 = sh(test, cwd=wt, timeout=1500)
    L("$ (unchanged) " + test + "\n" + out1)
    pass_unchanged = bool(re.search(r"^ok\s", out1, re.M)) and "FAIL" not in out1
    rc, out = sh("git apply %s/patch.diff" % src, cwd=wt)
    if rc != 0:
        L("patch does not apply: " + out)
        cleanup_demo()
        return False, {}
    rc, out2 = sh(test, cwd=wt, timeout=1500)
    L("$ (patched) " + test + "\n" + out2)
    fail_patched = "FAIL" in out2 or "panic" in out2
    cleanup_demo()
    rc, out = sh("go build ./... && go build -tags verif ./... && echo BUILD-OK", cwd=wt, timeout=1500)
    L("$ go build ./... && go build -tags verif ./...\n" + out[-500:])
    builds = "BUILD-OK" in out
    rc1, o1 = sh("go test -vet=off -count=1 ./... 2>&1 | grep -v 'no test files'", cwd=wt, timeout=2400)
    rc2, o2 = sh("go test -vet=off -count=1 ./... 2>&1 | grep -v 'no test files'", cwd=os.path.join(wt, "test"), timeout=2400)
    L("$ go test -vet=off -count=1 ./...   (patched)\n" + o1 + "\n$ (cd test && go test ...)\n" + o2)
    # pkg/store/v2/proposal TestProposalStore is flaky on the UNCHANGED tree (listed finding
    # KF-C15-atomix-events-partial-registration; more often under load): failed packages are re-run alone
    for attempt in range(3):
        failed = re.findall(r"^FAIL\s+(\S+)", o1, re.M)
        if not failed:
            break
        rcr, orr = sh("go test -vet=off -count=1 %s 2>&1" % " ".join(failed), cwd=wt, timeout=1200)
        L("$ re-run of failed packages alone (attempt %d): %s\n%s" % (attempt + 1, " ".join(failed), orr[-600:]))
        if rcr == 0:
            o1 = re.sub(r"^(--- FAIL.*|FAIL.*)$", "", o1, flags=re.M)
            break
    suite = ("FAIL" not in o1) and ("FAIL" not in o2) and re.search(r"^ok\s", o1, re.M) is not None
    sh("git apply -R %s/patch.diff" % src, cwd=wt)
    rc, out = sh("git status --short", cwd=wt)
    L("worktree after revert: %r" % out.strip())
    res = {"demo_passes_unchanged": pass_unchanged, "demo_fails_with_change": fail_patched, "builds": builds,
           "builds_with_verif_tag": builds, "existing_suite_passes": suite}
    L("RESULT " + json.dumps(res))
    return all(res.values()), res


def evaluate(prop, mid):
    # the evaluation copy follows /verif's HEAD (committed state), keeps its own build output
    VEXP = VCOPY.rstrip("/") + ".export"
    sh("rm -rf %s && mkdir -p %s %s && git -C %s archive HEAD | tar -x -C %s" % (VEXP, VEXP, VCOPY, VERIF, VEXP))
    if not os.path.isdir(os.path.join(VCOPY, "lean", ".lake")):
        sh("rsync -a --exclude .git %s/ %s/" % (VERIF, VCOPY))
    sh("rsync -a --delete --exclude .work --exclude lean/.lake --exclude lean/Audit --exclude lean/OnosVerif/Generated "
       "--exclude harness/props/all_gen.go --exclude lean/Driver/Handlers.lean --exclude lean/OnosVerif.lean %s/ %s/" % (VEXP, VCOPY))
    sh("rm -rf %s" % VEXP)
    head = sh("git -C /repo rev-parse HEAD")[1].strip()
    if not os.path.isdir(EVALWT):
        sh("git -C /repo worktree add --detach %s HEAD" % EVALWT)
    sh("git checkout -q -- . && git clean -fdq && git checkout -q --detach %s" % head, cwd=EVALWT)
    d = os.path.join(VERIF, "seeded", mid)
    rc, out = sh("git apply %s/patch.diff" % d, cwd=EVALWT)
    if rc != 0:
        return "PATCH-DOES-NOT-APPLY", "", head
    t0 = time.time()
    rc, out = sh("VERIF_REPO=%s timeout 3000 ./check %s" % (EVALWT, prop), cwd=VCOPY)
    sh("git checkout -q -- .", cwd=EVALWT)
    open(os.path.join(VCOPY, ".work", "eval.%s.out" % mid), "w").write(out)
    lines = out.split("\n")
    viol = [l for l in lines if l.startswith("VIOLATION")]
    concrete = [l for l in viol if not l.rstrip().endswith("no-failing-input-found")]
    notes = [l for l in lines if l.startswith("NOTE proof obligation")]
    details = [l for l in lines if l.startswith("DETAIL")]
    kinds = sorted(set(re.findall(r"kind=(\w+)", "\n".join(details))))
    if rc == 0 and not viol:
        verdict = "MISSED"
    elif rc != 1 or not viol:
        verdict = "EVALUATION-FAILED: exit %d, %d VIOLATION lines (the check did not run to its verdict)" % (rc, len(viol))
    else:
        verdict = "caught: exit %d, %d VIOLATION (%d with a concrete replay, %d no-failing-input-found)" % (rc, len(viol), len(concrete), len(viol) - len(concrete))
        if notes:
            verdict += "; broken proof obligation: " + "; ".join(re.sub(r"^NOTE proof obligation no longer checks: ", "", x) for x in notes[:2])
        if kinds:
            verdict += "; kinds: " + ",".join(kinds)
    verdict += " [%.0fs]" % (time.time() - t0)
    return verdict, (details[0][:300] if details else ""), head


def main():
    a = sys.argv[1:]
    prop, n = a[0], a[1]
    src = "/tmp/mut3/%s/out/m%s" % (prop, n)
    wt = "/tmp/mut3/%s/wt" % prop
    do_eval = True
    i = 2
    while i < len(a):
        if a[i] == "--src":
            src = a[i + 1]; i += 2
        elif a[i] == "--wt":
            wt = a[i + 1]; i += 2
        elif a[i] == "--no-eval":
            do_eval = False; i += 1
        else:
            i += 1
    mid = "%s-m%s" % (prop, n)
    dst = os.path.join(VERIF, "seeded", mid)
    if not os.path.exists(os.path.join(dst, "meta.json")):
        log = []
        ok, res = confirm(prop, n, src, wt, log)
        if not ok:
            os.makedirs("/tmp/mut3/rejected", exist_ok=True)
            open("/tmp/mut3/rejected/%s.log" % mid, "w").write("\n".join(log))
            print(mid, "NOT CONFIRMED", res, "(log: /tmp/mut3/rejected/%s.log)" % mid, flush=True)
            return 1
        os.makedirs(dst, exist_ok=True)
        shutil.copy(os.path.join(src, "patch.diff"), dst)
        if os.path.exists(os.path.join(src, "NOTES.md")):
            shutil.copy(os.path.join(src, "NOTES.md"), dst)
        shutil.rmtree(os.path.join(dst, "demo"), ignore_errors=True)
        shutil.copytree(os.path.join(src, "demo"), os.path.join(dst, "demo"))
        open(os.path.join(dst, "confirm.log"), "w").write("\n".join(log))
        patch = open(os.path.join(src, "patch.diff")).read()
        files = re.findall(r"^\+\+\+ b/(\S+)", patch, re.M)
        notes = open(os.path.join(src, "NOTES.md")).read() if os.path.exists(os.path.join(src, "NOTES.md")) else ""
        head = sh("git -C %s rev-parse HEAD" % wt)[1].strip()
        meta = {"property": prop, "mutant": mid, "files_touched": files,
                "summary": " ".join(notes.split("\n\n")[1].split())[:900] if notes.count("\n\n") else "",
                "needs_to_manifest": "see NOTES.md",
                "demo": "see demo/README.md (Go files carry a .txt suffix so that they are inert here)",
                "confirmed": dict(res, base_commit=head,
                                  what_was_run="tools/seed_pipeline.py: demo on the unchanged scratch worktree (PASS), git apply patch.diff, demo again (FAIL), demo removed, go build ./... and go build -tags verif ./..., go test -vet=off -count=1 ./... in both modules (ok), patch reverted; transcript in confirm.log")}
        json.dump(meta, open(os.path.join(dst, "meta.json"), "w"), indent=1)
        print(mid, "confirmed and adopted", flush=True)
    if do_eval:
        verdict, first, head = evaluate(prop, mid)
        meta = json.load(open(os.path.join(dst, "meta.json")))
        meta["detected_by"] = {"check": "./check %s (quick tier, seed 1)" % prop, "result": verdict, "first_detail": first,
                               "evaluated_at_repo_head": head}
        json.dump(meta, open(os.path.join(dst, "meta.json"), "w"), indent=1)
        print(mid, verdict, "|", first[:200], flush=True)
    return 0


if __name__ == "__main__":
    sys.exit(main())
